import MirosModel.Conc.AO
/-!
# What one step of the active-object system does (case analysis of `AO.stepL`)
-/
namespace Miros.Conc.AO
open Miros.Queue Miros.Conc.LD

/-- the source created by an accepted timed post -/
def freshTimer (now idx : Nat) (kind : Kind) (sig period total : Nat) (deferred : Bool) : Timer :=
  { id := idx, name := sig, nameObj := sig, kind := kind, period := period, total := total,
    deferred := deferred, activated := 0, flag := true, pc := .b, wake := 0,
    post := ⟨[], .a0, 0⟩, lock := none, nposted := 0, tracked := true, started := true,
    placedAt := [], createdAt := now, deferred0 := deferred }

/-- what `cancelOne` does to the source -/
def cancelled (tm : Timer) : Timer := { tm with flag := false, tracked := false, lock := none }

theorem cancelOne_timers (s : State) (i : Nat) : (cancelOne s i).timers = s.timers.modify i cancelled := rfl

/-- one step of a timer thread, seen from the timer -/
inductive TStep (g : Tags) (c : LD.Config) (s : State) (tm : Timer) : Timer → LD.State → String → Prop
  | b (h : tm.pc = .b) : TStep g c s tm (loopTest g c s tm) s.ld "begin"
  | s (h : tm.pc = .s) (hw : tm.wake ≤ s.now) :
      TStep g c s tm (if g.cancelLocked then { tm with pc := .k } else
                        (if tm.flag then startPost c tm else { tm with pc := .fin })) s.ld "sleep"
  | kGo (h : tm.pc = .k) (hl : tm.lock = none) (hf : tm.flag = true) :
      TStep g c s tm (startPost c { tm with lock := some .timer }) s.ld "lock.acquire"
  | kEnd (h : tm.pc = .k) (hl : tm.lock = none) (hf : tm.flag = false) :
      TStep g c s tm { tm with pc := .fin } s.ld "lock.acquire"
  | pMid (h : tm.pc = .p) (sh : Shared) (p' : Poster) (lbl : String)
      (hp : posterStep c (shared s.ld) tm.post = some (sh, p', lbl)) (hne : p'.posts ≠ []) :
      TStep g c s tm { tm with post := p', placedAt := if isPlacement lbl then tm.placedAt ++ [s.now] else tm.placedAt }
        (s.ld.withShared sh) lbl
  | pEnd (h : tm.pc = .p) (sh : Shared) (p' : Poster) (lbl : String)
      (hp : posterStep c (shared s.ld) tm.post = some (sh, p', lbl)) (hne : p'.posts = []) :
      TStep g c s tm (afterPost g c { s with ld := s.ld.withShared sh }
          { tm with post := p', placedAt := if isPlacement lbl then tm.placedAt ++ [s.now] else tm.placedAt })
        (s.ld.withShared sh) lbl

theorem timerStep_cases {g : Tags} {c : LD.Config} {s s' : State} {i : Nat} {lbl : String}
    (h : timerStep g c s i = some (s', lbl)) :
    ∃ tm tm' ld', s.timers[i]? = some tm ∧ tm.started = true ∧ TStep g c s tm tm' ld' lbl ∧
      s' = { s with ld := ld', timers := s.timers.set i tm' } := by
  unfold timerStep at h
  split at h
  · simp at h
  · rename_i tm htm
    split at h
    · simp at h
    · rename_i hst
      have hst' : tm.started = true := by simpa using hst
      simp only at h
      split at h
      · simp at h
      · rename_i hpc
        simp only [Option.some.injEq, Prod.mk.injEq] at h
        exact ⟨tm, _, _, htm, hst', h.2 ▸ TStep.b hpc, h.1.symm⟩
      · rename_i hpc
        split at h
        · simp at h
        · rename_i hw
          simp only [Option.some.injEq, Prod.mk.injEq] at h
          exact ⟨tm, _, _, htm, hst', h.2 ▸ TStep.s hpc (by omega), h.1.symm⟩
      · rename_i hpc
        split at h
        · simp at h
        · rename_i hl
          have hl' : tm.lock = none := by simpa using hl
          split at h
          · rename_i hf
            simp only [Option.some.injEq, Prod.mk.injEq] at h
            exact ⟨tm, _, _, htm, hst', h.2 ▸ TStep.kGo hpc hl' hf, h.1.symm⟩
          · rename_i hf
            simp only [Option.some.injEq, Prod.mk.injEq] at h
            exact ⟨tm, _, _, htm, hst', h.2 ▸ TStep.kEnd hpc hl' (by simpa using hf), h.1.symm⟩
      · rename_i hpc
        split at h
        · simp at h
        · rename_i sh p' lbl' hp
          split at h
          · rename_i hne
            simp only [Option.some.injEq, Prod.mk.injEq] at h
            obtain ⟨h1, rfl⟩ := h
            exact ⟨tm, _, _, htm, hst', TStep.pEnd hpc sh p' lbl' hp hne, h1.symm⟩
          · rename_i hne
            simp only [Option.some.injEq, Prod.mk.injEq] at h
            obtain ⟨h1, rfl⟩ := h
            exact ⟨tm, _, _, htm, hst', TStep.pMid hpc sh p' lbl' hp hne, h1.symm⟩


/-! ### client steps -/

/-- the client after the search of a cancelling call (locked code): done, or on to the first lock -/
def afterSelect (cl : Client) (ms : List Nat) : Client :=
  match ms with
  | [] => finishCall cl
  | _ => { cl with pc := .cancelLock ms }

theorem cancelNext_locked (g : Tags) (hl : g.cancelLocked = true) (s : State) (cl : Client) (ms : List Nat) :
    cancelNext g s cl ms = (afterSelect cl ms, s) := by
  unfold cancelNext afterSelect
  rw [hl]
  cases ms <;> rfl

/-- the test of `cancel_event(id)` -/
def hitId (g : Tags) (s : State) (id : Nat) (same : Bool) : Nat → Bool :=
  timerHas s fun tm => tm.id = id && (g.cancelEq || same)

/-- the test of `cancel_events(e)` -/
def hitName (g : Tags) (s : State) (name : Nat) (same : Bool) : Nat → Bool :=
  timerHas s fun tm => tm.name = name && (g.cancelEq || same)

/-- the selection made by `stop()`: for each tracked entry, oldest first, the sources with its name -/
def stopSel (s : State) : List Nat × List Nat :=
  (s.order.filterMap fun i => (s.timers[i]?).map (·.name)).foldl
    (fun (acc : List Nat × List Nat) nm =>
      let (m, o) := scan (timerHas s fun tm => tm.name = nm) false acc.2.length acc.2 []
      (acc.1 ++ m, o)) ([], s.order)

/-- one step of a client thread: the new client record, `ld`, `timers`, `order` and the label
(tags: locked cancellation, capacity checked before the thread is started) -/
inductive CStep (g : Tags) (c : LD.Config) (s : State) (cl : Client) :
    Client → LD.State → List Timer → List Nat → String → Prop
  | timedOk (kind sig period total deferred rest) (hpc : cl.pc = .call)
      (hc : cl.calls = .timed kind sig period total deferred :: rest) (hlt : trackedCount s < s.maxTimers) :
      CStep g c s cl { finishCall cl with results := cl.results ++ [s.timers.length + 1] } s.ld
        (s.timers ++ [freshTimer s.now s.timers.length kind sig period total deferred])
        (s.order ++ [s.timers.length]) "call.timed=ok"
  | timedRejected (kind sig period total deferred rest) (hpc : cl.pc = .call)
      (hc : cl.calls = .timed kind sig period total deferred :: rest) (hge : s.maxTimers ≤ trackedCount s) :
      CStep g c s cl { finishCall cl with results := cl.results ++ [0] } s.ld s.timers s.order "call.timed=rejected"
  | cancelEvent (id same rest) (hpc : cl.pc = .call) (hc : cl.calls = .cancelEvent id same :: rest) :
      CStep g c s cl (afterSelect cl (scan (hitId g s id same) true s.order.length s.order []).1) s.ld s.timers
        (scan (hitId g s id same) true s.order.length s.order []).2 "call.cancel_event"
  | cancelEvents (name same rest) (hpc : cl.pc = .call) (hc : cl.calls = .cancelEvents name same :: rest) :
      CStep g c s cl (afterSelect cl (scan (hitName g s name same) false s.order.length s.order []).1) s.ld s.timers
        (scan (hitName g s name same) false s.order.length s.order []).2 "call.cancel_events"
  | lockNil (call rest) (hpc : cl.pc = .cancelLock []) (hc : cl.calls = call :: rest) :
      CStep g c s cl (finishCall cl) s.ld s.timers s.order "noop"
  | lockCons (call rest i pend tm) (hpc : cl.pc = .cancelLock (i :: pend)) (hc : cl.calls = call :: rest)
      (htm : s.timers[i]? = some tm) (hl : tm.lock = none) :
      CStep g c s cl (afterSelect cl pend) s.ld (s.timers.modify i cancelled) s.order "lock.acquire"
  | stop (rest) (hpc : cl.pc = .call) (hc : cl.calls = .stop :: rest) :
      CStep g c s cl { cl with pc := .stopPost, post := ⟨[(.fifo, ⟨c.stopSig, s.stopUid⟩)], startPc c.alg .fifo, 0⟩ }
        { s.ld with runFlag := false } s.timers s.order "call.stop"
  | stopPost (call rest sh p' lbl) (hpc : cl.pc = .stopPost) (hc : cl.calls = call :: rest)
      (hp : posterStep c (shared s.ld) cl.post = some (sh, p', lbl)) :
      CStep g c s cl (if p'.posts = [] then { cl with post := p', pc := .stopJoin } else { cl with post := p' })
        (s.ld.withShared sh) s.timers s.order lbl
  | stopJoin (call rest) (hpc : cl.pc = .stopJoin) (hc : cl.calls = call :: rest) (hfin : s.ld.cpc = .fin) :
      CStep g c s cl (afterSelect cl (stopSel s).1) s.ld s.timers (stopSel s).2 "thread.join"

theorem afterSelect_cons (cl : Client) (i : Nat) (l : List Nat) :
    afterSelect cl (i :: l) = { cl with pc := .cancelLock (i :: l) } := rfl

theorem afterSelect_nil (cl : Client) : afterSelect cl [] = finishCall cl := rfl

theorem clientStep_cases {g : Tags} {c : LD.Config} (hl : g.cancelLocked = true) (hb : g.checkBeforeStart = true)
    {s s' : State} {j : Nat} {lbl : String} (h : clientStep g c s j = some (s', lbl)) :
    ∃ cl cl' ld' timers' order', s.clients[j]? = some cl ∧ CStep g c s cl cl' ld' timers' order' lbl ∧
      s' = { s with ld := ld', timers := timers', clients := s.clients.set j cl', order := order' } := by
  unfold clientStep at h
  split at h
  · simp at h
  · rename_i cl hcl
    simp only at h
    split at h
    · simp at h
    · rename_i call rest hc
      split at h
      · -- timed
        rename_i hpc kind sig period total deferred
        split at h
        · rename_i hlt
          simp only [Option.some.injEq, Prod.mk.injEq] at h
          obtain ⟨h1, rfl⟩ := h
          exact ⟨cl, _, _, _, _, hcl, CStep.timedOk _ _ _ _ _ _ (by assumption) (by assumption) hlt, h1.symm⟩
        · rename_i hge
          simp only [Option.some.injEq, Prod.mk.injEq] at h
          obtain ⟨h1, rfl⟩ := h
          exact ⟨cl, _, _, _, _, hcl, CStep.timedRejected _ _ _ _ _ _ (by assumption) (by assumption) (by omega), h1.symm⟩
      · -- cancelEvent
        rename_i hpc id same
        simp only [cancelNext_locked g hl, Option.some.injEq, Prod.mk.injEq] at h
        obtain ⟨h1, rfl⟩ := h
        exact ⟨cl, _, _, _, _, hcl, CStep.cancelEvent _ _ _ (by assumption) (by assumption), h1.symm⟩
      · rename_i hpc name same
        simp only [cancelNext_locked g hl, Option.some.injEq, Prod.mk.injEq] at h
        obtain ⟨h1, rfl⟩ := h
        exact ⟨cl, _, _, _, _, hcl, CStep.cancelEvents _ _ _ (by assumption) (by assumption), h1.symm⟩
      · -- cancelLock
        rename_i pending hpc
        split at h
        · simp only [Option.some.injEq, Prod.mk.injEq] at h
          obtain ⟨h1, rfl⟩ := h
          exact ⟨cl, _, _, _, _, hcl, CStep.lockNil _ _ (by assumption) (by assumption), h1.symm⟩
        · rename_i i pend
          split at h
          · simp at h
          · rename_i tm htm
            split at h
            · simp at h
            · rename_i hlk
              have hlk' : tm.lock = none := by simpa using hlk
              split at h
              · simp only [Option.some.injEq, Prod.mk.injEq] at h
                obtain ⟨h1, rfl⟩ := h
                exact ⟨cl, _, _, _, _, hcl, CStep.lockCons _ _ i [] tm (by assumption) (by assumption) htm hlk', h1.symm⟩
              · rename_i hne
                simp only [Option.some.injEq, Prod.mk.injEq] at h
                obtain ⟨h1, rfl⟩ := h
                refine ⟨cl, _, _, _, _, hcl, CStep.lockCons _ _ i pend tm (by assumption) (by assumption) htm hlk', ?_⟩
                rw [← h1]
                cases pend with
                | nil => exact absurd rfl (hne)
                | cons a l => rfl
      · -- stop
        rename_i hpc
        simp only [Option.some.injEq, Prod.mk.injEq] at h
        obtain ⟨h1, rfl⟩ := h
        exact ⟨cl, _, _, _, _, hcl, CStep.stop _ (by assumption) (by assumption), h1.symm⟩
      · -- stopPost
        rename_i hpc
        split at h
        · simp at h
        · rename_i sh p' lbl' hp
          have hlbl : lbl' = lbl := by
            split at h <;> (simp only [Option.some.injEq, Prod.mk.injEq] at h; exact h.2)
          subst hlbl
          refine ⟨cl, _, _, _, _, hcl, CStep.stopPost _ _ sh p' lbl' (by assumption) (by assumption) hp, ?_⟩
          split at h <;> rename_i hne <;> simp only [Option.some.injEq, Prod.mk.injEq] at h <;>
            simp [hne, ← h.1]
      · -- stopJoin
        rename_i hpc
        split at h
        · simp at h
        · rename_i hfin
          simp only [cancelNext_locked g hl, Option.some.injEq, Prod.mk.injEq] at h
          obtain ⟨h1, rfl⟩ := h
          exact ⟨cl, _, _, _, _, hcl, CStep.stopJoin _ _ (by assumption) (by assumption) (by simpa using hfin), h1.symm⟩


theorem stepL_client (g : Tags) (c : LD.Config) (s : State) (j : Nat) (hj : j < 700) :
    stepL g c s (300 + j) = clientStep g c s j := by
  have h1 : ¬ (300 + j = 1000) := by omega
  simp [stepL, h1]

theorem stepL_timer (g : Tags) (c : LD.Config) (s : State) (i : Nat) (hi : i < 100) :
    stepL g c s (200 + i) = timerStep g c s i := by
  have h1 : ¬ (200 + i = 1000) := by omega
  have h2 : ¬ (300 ≤ 200 + i) := by omega
  simp [stepL, h1, h2]

/-- conversely, each case of `CStep` is what `clientStep` does -/
theorem CStep.sound {g : Tags} {c : LD.Config} (hl : g.cancelLocked = true) (hb : g.checkBeforeStart = true)
    {s : State} {j : Nat} {cl cl' : Client} {ld' : LD.State} {timers' : List Timer} {order' : List Nat}
    {lbl : String} (hcl : s.clients[j]? = some cl) (hs : CStep g c s cl cl' ld' timers' order' lbl) :
    clientStep g c s j =
      some ({ s with ld := ld', timers := timers', clients := s.clients.set j cl', order := order' }, lbl) := by
  cases hs with
  | timedOk kind sig period total deferred rest hpc hc hlt =>
    simp only [clientStep, hcl, hc, hpc, hlt, if_true]; rfl
  | timedRejected kind sig period total deferred rest hpc hc hge =>
    have : ¬ trackedCount s < s.maxTimers := by omega
    simp only [clientStep, hcl, hc, hpc, this, if_false, hb, if_true]
  | cancelEvent id same rest hpc hc =>
    simp only [clientStep, hcl, hc, hpc, cancelNext_locked g hl]; rfl
  | cancelEvents name same rest hpc hc =>
    simp only [clientStep, hcl, hc, hpc, cancelNext_locked g hl]; rfl
  | lockNil call rest hpc hc => simp only [clientStep, hcl, hc, hpc]
  | lockCons call rest i pend tm hpc hc htm hlk =>
    simp only [clientStep, hcl, hc, hpc, htm, hlk, Option.isSome_none, Bool.false_eq_true, if_false]
    cases pend <;> simp [afterSelect, cancelOne, hc] <;> rfl
  | stop rest hpc hc => simp only [clientStep, hcl, hc, hpc]
  | stopPost call rest sh p' lbl hpc hc hp =>
    simp only [clientStep, hcl, hc, hpc, hp]
    split <;> rfl
  | stopJoin call rest hpc hc hfin =>
    simp only [clientStep, hcl, hc, hpc, hfin, cancelNext_locked g hl]; rfl

/-! ### the clock -/

theorem foldl_min_le (l : List Nat) (w : Nat) : l.foldl min w ≤ w ∧ ∀ x ∈ l, l.foldl min w ≤ x := by
  induction l generalizing w with
  | nil => simp
  | cons a l ih =>
    simp only [List.foldl_cons, List.mem_cons, forall_eq_or_imp]
    have h1 := ih (min w a)
    refine ⟨by omega, by omega, h1.2⟩

theorem foldl_min_mem (l : List Nat) (w : Nat) : l.foldl min w = w ∨ l.foldl min w ∈ l := by
  induction l generalizing w with
  | nil => simp
  | cons a l ih =>
    simp only [List.foldl_cons, List.mem_cons]
    rcases ih (min w a) with h | h
    · rw [h]; omega
    · right; right; exact h

/-- the timers the clock looks at: started, sleeping, wake-up time still ahead -/
def pendingWake (s : State) (tm : Timer) : Bool := tm.started && tm.pc = .s && s.now < tm.wake

/-- the clock is enabled iff some sleeping timer has its wake-up time ahead; it jumps exactly to the earliest such time -/
theorem clock_cases {g : Tags} {c : LD.Config} {s s' : State} {lbl : String}
    (h : stepL g c s 1000 = some (s', lbl)) :
    ∃ m, s' = { s with now := m } ∧ lbl = "clock" ∧
      (∃ tm ∈ s.timers, pendingWake s tm = true ∧ tm.wake = m) ∧
      (∀ tm ∈ s.timers, pendingWake s tm = true → m ≤ tm.wake) := by
  unfold stepL at h
  simp only [if_true] at h
  split at h
  · simp at h
  · rename_i w ws hw
    simp only [Option.some.injEq, Prod.mk.injEq] at h
    refine ⟨_, h.1.symm, h.2.symm, ?_, ?_⟩
    · have hm : ws.foldl min w ∈ (s.timers.filter (pendingWake s)).map (·.wake) := by
        have : (s.timers.filter (pendingWake s)).map (·.wake) = w :: ws := hw
        rw [this]
        rcases foldl_min_mem ws w with h1 | h1
        · rw [h1]; simp
        · simp [h1]
      simp only [List.mem_map, List.mem_filter] at hm
      obtain ⟨tm, ⟨h1, h2⟩, h3⟩ := hm
      exact ⟨tm, h1, h2, h3⟩
    · intro tm htm hp
      have hm : tm.wake ∈ w :: ws := by
        have : (s.timers.filter (pendingWake s)).map (·.wake) = w :: ws := hw
        rw [← this]
        simp only [List.mem_map, List.mem_filter]
        exact ⟨tm, ⟨htm, hp⟩, rfl⟩
      have := foldl_min_le ws w
      simp only [List.mem_cons] at hm
      rcases hm with h1 | h1
      · omega
      · exact this.2 _ h1

theorem clock_enabled {g : Tags} {c : LD.Config} {s : State} {tm : Timer} (hm : tm ∈ s.timers)
    (hp : pendingWake s tm = true) : (stepL g c s 1000).isSome = true := by
  unfold stepL
  simp only [if_true]
  split
  · rename_i hw
    have : tm.wake ∈ (s.timers.filter (pendingWake s)).map (·.wake) := by
      simp only [List.mem_map, List.mem_filter]
      exact ⟨tm, ⟨hm, hp⟩, rfl⟩
    have hw' : (s.timers.filter (pendingWake s)).map (·.wake) = [] := hw
    rw [hw'] at this
    simp at this
  · rfl

/-! ### every step -/

/-- the four kinds of threads -/
theorem stepL_cases {g : Tags} {c : LD.Config} (hl : g.cancelLocked = true) (hb : g.checkBeforeStart = true)
    {s s' : State} {tid : Nat} {lbl : String} (h : stepL g c s tid = some (s', lbl)) :
    (tid = 1000 ∧ ∃ m, s' = { s with now := m } ∧ s.now < m) ∨
    (∃ j cl cl' ld' timers' order', tid = 300 + j ∧ tid ≠ 1000 ∧ s.clients[j]? = some cl ∧
        CStep g c s cl cl' ld' timers' order' lbl ∧
        s' = { s with ld := ld', timers := timers', clients := s.clients.set j cl', order := order' }) ∨
    (∃ i tm tm' ld', tid = 200 + i ∧ i < 100 ∧ s.timers[i]? = some tm ∧ tm.started = true ∧ TStep g c s tm tm' ld' lbl ∧
        s' = { s with ld := ld', timers := s.timers.set i tm' }) ∨
    (tid < 200 ∧ ∃ ld', LD.stepL c s.ld tid = some (ld', lbl) ∧ s' = { s with ld := ld' }) := by
  by_cases h1 : tid = 1000
  · left
    subst h1
    obtain ⟨m, hm, _, ⟨tm, htm, hp, hw⟩, _⟩ := clock_cases h
    refine ⟨rfl, m, hm, ?_⟩
    simp only [pendingWake, Bool.and_eq_true, decide_eq_true_eq] at hp
    omega
  · right
    unfold stepL at h
    simp only [h1, if_false] at h
    split at h
    · left
      rename_i h3
      obtain ⟨cl, cl', ld', timers', order', hcl, hs, he⟩ := clientStep_cases hl hb h
      exact ⟨tid - 300, cl, cl', ld', timers', order', by omega, h1, hcl, hs, he⟩
    · right
      split at h
      · left
        rename_i h3 h2
        obtain ⟨tm, tm', ld', htm, hst, hs, he⟩ := timerStep_cases h
        exact ⟨tid - 200, tm, tm', ld', by omega, by omega, htm, hst, hs, he⟩
      · right
        rename_i h3 h2
        refine ⟨by omega, ?_⟩
        split at h
        · simp at h
        · rename_i ld' lbl' hld
          simp only [Option.some.injEq, Prod.mk.injEq] at h
          exact ⟨ld', by rw [← h.2]; exact hld, h.1.symm⟩


/-- what a client step does to the list of timers -/
theorem CStep.timers_cases {g : Tags} {c : LD.Config} {s : State} {cl cl' : Client} {ld' : LD.State}
    {timers' : List Timer} {order' : List Nat} {lbl : String} (h : CStep g c s cl cl' ld' timers' order' lbl) :
    timers' = s.timers ∨
    (∃ kind sig period total deferred,
        timers' = s.timers ++ [freshTimer s.now s.timers.length kind sig period total deferred]) ∨
    (∃ i tm pend, s.timers[i]? = some tm ∧ tm.lock = none ∧ timers' = s.timers.modify i cancelled ∧
      cl.pc = .cancelLock (i :: pend)) := by
  cases h with
  | timedOk kind sig period total deferred => right; left; exact ⟨kind, sig, period, total, deferred, rfl⟩
  | lockCons _ _ i pend tm hpc _ htm hlk => right; right; exact ⟨i, tm, pend, htm, hlk, rfl, hpc⟩
  | _ => left; rfl

/-- **every step, seen from one timer**: a timer of the new state is an unchanged old one, or the result of its
own thread's step, or an old one just cancelled by a client holding its lock, or newly created -/
theorem step_timer {g : Tags} {c : LD.Config} (hl : g.cancelLocked = true) (hb : g.checkBeforeStart = true)
    {s s' : State} {tid : Nat} {lbl : String} (h : stepL g c s tid = some (s', lbl)) :
    s.now ≤ s'.now ∧ s'.maxTimers = s.maxTimers ∧ s.timers.length ≤ s'.timers.length ∧
    ∀ i tm', s'.timers[i]? = some tm' →
      (s.timers[i]? = some tm' ∧ (tid = 1000 ∨ s'.now = s.now)) ∨
      (tid = 200 + i ∧ i < 100 ∧ s'.now = s.now ∧ ∃ tm ld', s.timers[i]? = some tm ∧ TStep g c s tm tm' ld' lbl) ∨
      (300 ≤ tid ∧ tid ≠ 1000 ∧ s'.now = s.now ∧ ∃ tm, s.timers[i]? = some tm ∧ tm.lock = none ∧ tm' = cancelled tm ∧
        ∃ j cl pend, tid = 300 + j ∧ s.clients[j]? = some cl ∧ cl.pc = .cancelLock (i :: pend)) ∨
      (300 ≤ tid ∧ tid ≠ 1000 ∧ s'.now = s.now ∧ i = s.timers.length ∧ s.timers[i]? = none ∧
        ∃ kind sig period total deferred, tm' = freshTimer s.now i kind sig period total deferred) := by
  rcases stepL_cases hl hb h with ⟨rfl, m, rfl, hm⟩ | ⟨j, cl, cl', ld', timers', order', rfl, hj, hcl, hs, rfl⟩ |
      ⟨i, tm, tm', ld', rfl, hi100, htm, hst, hs, rfl⟩ | ⟨hlt, ld', hld, rfl⟩
  · refine ⟨Nat.le_of_lt hm, rfl, Nat.le_refl _, fun i tm' h' => Or.inl ⟨h', Or.inl rfl⟩⟩
  · rcases hs.timers_cases with ht | ⟨kind, sig, period, total, deferred, ht⟩ | ⟨i0, tm0, pend0, htm0, hlk0, ht, hpc0⟩
    · subst ht
      refine ⟨Nat.le_refl _, rfl, Nat.le_refl _, fun i tm' h' => Or.inl ⟨h', Or.inr rfl⟩⟩
    · subst ht
      refine ⟨Nat.le_refl _, rfl, by simp, fun i tm' h' => ?_⟩
      simp only at h'
      by_cases hi : i < s.timers.length
      · rw [List.getElem?_append_left hi] at h'
        exact Or.inl ⟨h', Or.inr rfl⟩
      · right; right; right
        have hi' : s.timers.length ≤ i := by omega
        rw [List.getElem?_append_right hi'] at h'
        have : i - s.timers.length = 0 := by
          rcases Nat.eq_zero_or_pos (i - s.timers.length) with h0 | h0
          · exact h0
          · rw [List.getElem?_eq_none (by simp; omega)] at h'; simp at h'
        rw [this] at h'
        simp only [List.getElem?_cons_zero, Option.some.injEq] at h'
        have hie : i = s.timers.length := by omega
        subst hie
        exact ⟨by omega, hj, rfl, rfl, by simp, kind, sig, period, total, deferred, h'.symm⟩
    · subst ht
      refine ⟨Nat.le_refl _, rfl, by simp, fun i tm' h' => ?_⟩
      simp only at h'
      by_cases hi : i0 = i
      · subst hi
        right; right; left
        rw [List.getElem?_modify_eq, htm0] at h'
        simp only [Functor.map, Option.map_some, Option.some.injEq] at h'
        exact ⟨by omega, hj, rfl, tm0, htm0, hlk0, h'.symm, j, cl, pend0, rfl, hcl, hpc0⟩
      · rw [List.getElem?_modify] at h'
        simp only [hi, if_false] at h'
        cases hx : s.timers[i]? with
        | none => rw [hx] at h'; simp at h'
        | some x =>
          rw [hx] at h'; simp only [Functor.map, Option.map_some] at h'
          exact Or.inl ⟨h', Or.inr rfl⟩
  · refine ⟨Nat.le_refl _, rfl, by simp, fun i' tm'' h' => ?_⟩
    simp only at h'
    by_cases hi : i = i'
    · subst hi
      right; left
      have hlt : i < s.timers.length := by
        rcases Nat.lt_or_ge i s.timers.length with h1 | h1
        · exact h1
        · rw [List.getElem?_eq_none h1] at htm; simp at htm
      rw [List.getElem?_set_self hlt] at h'
      simp only [Option.some.injEq] at h'
      subst h'
      exact ⟨rfl, hi100, rfl, tm, ld', htm, hs⟩
    · rw [List.getElem?_set_ne hi] at h'
      exact Or.inl ⟨h', Or.inr rfl⟩
  · refine ⟨Nat.le_refl _, rfl, Nat.le_refl _, fun i tm' h' => Or.inl ⟨h', Or.inr rfl⟩⟩

end Miros.Conc.AO
