import MirosModel.Conc.TsaLemmas
/-!
# Thread-safe attributes: every interleaving is equivalent to a serial execution

Each statement takes effect at one step (its linearisation point): an assignment and an augmented
assignment at their `setWrite` step, a read at its `getClassify` step. `sysH` records, next to the
state, the list of statements in the order in which they took effect; this list is an interleaving
of the programs at statement granularity, and the value is the result of running it serially.
-/
namespace Miros.Conc.Tsa

/-- serial semantics of one statement on the value -/
def applyStmt (v : Int) : Stmt → Int
  | .read => v
  | .assign w => w
  | .aug d => v + d
  | .misread => v

/-- a history: `(thread, statement)` in the order in which the statements took effect -/
abbrev Hist := List (Nat × Stmt)

/-- the statements of thread `i` in a history, in order -/
def proj (h : Hist) (i : Nat) : List Stmt := (h.filter (fun x => x.1 = i)).map (·.2)

/-- serial execution of a history from `v0` -/
def serialValue (v0 : Int) (h : Hist) : Int := (h.map (·.2)).foldl applyStmt v0

/-- `h` is an interleaving, at statement granularity, of the programs: every entry belongs to a
thread, and the entries of thread `i` are exactly program `i`, in program order -/
def IsInterleaving (h : Hist) (progs : List (List Stmt)) : Prop :=
  (∀ x ∈ h, x.1 < progs.length) ∧ ∀ (i : Nat) (p : List Stmt), progs[i]? = some p → proj h i = p

/-- the values some serial execution of the programs (statements of different threads in any
order, each thread's in program order) ends with -/
def serialResults (progs : List (List Stmt)) (v0 : Int) (r : Int) : Prop :=
  ∃ h, IsInterleaving h progs ∧ r = serialValue v0 h

/-- what the step that thread `i` is about to make in `s` makes take effect -/
def logOf (s : State) (i : Nat) : Hist :=
  match s.threads[i]? with
  | none => []
  | some t =>
    match t.stmts with
    | [] => []
    | st :: _ => if t.pc = .setWrite ∨ (t.pc = .getClassify ∧ st = .read) then [(i, st)] else []

/-- the system together with the history of statements that took effect -/
def sysH (perThread : Bool) : System (State × Hist) Nat where
  step := fun sh i => (step perThread sh.1 i).map fun s' => (s', sh.2 ++ logOf sh.1 i)

theorem sysH_run_fst (b : Bool) : ∀ (sched : List Nat) (s : State) (h : Hist),
    ((sysH b).run (s, h) sched).1 = (sys b).run s sched
  | [], s, h => rfl
  | i :: sched, s, h => by
    simp only [System.run, sysH, sys]
    cases hs : step b s i with
    | none => exact sysH_run_fst b sched s h
    | some s' => exact sysH_run_fst b sched s' _

/-- the history of a schedule -/
def histOf (b : Bool) (s : State) (sched : List Nat) : Hist := ((sysH b).run (s, []) sched).2

/-- the statements of a thread that have not taken effect yet -/
def pending (t : Thread) : List Stmt := if t.pc = .setRelease then t.stmts.tail else t.stmts

theorem pending_nextStmt (t : Thread) :
    pending (nextStmt t) = t.stmts.tail := by
  unfold pending
  rw [nextStmt_stmts, nextStmt_pc]
  cases ht : t.stmts.tail with
  | nil => simp
  | cons a l =>
    have : startPc a ≠ .setRelease := by cases a <;> simp [startPc]
    simp [this]

theorem rel_threads (s : State) (i : Nat) : (rel s i).threads = s.threads := by
  unfold rel; split <;> (try split) <;> rfl

theorem rel_value (s : State) (i : Nat) : (rel s i).value = s.value := by
  unfold rel; split <;> (try split) <;> rfl

theorem logOf_fst (s : State) (i : Nat) : ∀ x ∈ logOf s i, x.1 = i := by
  intro x hx
  unfold logOf at hx
  split at hx
  · simp at hx
  · split at hx
    · simp at hx
    · split at hx
      · simp at hx; rw [hx]
      · simp at hx

/-- the effect of one step on the thread list, the value, and the pending statements of the
stepping thread, in terms of what the step logs -/
theorem step_effect {s s' : State} {i : Nat} {t : Thread} (hI : Inv s)
    (ht : s.threads[i]? = some t) (h : step true s i = some s') :
    ∃ t', s'.threads = s.threads.set i t' ∧
      s'.value = ((logOf s i).map (·.2)).foldl applyStmt s.value ∧
      pending t = (logOf s i).map (·.2) ++ pending t' := by
  have hT := hI.thr i t ht
  unfold Tsa.step at h
  simp only [ht] at h
  cases hst : t.stmts with
  | nil => simp [hst] at h
  | cons st rest =>
    simp only [hst, setFlag, getFlag, if_true] at h
    cases hpc : t.pc
    all_goals simp only [hpc] at h
    · -- getAcquire
      split at h
      · cases h
      · cases h
        exact ⟨_, rfl, by simp [logOf, ht, hst, hpc], by simp [logOf, ht, hst, hpc, pending]⟩
    · -- getClassify
      have hok := (hT.2.1 st rest hst).1
      cases st with
      | read =>
        cases h
        refine ⟨_, by simp only [rel_threads]; rfl, by simp [logOf, ht, hst, hpc, rel_value, applyStmt], ?_⟩
        rw [pending_nextStmt]
        simp [logOf, ht, hst, hpc, pending]
      | aug d =>
        cases h
        exact ⟨_, rfl, by simp [logOf, ht, hst, hpc], by simp [logOf, ht, hst, hpc, pending]⟩
      | misread => exact absurd rfl hok.1
      | assign v =>
        have := hok.2.2.1 rfl
        simp [hpc] at this
    · -- setTestFlag
      split at h <;> cases h <;>
        exact ⟨_, rfl, by simp [logOf, ht, hst, hpc], by simp [logOf, ht, hst, hpc, pending]⟩
    · -- setAcquire
      split at h
      · cases h
      · cases h
        exact ⟨_, rfl, by simp [logOf, ht, hst, hpc], by simp [logOf, ht, hst, hpc, pending]⟩
    · -- setWrite
      cases h
      refine ⟨_, rfl, ?_, by simp [logOf, ht, hst, hpc, pending]⟩
      have htmp := (hT.2.1 st rest hst).2.2
      cases st with
      | aug d =>
        have := htmp rfl (Or.inr hpc)
        simp [logOf, ht, hst, hpc, applyStmt, this]
      | _ => simp [logOf, ht, hst, hpc, applyStmt]
    · -- setRelease
      cases h
      refine ⟨_, by simp only [rel_threads]; rfl, by simp [logOf, ht, hst, hpc, rel_value], ?_⟩
      rw [pending_nextStmt]
      simp [logOf, ht, hst, hpc, pending]

theorem proj_append (h l : Hist) (k : Nat) : proj (h ++ l) k = proj h k ++ proj l k := by
  simp [proj]

theorem proj_same {l : Hist} {i : Nat} (hl : ∀ x ∈ l, x.1 = i) : proj l i = l.map (·.2) := by
  unfold proj
  rw [List.filter_eq_self.mpr]
  intro x hx
  simp [hl x hx]

theorem proj_other {l : Hist} {i k : Nat} (hl : ∀ x ∈ l, x.1 = i) (hk : i ≠ k) : proj l k = [] := by
  unfold proj
  rw [List.filter_eq_nil_iff.mpr]
  · rfl
  · intro x hx
    have := hl x hx
    simp; omega

theorem serialValue_append (v0 : Int) (h l : Hist) :
    serialValue v0 (h ++ l) = (l.map (·.2)).foldl applyStmt (serialValue v0 h) := by
  simp [serialValue]

theorem step_some_thread {b : Bool} {s s' : State} {i : Nat} (h : step b s i = some s') :
    ∃ t, s.threads[i]? = some t := by
  unfold Tsa.step at h
  cases ht : s.threads[i]? with
  | none => simp [ht] at h
  | some t => exact ⟨t, rfl⟩

/-- the invariant of the system with history -/
structure HInv (progs : List (List Stmt)) (v0 : Int) (sh : State × Hist) : Prop where
  inv : Inv sh.1
  value : sh.1.value = serialValue v0 sh.2
  bound : ∀ x ∈ sh.2, x.1 < progs.length
  len : sh.1.threads.length = progs.length
  pre : ∀ (i : Nat) (t : Thread) (p : List Stmt), sh.1.threads[i]? = some t → progs[i]? = some p →
    p = proj sh.2 i ++ pending t

theorem HInv.init (v0 : Int) (progs : List (List Stmt)) (hp : NoMisread progs) :
    HInv progs v0 (Tsa.init v0 progs, []) := by
  refine ⟨Inv.init v0 progs hp, rfl, by simp, by simp [Tsa.init], ?_⟩
  intro i t p ht hpi
  simp only [Tsa.init, List.getElem?_map, hpi, Option.map_some, Option.some.injEq] at ht
  subst ht
  cases p with
  | nil => simp [proj, pending]
  | cons st r => cases st <;> simp [proj, pending, startPc]

theorem HInv.step {progs : List (List Stmt)} {v0 : Int} {sh sh' : State × Hist} {i : Nat}
    (hJ : HInv progs v0 sh) (h : (sysH true).step sh i = some sh') : HInv progs v0 sh' := by
  obtain ⟨s, hist⟩ := sh
  simp only [sysH, Option.map_eq_some_iff] at h
  obtain ⟨s', hs, rfl⟩ := h
  obtain ⟨hI, hv, hb, hl, hpre⟩ := hJ
  simp only at hI hv hb hl hpre hs
  obtain ⟨t, ht⟩ := step_some_thread hs
  have hlt : i < s.threads.length := (List.getElem?_eq_some_iff.mp ht).1
  obtain ⟨t', hthr, hval, hpend⟩ := step_effect hI ht hs
  have hlog := logOf_fst s i
  refine ⟨hI.step hs, ?_, ?_, ?_, ?_⟩
  · simp only [serialValue_append, ← hv, hval]
  · intro x hx
    rcases List.mem_append.mp hx with hx | hx
    · exact hb x hx
    · rw [hlog x hx, ← hl]; exact hlt
  · simp only [hthr, List.length_set, hl]
  · intro k tk p hk hpk
    simp only [hthr, List.getElem?_set] at hk
    rw [proj_append]
    by_cases hik : i = k
    · subst hik
      simp only [if_true, hlt, Option.some.injEq] at hk
      subst hk
      rw [proj_same hlog, hpre i t p ht hpk, hpend, List.append_assoc]
    · simp only [hik, if_false] at hk
      rw [proj_other hlog hik, List.append_nil]
      exact hpre k tk p hk hpk

theorem HInv.run (v0 : Int) (progs : List (List Stmt)) (hp : NoMisread progs) (sched : List Nat) :
    HInv progs v0 ((sysH true).run (Tsa.init v0 progs, []) sched) :=
  (sysH true).inv_run (HInv progs v0) (fun _ _ _ hJ h => hJ.step h) sched _ (HInv.init v0 progs hp)

/-- when every thread has run all its statements, the history is an interleaving of the programs -/
theorem HInv.interleaving {progs : List (List Stmt)} {v0 : Int} {sh : State × Hist}
    (hJ : HInv progs v0 sh) (hdone : ∀ (i : Nat) (t : Thread), sh.1.threads[i]? = some t → t.stmts = []) :
    IsInterleaving sh.2 progs := by
  refine ⟨hJ.bound, ?_⟩
  intro i p hpi
  have hi : i < sh.1.threads.length := by
    rw [hJ.len]; exact (List.getElem?_eq_some_iff.mp hpi).1
  have ht : sh.1.threads[i]? = some sh.1.threads[i] := List.getElem?_eq_getElem hi
  have := hJ.pre i _ p ht hpi
  have hd := hdone i _ ht
  simp only [pending, hd, List.tail_nil, ite_self, List.append_nil] at this
  exact this.symm

end Miros.Conc.Tsa
