import MirosModel.Conc.Sys
import MirosModel.Queue.Model
/-!
# `LockingDeque` + the active object's consumer loop, one primitive per step

Shared state: the deque (`collections.deque(maxlen=cap)`), the token queue
(`queue.Queue(maxsize=cap)`: `tok` = qsize, `unfinished` = unfinished_tasks), the run flag
(`activeobject_task_event`) and the fabric flag.  Threads: any number of posters, each with an
arbitrary finite list of fifo/lifo posts, and the consumer (`run_event` + `next_rtc`), whose
handlers may post themselves (`selfPosts`), executed inline by the consumer thread.

Program counters follow activeobject.py `LockingDeque.append/appendleft/__signal` (algorithm
`tokenAfter`, the current source) or the earlier `put; append; repair with !=` (algorithm
`legacy`), selected by the generated tag `Gen.ldAlg`.
-/
namespace Miros.Conc.LD
open Miros.Queue

inductive Alg | legacy | tokenAfter
deriving DecidableEq, Repr

inductive Kind | fifo | lifo
deriving DecidableEq, Repr

/-- poster program counter (within the current post) -/
inductive PPc
  -- tokenAfter: a0 len → a1 append | (b1 rotate → b2 append) ; lifo: l1 appendleft ; then s0 put_nowait,
  --             s1 qsize, s2 len, s3 put_nowait
  -- legacy    : f0 full → (f1 put → a1/l1) | (b1 → b2 | skip) ; c0 qsize, c1 len ; s1 qsize, s2 len, s3 put
  | a0 | a1 | b1 | b2 | l1 | s0 | s1 | s2 | s3 | f0 | f1 | c0 | c1
deriving DecidableEq, Repr

structure Poster where
  posts : List (Kind × Ev)   -- remaining posts; the head is the one in progress
  pc    : PPc
  q     : Nat                -- last value read from qsize()
deriving Repr

/-- consumer program counter -/
inductive CPc
  | t     -- while task_event.is_set()
  | w     -- queue.wait()            (blocks while tok = 0)
  | f     -- fabric_task_event.is_set()
  | n     -- len(self.queue) >= 1
  | p     -- self.queue.deque[0]     (is it the STOP event?)
  | r0    -- next_rtc: len(self.queue) != 0
  | r1    -- popleft + dispatch
  | h     -- inside dispatch: handler posts in progress (inline poster)
  | q1 | q2  -- queue_reflection() length reads (instrumented charts only)
  | d     -- queue.task_done()
  | fin   -- loop left
deriving DecidableEq, Repr

structure Config where
  alg  : Alg
  cap  : Nat
  refl : Bool                          -- instrumented: two extra len reads after each step
  selfPosts : Nat → List (Kind × Nat)  -- posts made by the handlers when an event with this sig is dispatched
  stopSig : Nat                        -- signal number standing for STOP_ACTIVE_OBJECT_SIGNAL

structure State where
  dq : List Ev
  tok : Nat
  unfinished : Nat
  posters : List Poster
  cpc : CPc
  inline : Poster                 -- the consumer's own posts (valid at pc `h`)
  nextSelf : Nat                  -- uid counter for the consumer's own events
  runFlag : Bool
  fabFlag : Bool
  dispatched : List Ev
  displaced : List Ev             -- events pushed out by overflow (or dropped by legacy appendleft)
  err : Bool                      -- task_done() called too many times
deriving Repr

def startPc (alg : Alg) (k : Kind) : PPc :=
  match alg, k with
  | .tokenAfter, .fifo => .a0
  | .tokenAfter, .lifo => .l1
  | .legacy, _ => .f0

/-- first pc of the post after the current one -/
def nextPost (alg : Alg) (p : Poster) : Poster :=
  match p.posts with
  | [] => p
  | _ :: rest =>
    match rest with
    | [] => { p with posts := [], pc := .a0 }
    | (k, _) :: _ => { p with posts := rest, pc := startPc alg k }

/-- `deque.append` on a bounded deque; returns the displaced element if any -/
def dqAppend (cap : Nat) (l : List Ev) (x : Ev) : List Ev × List Ev :=
  if l.length < cap then (l ++ [x], []) else ((l ++ [x]).drop 1, l.take 1)

def dqAppendLeft (cap : Nat) (l : List Ev) (x : Ev) : List Ev × List Ev :=
  if l.length < cap then (x :: l, []) else ((x :: l).take cap, (x :: l).drop cap)

/-- `deque.rotate(1)`: the last element moves to the front -/
def dqRotate (l : List Ev) : List Ev :=
  match l.getLast? with
  | none => []
  | some x => x :: l.dropLast

structure Shared where
  dq : List Ev
  tok : Nat
  unfinished : Nat
  displaced : List Ev

/-- one primitive of a poster program on the shared queue; `none` = blocked / finished.
Returns the new shared part, the poster, and the label of the primitive executed. -/
def posterStep (c : Config) (sh : Shared) (p : Poster) : Option (Shared × Poster × String) :=
  match p.posts with
  | [] => none
  | (k, e) :: _ =>
    match p.pc with
    | .a0 =>      -- len(self.deque) < maxlen ?
      if sh.dq.length < c.cap then some (sh, { p with pc := .a1 }, s!"dq.len={sh.dq.length}")
      else some (sh, { p with pc := .b1 }, s!"dq.len={sh.dq.length}")
    | .a1 =>
      let (l, out) := dqAppend c.cap sh.dq e
      let nxt := match c.alg with | .tokenAfter => PPc.s0 | .legacy => PPc.c0
      some ({ sh with dq := l, displaced := sh.displaced ++ out }, { p with pc := nxt }, "dq.append")
    | .b1 => some ({ sh with dq := dqRotate sh.dq }, { p with pc := .b2 }, "dq.rotate")
    | .b2 =>
      let (l, out) := dqAppend c.cap sh.dq e
      let nxt := match c.alg with | .tokenAfter => PPc.s0 | .legacy => PPc.c0
      some ({ sh with dq := l, displaced := sh.displaced ++ out }, { p with pc := nxt }, "dq.append")
    | .l1 =>
      let (l, out) := dqAppendLeft c.cap sh.dq e
      let nxt := match c.alg with | .tokenAfter => PPc.s0 | .legacy => PPc.c0
      some ({ sh with dq := l, displaced := sh.displaced ++ out }, { p with pc := nxt }, "dq.appendleft")
    | .s0 =>      -- put_nowait (tokenAfter): Full ends the post
      if sh.tok < c.cap then
        some ({ sh with tok := sh.tok + 1, unfinished := sh.unfinished + 1 }, { p with pc := .s1 }, "tok.put=ok")
      else some (sh, nextPost c.alg p, "tok.put=full")
    | .s1 => some (sh, { p with pc := .s2, q := sh.tok }, s!"tok.qsize={sh.tok}")
    | .s2 =>
      let l := sh.dq.length
      let again := match c.alg with | .tokenAfter => decide (p.q < l) | .legacy => decide (p.q ≠ l)
      if again then some (sh, { p with pc := .s3 }, s!"dq.len={l}")
      else some (sh, nextPost c.alg p, s!"dq.len={l}")
    | .s3 =>
      match c.alg with
      | .tokenAfter =>
        if sh.tok < c.cap then
          some ({ sh with tok := sh.tok + 1, unfinished := sh.unfinished + 1 }, { p with pc := .s1 }, "tok.put=ok")
        else some (sh, nextPost c.alg p, "tok.put=full")
      | .legacy =>   -- blocking put
        if sh.tok < c.cap then
          some ({ sh with tok := sh.tok + 1, unfinished := sh.unfinished + 1 }, { p with pc := .s1 }, "tok.put=ok")
        else none
    | .f0 =>      -- legacy: locking_queue.full()
      if sh.tok < c.cap then some (sh, { p with pc := .f1 }, "tok.full=0")
      else
        match k with
        | .fifo => some (sh, { p with pc := .b1 }, "tok.full=1")
        | .lifo => some ({ sh with displaced := sh.displaced ++ [e] }, { p with pc := .c0 }, "tok.full=1")
    | .f1 =>      -- legacy: blocking put, then the deque operation
      if sh.tok < c.cap then
        some ({ sh with tok := sh.tok + 1, unfinished := sh.unfinished + 1 },
              { p with pc := (match k with | .fifo => PPc.a1 | .lifo => PPc.l1) }, "tok.put=ok")
      else none
    | .c0 => some (sh, { p with pc := .c1, q := sh.tok }, s!"tok.qsize={sh.tok}")
    | .c1 =>
      let l := sh.dq.length
      if p.q < l then some (sh, { p with pc := .s1 }, s!"dq.len={l}")
      else some (sh, nextPost c.alg p, s!"dq.len={l}")

def shared (s : State) : Shared := ⟨s.dq, s.tok, s.unfinished, s.displaced⟩

def State.withShared (s : State) (sh : Shared) : State :=
  { s with dq := sh.dq, tok := sh.tok, unfinished := sh.unfinished, displaced := sh.displaced }

def mkInline (c : Config) (first : Nat) (l : List (Kind × Nat)) : Poster :=
  let posts := (List.range l.length).zip l |>.map fun (i, (k, sg)) => (k, (⟨sg, first + i⟩ : Ev))
  match posts with
  | [] => ⟨[], .a0, 0⟩
  | (k, _) :: _ => ⟨posts, startPc c.alg k, 0⟩

def afterDispatch (c : Config) : CPc := if c.refl then .q1 else .d

/-- one primitive of the consumer thread -/
def consumerStep (c : Config) (s : State) : Option (State × String) :=
  match s.cpc with
  | .fin => none
  | .t => if s.runFlag then some ({ s with cpc := .w }, "run.is_set=1")
          else some ({ s with cpc := .fin }, "run.is_set=0")
  | .w => if s.tok = 0 then none else some ({ s with tok := s.tok - 1, cpc := .f }, "tok.get")
  | .f => if s.fabFlag then some ({ s with cpc := .n }, "fab.is_set=1")
          else some ({ s with runFlag := false, cpc := .d }, "fab.is_set=0")
  | .n => if s.dq.length ≥ 1 then some ({ s with cpc := .p }, s!"dq.len={s.dq.length}")
          else some ({ s with cpc := .d }, s!"dq.len={s.dq.length}")
  | .p =>
    match s.dq with
    | [] => some ({ s with cpc := .d, err := true }, "dq.peek=IndexError")
    | e :: _ =>
      if e.sig = c.stopSig then some ({ s with runFlag := false, cpc := .d }, s!"dq.peek={e.sig}.{e.uid}")
      else some ({ s with cpc := .r0 }, s!"dq.peek={e.sig}.{e.uid}")
  | .r0 => if s.dq.length ≠ 0 then some ({ s with cpc := .r1 }, s!"dq.len={s.dq.length}")
           else some ({ s with cpc := afterDispatch c }, s!"dq.len={s.dq.length}")
  | .r1 =>
    match s.dq with
    | [] => some ({ s with cpc := .d, err := true }, "dq.popleft=IndexError")
    | e :: rest =>
      let prog := mkInline c s.nextSelf (c.selfPosts e.sig)
      let s1 := { s with dq := rest, dispatched := s.dispatched ++ [e], inline := prog,
                         nextSelf := s.nextSelf + prog.posts.length }
      if prog.posts = [] then some ({ s1 with cpc := afterDispatch c }, s!"dq.popleft={e.sig}.{e.uid}")
      else some ({ s1 with cpc := .h }, s!"dq.popleft={e.sig}.{e.uid}")
  | .h =>
    match posterStep c (shared s) s.inline with
    | none => none
    | some (sh, p, lbl) =>
      let s1 := (s.withShared sh)
      if p.posts = [] then some ({ s1 with inline := p, cpc := afterDispatch c }, lbl)
      else some ({ s1 with inline := p }, lbl)
  | .q1 => some ({ s with cpc := .q2 }, s!"dq.len={s.dq.length}")
  | .q2 => some ({ s with cpc := .d }, s!"dq.len={s.dq.length}")
  | .d =>
    if s.unfinished = 0 then some ({ s with cpc := .t, err := true }, "tok.task_done=ValueError")
    else some ({ s with unfinished := s.unfinished - 1, cpc := .t }, "tok.task_done")

/-- thread 0 is the consumer, thread `i+1` is poster `i` -/
def stepL (c : Config) (s : State) (tid : Nat) : Option (State × String) :=
  match tid with
  | 0 => consumerStep c s
  | i + 1 =>
    match s.posters[i]? with
    | none => none
    | some p =>
      match posterStep c (shared s) p with
      | none => none
      | some (sh, p', lbl) => some ({ (s.withShared sh) with posters := s.posters.set i p' }, lbl)

def sys (c : Config) : System State Nat where
  step := fun s t => (stepL c s t).map (·.1)

/-- initial state: consumer about to test the run flag, posters at their first post -/
def init (c : Config) (progs : List (List (Kind × Ev))) : State :=
  { dq := [], tok := 0, unfinished := 0,
    posters := progs.map fun pr =>
      match pr with
      | [] => ⟨[], .a0, 0⟩
      | (k, _) :: _ => ⟨pr, startPc c.alg k, 0⟩,
    cpc := .t, inline := ⟨[], .a0, 0⟩, nextSelf := 900000,
    runFlag := true, fabFlag := true, dispatched := [], displaced := [], err := false }

/-- all posters (and the consumer's inline program) have finished -/
def postersDone (s : State) : Prop := (∀ p ∈ s.posters, p.posts = []) ∧ s.inline.posts = []

end Miros.Conc.LD
