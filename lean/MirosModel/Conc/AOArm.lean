import MirosModel.Conc.Sys
/-!
# `stop()` racing handlers that arm timed sources

A coarser companion of `Miros.Conc.AO` (whose handlers arm nothing): one step = one critical section.

* the **consumer** thread (`run_event`): `while run_flag.is_set(): queue.wait(); if head is not STOP:
  next_rtc() else: run_flag.clear()`.  The handler of the signal `arm` arms a timed source
  (`post_fifo(Event(E), period, times, deferred)`): if fewer than `cap` sources are tracked, a source
  record (own run flag set, `times` remaining activations, `times = 0` = for ever) is created, its timer
  thread started and the record tracked in `posted_events_queue`; at capacity the call raises, the
  handler swallows the exception and nothing is armed;
  `queue.wait()` can also return on a surplus wake-up token while the deque is empty (step `w`): the
  consumer then does nothing and goes back to its loop test, where it may find the run flag cleared
  and end without ever seeing STOP;
* a **timer** thread per source: each activation, under the source's lock, if its flag is set: post the
  event (`tick i`), count the activation; when the count reaches `times` (> 0): clear its own flag (the
  record stays in `posted_events_queue` and keeps counting against the capacity until it is cancelled);
* the **client** `K`: posts `nPosts` `arm` events, then calls `stop()`: clear the run flag (`stopClear`),
  append STOP (`stopAppend`; two separate scheduling points: a timer thread can post in between),
  join the consumer thread, take a snapshot of `posted_events_queue`, and for every record in it call
  `cancel_events(record)`: every tracked source with the same signal name gets its flag cleared and is
  un-tracked (one step).  With `snapshotAfterJoin = false` the snapshot is the one taken before the
  run flag was cleared.

Ghost fields: `posts`, `postsAfterStop` (per source), `snapEarly`, `stopReturned`, `stepsAfterStop`.
-/
namespace Miros.Conc.AOArm

structure Tags where
  snapshotAfterJoin : Bool
deriving DecidableEq, Repr

inductive Ev
  | arm
  | stop
  | tick (src : Nat)
deriving DecidableEq, Repr

structure Src where
  flag : Bool             -- the source's own run flag (task_run_event)
  remaining : Nat         -- activations left (meaningless when `forever`)
  forever : Bool          -- times = 0
  tracked : Bool          -- still in posted_events_queue
  name : Nat              -- signal name of the posted event (`cancel_events` matches on it)
  posts : Nat             -- ghost: number of posts made
  postsAfterStop : Nat    -- ghost: number of posts made after stop() returned
deriving DecidableEq, Repr

/-- consumer: about to test the run flag / blocked in `queue.wait()` then one RTC step / ended -/
inductive CPc
  | check
  | wait
  | fin
deriving DecidableEq, Repr

inductive KPc
  | post (n : Nat)
  | stopClear
  | stopAppend              -- `run_flag.clear()` done, `queue.append(STOP)` still to do
  | join
  | cancel (snap : List Nat)
  | done
deriving DecidableEq, Repr

structure State where
  q : List Ev
  runFlag : Bool
  c : CPc
  k : KPc
  srcs : List Src
  arms : List (Nat × Nat)  -- (`times`, signal name) of the sources still to be armed by ARM handlers
  cap : Nat
  snapEarly : List Nat
  stopReturned : Bool
  stepsAfterStop : Nat
deriving DecidableEq, Repr

/-- client K / consumer / timer thread of source `i` / spurious wake-up of the consumer (`queue.wait()`
returns on a surplus wake-up token while the deque is empty) -/
inductive Step
  | k
  | c
  | t (i : Nat)
  | w
deriving DecidableEq, Repr

/-- number of tracked sources (`len(posted_events_queue)`) -/
def trackedCount (l : List Src) : Nat := (l.filter (·.tracked)).length

def isTracked (l : List Src) (i : Nat) : Bool :=
  match l[i]? with
  | some x => x.tracked
  | none => false

/-- indices of the tracked sources (`list(posted_events_queue)`) -/
def trackedIdx (l : List Src) : List Nat := (List.range l.length).filter (isTracked l)

/-- `cancel_events(event)` for the snapshotted record `i`: every tracked source with the same signal name
gets its flag cleared and is un-tracked (no-op if record `i` does not exist) -/
def cancelSrc (l : List Src) (i : Nat) : List Src :=
  match l[i]? with
  | none => l
  | some y =>
    l.map fun x => if x.tracked && x.name = y.name then { x with flag := false, tracked := false } else x

def newSrc (a : Nat × Nat) : Src :=
  { flag := true, remaining := a.1, forever := decide (a.1 = 0), tracked := true, name := a.2,
    posts := 0, postsAfterStop := 0 }

def kStep (g : Tags) (s : State) : Option State :=
  match s.k with
  | .post (n + 1) => some { s with q := s.q ++ [.arm], k := .post n }
  | .post 0 => some { s with k := .stopClear }
  | .stopClear =>
    some { s with snapEarly := trackedIdx s.srcs, runFlag := false, k := .stopAppend }
  | .stopAppend => some { s with q := s.q ++ [.stop], k := .join }
  | .join =>
    if s.c = .fin then
      some { s with k := .cancel (if g.snapshotAfterJoin then trackedIdx s.srcs else s.snapEarly) }
    else none
  | .cancel (i :: r) => some { s with srcs := cancelSrc s.srcs i, k := .cancel r }
  | .cancel [] => some { s with stopReturned := true, k := .done }
  | .done => none

/-- the run-to-completion step counter after a pop -/
def bump (s : State) : Nat := if s.stopReturned then s.stepsAfterStop + 1 else s.stepsAfterStop

def cStep (s : State) : Option State :=
  match s.c with
  | .check => if s.runFlag then some { s with c := .wait } else some { s with c := .fin }
  | .wait =>
    match s.q with
    | [] => none
    | .stop :: _ => some { s with runFlag := false, c := .check }
    | .arm :: rest =>
      match s.arms with
      | [] => some { s with q := rest, c := .check, stepsAfterStop := bump s }
      | a :: as =>
        if trackedCount s.srcs < s.cap then
          some { s with q := rest, srcs := s.srcs ++ [newSrc a], arms := as, c := .check,
                        stepsAfterStop := bump s }
        else
          some { s with q := rest, arms := as, c := .check, stepsAfterStop := bump s }
    | .tick _ :: rest => some { s with q := rest, c := .check, stepsAfterStop := bump s }
  | .fin => none

/-- one activation of a source whose flag is set -/
def fire (stopped : Bool) (x : Src) : Src :=
  let x1 := { x with posts := x.posts + 1,
                     postsAfterStop := if stopped then x.postsAfterStop + 1 else x.postsAfterStop }
  if x1.forever then x1
  else if x1.remaining - 1 = 0 then { x1 with remaining := x1.remaining - 1, flag := false }
  else { x1 with remaining := x1.remaining - 1 }

def tStep (s : State) (i : Nat) : Option State :=
  match s.srcs[i]? with
  | none => none
  | some x =>
    if x.flag then
      some { s with q := s.q ++ [.tick i], srcs := s.srcs.set i (fire s.stopReturned x) }
    else none

/-- surplus wake-up: enabled iff the consumer is waiting and the queue is empty; it does nothing and goes
back to its loop test -/
def wStep (s : State) : Option State :=
  match s.c, s.q with
  | .wait, [] => some { s with c := .check }
  | _, _ => none

def step (g : Tags) (s : State) : Step → Option State
  | .k => kStep g s
  | .c => cStep s
  | .t i => tStep s i
  | .w => wStep s

def sys (g : Tags) : System State Step where
  step := step g

def init (cap : Nat) (arms : List (Nat × Nat)) (nPosts : Nat) : State :=
  { q := [], runFlag := true, c := .check, k := .post nPosts, srcs := [], arms := arms, cap := cap,
    snapEarly := [], stopReturned := false, stepsAfterStop := 0 }

/-- number of schedule entries that were skipped because the chosen thread was blocked -/
def blockedCount (g : Tags) : State → List Step → Nat
  | _, [] => 0
  | s, t :: ts =>
    match step g s t with
    | some s' => blockedCount g s' ts
    | none => blockedCount g s ts + 1

/-! ### the fair schedule that completes `stop()` -/

/-- `stop()` is past clearing the run flag and appending STOP -/
def KPc.stopping : KPc → Bool
  | .join => true
  | .cancel _ => true
  | .done => true
  | _ => false

/-- client steps needed to get `stop()` past `run_flag.clear(); queue.append(STOP)` -/
def kLead : KPc → Nat
  | .post n => n + 3
  | .stopClear => 2
  | .stopAppend => 1
  | _ => 0

def snapLen : KPc → Nat
  | .cancel snap => snap.length
  | _ => 0

/-- let the client run up to `join`, let the consumer finish its current step and see the cleared flag,
then let the client finish `stop()` (timer threads are not scheduled at all; entries that find their
thread blocked are skipped by `run`) -/
def fairSched (s : State) : List Step :=
  List.replicate (kLead s.k) .k ++ [.c, .c] ++ List.replicate (s.srcs.length + 3 + snapLen s.k) .k

/-- length of `fairSched` -/
def stopMeasure (s : State) : Nat := kLead s.k + 2 + (s.srcs.length + 3 + snapLen s.k)

/-! ### progress under any round-robin-fair schedule -/

def cWork : CPc → Nat
  | .wait => 2
  | .check => 1
  | .fin => 0

/-- an upper bound on the number of client / consumer steps `stop()` still needs; no step of any thread
increases it, timer steps leave it unchanged -/
def rank (s : State) : Nat :=
  match s.k with
  | .post n => n + 6 + (s.srcs.length + s.arms.length + 2)
  | .stopClear => 5 + (s.srcs.length + s.arms.length + 2)
  | .stopAppend => 4 + (s.srcs.length + s.arms.length + 2)
  | .join => 1 + cWork s.c + (s.srcs.length + s.arms.length + 2)
  | .cancel snap => snap.length + 1
  | .done => 0

/-- the thread whose next step brings `stop()` closer to returning: the client, except while it is
blocked in `join`, when it is the consumer -/
def helper (s : State) : Step :=
  match s.k with
  | .join => if s.c = .fin then .k else .c
  | _ => .k

end Miros.Conc.AOArm
