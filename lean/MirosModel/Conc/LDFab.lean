import MirosModel.Conc.LockingDeque
/-!
# An active object woken after the fabric was stopped (`LDFab`)

A wrapper transition system over `LD.State`: every thread of the `LockingDeque` / consumer model
(`LD.stepL`, thread `0` = the consumer `run_event`, thread `i+1` = poster `i`) plus one more
thread, `fabstop`, whose only step is the first statement of `ActiveFabric().stop()`: clear the
fabric run event (`fabFlag`).  Nothing ever sets the flag again.

The file also contains the (executable) definitions used by the lemmas: the predicate `pastTest`,
the predicate `wakes` ("the next wake-up of the consumer is certain") and the termination measure
`stopMu` of a stopped system.
-/
namespace Miros.Conc.LDFab
open Miros.Queue Miros.Conc.LD

/-- thread ids: the threads of `LD` and the thread that calls `ActiveFabric().stop()` -/
inductive Tid
  | ld (t : Nat)
  | fabstop
deriving DecidableEq, Repr

/-- one step: a step of the `LockingDeque` model, or the clearing of the fabric flag -/
def step (c : Config) (s : State) : Tid → Option (State × String)
  | .ld t => stepL c s t
  | .fabstop => if s.fabFlag then some ({ s with fabFlag := false }, "fabstop") else none

def sys (c : Config) : System State Tid where
  step := fun s t => (step c s t).map (·.1)

/-- run a schedule; disabled steps are skipped -/
def run (c : Config) (s : State) (sch : List Tid) : State := (sys c).run s sch

/-- the initial state is the one of `LD` (fabric flag up) -/
def init (c : Config) (progs : List (List (Kind × Ev))) : State := LD.init c progs

/-- the consumer has passed the fabric test of its current wake-up (the test succeeded) and has
not yet handed the event to the run-to-completion step: the program counters from the successful
`.f` test up to and including the `popleft + dispatch` primitive `.r1`.  (From `.h` on the event of
this wake-up is already in `dispatched`.) -/
def pastTest (s : State) : Bool :=
  match s.cpc with
  | .n | .p | .r0 | .r1 => true
  | _ => false

/-- the program counters between a successful `.f` test and the end of that iteration, the
acknowledgement `.d` excluded (it is also reached from a failed test) -/
def inIteration (s : State) : Bool :=
  match s.cpc with
  | .n | .p | .r0 | .r1 | .h | .q1 | .q2 => true
  | _ => false

/-- the consumer's next wake-up is certain (or it has ended): a token is available, or the consumer
holds one and is about to test the fabric flag, or its own run flag is already down and it is not
waiting -/
def wakes (s : State) : Bool :=
  decide (0 < s.tok) || s.cpc == .f || (!s.runFlag && s.cpc != .w) || s.cpc == .fin

/-- the program counters of a post before its first (unconditional) `put_nowait` of a token -/
def prePut : PPc → Bool
  | .a0 | .a1 | .b1 | .b2 | .l1 | .s0 => true
  | _ => false

/-- poster `p` is inside a post and has not yet put the token for it -/
def aboutToPut (p : Poster) : Bool := !p.posts.isEmpty && prePut p.pc

/-- number of own steps after which a poster that is `aboutToPut` has made its `put_nowait` -/
def putRank : PPc → Nat
  | .a0 => 4 | .b1 => 3 | .a1 => 2 | .b2 => 2 | .l1 => 2 | .s0 => 1
  | _ => 0

/-! ### the termination measure of a stopped system -/

/-- weight of a poster program counter (algorithm `tokenAfter`) -/
def pw : PPc → Nat
  | .a0 => 7 | .b1 => 6 | .a1 => 5 | .b2 => 5 | .l1 => 5 | .s0 => 4 | .s1 => 3 | .s2 => 2 | .s3 => 1
  | _ => 0

/-- work left in a posting program, not counting the token top-up loop (paid for by `3·(cap − tok)`) -/
def pwork (p : Poster) : Nat :=
  match p.posts with
  | [] => 0
  | _ :: rest => 8 * rest.length + pw p.pc

/-- the posting work a handler can cause when this event is dispatched -/
def evCost (c : Config) (e : Ev) : Nat := 8 * (c.selfPosts e.sig).length

/-- the events that can still reach the head of the deque: those in it and those of the posters -/
def pendEvs (s : State) : List Ev := s.dq ++ s.posters.flatMap (fun p => p.posts.map (·.2))

def maxCost (c : Config) (l : List Ev) : Nat := l.foldr (fun e m => max (evCost c e) m) 0

/-- bound on the posting work of the step in progress -/
def selfBound (c : Config) (s : State) : Nat := maxCost c (pendEvs s)

/-- weight of the acknowledgement `d`: with the run flag up one more pass through the loop follows -/
def dW (runFlag : Bool) : Nat := if runFlag then 9 else 2

/-- weight of the consumer, fabric flag down: the number of steps it can still take (an upper bound;
`t → w → f → d → t → fin` at most once more), plus the posting work of the step in progress -/
def cw (c : Config) (s : State) : Nat :=
  match s.cpc with
  | .fin => 0
  | .f => 3
  | .w => 7
  | .t => dW s.runFlag - 1
  | .d => dW s.runFlag
  | .q2 => dW s.runFlag + 1
  | .q1 => dW s.runFlag + 2
  | .h => dW s.runFlag + 3 + pwork s.inline
  | .r1 => dW s.runFlag + 4 + selfBound c s
  | .r0 => dW s.runFlag + 5 + selfBound c s
  | .p => dW s.runFlag + 6 + selfBound c s
  | .n => dW s.runFlag + 7 + selfBound c s

/-- the termination measure of a system whose fabric flag is down -/
def stopMu (c : Config) (s : State) : Nat :=
  (s.posters.map pwork).sum + cw c s + 3 * (c.cap - s.tok)

end Miros.Conc.LDFab
