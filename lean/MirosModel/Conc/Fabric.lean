import MirosModel.Conc.Sys
/-!
# The active fabric (`ActiveFabricSource`, activeobject.py 108-424)

Granularity: one step per `queue.Queue` primitive (put / get / task_done) and per `Thread.join`,
plus one "call" step at the start of each client API call (which runs the call's code up to its
first primitive).  Dictionary / list / Event / Thread.start / is_alive operations are atomic with
the step that reaches them (they never block).

* registry: signal ↦ list of subscriber queue ids, per kind (fifo / lifo);
* the two fabric queues are priority queues of `FE`; `get` takes the minimum for the modelled
  `__lt__` (tag `FeOrder`);
* a delivery thread's `get` step also delivers the event to every queue registered for its
  signal (subscriber queues are ordinary deques, or an active object's queue for which the lifo
  thread uses `appendleft` — tag `LifoDeliver`).
-/
namespace Miros.Conc.Fab

inductive FeOrder | prioOnly | prioSeq
deriving DecidableEq, Repr
inductive LifoDeliver | append | appendleftForAO
deriving DecidableEq, Repr

structure Tags where
  feOrder : FeOrder
  lifoDeliver : LifoDeliver
  startKeepsHandles : Bool      -- start() on a running fabric keeps fifo_thread / lifo_thread
  clearInPlace : Bool           -- clear() empties queues and dictionaries in place
  subscribeKeepsOthers : Bool   -- an already subscribed queue is left alone (no index()/overwrite)
deriving DecidableEq, Repr

inductive Kind | fifo | lifo
deriving DecidableEq, Repr

/-- a published event object -/
structure PEv where
  sig : Nat
  uid : Nat
deriving DecidableEq, Repr

/-- `FabricEvent` -/
structure FE where
  prio : Nat
  seq  : Nat
  ev   : Option PEv       -- none = the STOP_FABRIC_SIGNAL event
deriving DecidableEq, Repr

/-- a subscriber queue: identity, "is an active object's LockingDeque", contents (front first) -/
structure SubQ where
  id : Nat
  isAO : Bool
  items : List PEv
deriving DecidableEq, Repr

abbrev Registry := List (Nat × List Nat)    -- signal ↦ queue ids in subscription order

def Registry.get (r : Registry) (sig : Nat) : Option (List Nat) :=
  (r.find? (fun x => x.1 = sig)).map (·.2)

/-- `_subscribe` (repaired: an already subscribed queue is left alone) -/
def Registry.subscribe (r : Registry) (sig q : Nat) : Registry :=
  match r.get sig with
  | none => r ++ [(sig, [q])]
  | some qs => if qs.contains q then r else r.map (fun x => if x.1 = sig then (x.1, x.2 ++ [q]) else x)

/-- delivery-thread program counter -/
inductive TPc | b | g | d | fin
deriving DecidableEq, Repr

structure Thr where
  pc : TPc
  gen : Nat            -- which generation of queues/registries the thread was created with
deriving DecidableEq, Repr

/-- client API calls -/
inductive Call
  | subscribe (q sig : Nat) (k : Kind)
  | publish (sig uid prio : Nat)
  | start | stop | clear | isAlive
deriving DecidableEq, Repr

/-- client program counter inside the current call -/
inductive CPc
  | call                 -- about to enter the call
  | putL (fe : FE) (sig uid prio : Nat)  -- publish: pending lifo_fabric_queue.put
  | putF (fe : FE)       -- publish: pending fifo_fabric_queue.put
  | stopPutF (fe : FE) | stopJoinF | stopPutL (fe : FE) | stopJoinL
  | clrGetF | clrDoneF | clrGetL | clrDoneL
deriving DecidableEq, Repr

structure Client where
  calls : List Call
  pc : CPc
  results : List Bool      -- values returned by isAlive calls, in order
deriving DecidableEq, Repr

structure State where
  regF : Registry
  regL : Registry
  fq : List FE
  lq : List FE
  unfF : Nat
  unfL : Nat
  flag : Bool
  nextSeq : Nat
  thrF : Option Thr        -- fifo_thread handle
  thrL : Option Thr
  zombies : List (Kind × Thr)   -- delivery threads no handle refers to any more
  subs : List SubQ
  clients : List Client
  err : Bool               -- an exception escaped (ValueError from task_done, assertion of stop)
deriving DecidableEq, Repr

def feLt (t : Tags) (a b : FE) : Bool :=
  match t.feOrder with
  | .prioOnly => a.prio < b.prio
  | .prioSeq => a.prio < b.prio || (a.prio = b.prio && a.seq < b.seq)

/-- the element `PriorityQueue.get` returns: a minimum (first one found for `prioOnly`) -/
def minFE (t : Tags) : List FE → Option FE
  | [] => none
  | x :: xs =>
    match minFE t xs with
    | none => some x
    | some m => if feLt t m x then some m else some x

def deliverTo (t : Tags) (k : Kind) (e : PEv) (q : SubQ) : SubQ :=
  match k, t.lifoDeliver with
  | .lifo, .appendleftForAO => if q.isAO then { q with items := e :: q.items } else { q with items := q.items ++ [e] }
  | _, _ => { q with items := q.items ++ [e] }

/-- append the event to every queue registered for its signal -/
def deliver (t : Tags) (k : Kind) (reg : Registry) (e : PEv) (subs : List SubQ) : List SubQ :=
  match reg.get e.sig with
  | none => subs
  | some qs => qs.foldl (fun acc qid => acc.map (fun q => if q.id = qid then deliverTo t k e q else q)) subs

def alive (o : Option Thr) : Bool :=
  match o with
  | some th => th.pc ≠ .fin
  | none => false

/-- one step of a delivery thread of kind `k` whose state is `th`; returns new thread state + global state -/
def thrStep (t : Tags) (k : Kind) (s : State) (th : Thr) : Option (Thr × State × String) :=
  match th.pc with
  | .fin => none
  | .b => if s.flag then some ({ th with pc := .g }, s, "begin") else some ({ th with pc := .fin }, s, "begin")
  | .g =>
    let q := match k with | .fifo => s.fq | .lifo => s.lq
    match minFE t q with
    | none => none
    | some fe =>
      let q' := q.erase fe
      let reg := match k with | .fifo => s.regF | .lifo => s.regL
      let subs' := match fe.ev with
        | some e => deliver t k reg e s.subs
        | none => s.subs
      let s' := match k with
        | .fifo => { s with fq := q', subs := subs' }
        | .lifo => { s with lq := q', subs := subs' }
      some ({ th with pc := .d }, s', s!"get={fe.prio}.{fe.seq}")
  | .d =>
    let unf := match k with | .fifo => s.unfF | .lifo => s.unfL
    if unf = 0 then some ({ th with pc := .fin }, { s with err := true }, "task_done=ValueError")
    else
      let s' := match k with
        | .fifo => { s with unfF := s.unfF - 1 }
        | .lifo => { s with unfL := s.unfL - 1 }
      if s.flag then some ({ th with pc := .g }, s', "task_done")
      else some ({ th with pc := .fin }, s', "task_done")

def finishCall (c : Client) : Client :=
  { c with calls := c.calls.tail, pc := .call }

/-- `start()` (167-203) -/
def doStart (t : Tags) (s : State) : State :=
  let s1 := { s with flag := true }
  let mk (o : Option Thr) (k : Kind) (st : State) : Option Thr × State :=
    if alive o then
      (if t.startKeepsHandles then o else none,
       if t.startKeepsHandles then st else
         match o with | some th => { st with zombies := st.zombies ++ [(k, th)] } | none => st)
    else (some ⟨.b, 0⟩, st)
  let (f, s2) := mk s1.thrF .fifo s1
  let (l, s3) := mk s2.thrL .lifo s2
  { s3 with thrF := f, thrL := l }

/-- one step of client `i` -/
def clientStep (t : Tags) (s : State) (c : Client) : Option (Client × State × String) :=
  match c.calls with
  | [] => none
  | call :: _ =>
    match c.pc, call with
    | .call, .subscribe q sig k =>
      let s' := match k with
        | .fifo => { s with regF := s.regF.subscribe sig q }
        | .lifo => { s with regL := s.regL.subscribe sig q }
      some (finishCall c, s', "call.subscribe")
    | .call, .publish sig uid prio =>
      let fe : FE := ⟨prio, s.nextSeq, some ⟨sig, uid⟩⟩
      some ({ c with pc := .putL fe sig uid prio }, { s with nextSeq := s.nextSeq + 1 }, "call.publish")
    | .putL fe sig uid prio, _ =>
      let fe2 : FE := ⟨prio, s.nextSeq, some ⟨sig, uid⟩⟩
      some ({ c with pc := .putF fe2 }, { s with lq := s.lq ++ [fe], unfL := s.unfL + 1, nextSeq := s.nextSeq + 1 }, "lq.put")
    | .putF fe, _ =>
      some (finishCall c, { s with fq := s.fq ++ [fe], unfF := s.unfF + 1 }, "fq.put")
    | .call, .start => some (finishCall c, doStart t s, "call.start")
    | .call, .isAlive =>
      let r := alive s.thrF && alive s.thrL
      some ({ finishCall c with results := c.results ++ [r] }, s, s!"call.is_alive={r}")
    | .call, .stop =>
      let s1 := { s with flag := false }
      if alive s1.thrF then
        some ({ c with pc := .stopPutF ⟨1, s1.nextSeq, none⟩ }, { s1 with nextSeq := s1.nextSeq + 1 }, "call.stop")
      else if alive s1.thrL then
        some ({ c with pc := .stopPutL ⟨1, s1.nextSeq, none⟩ }, { s1 with nextSeq := s1.nextSeq + 1 }, "call.stop")
      else some (finishCall c, s1, "call.stop")
    | .stopPutF fe, _ => some ({ c with pc := .stopJoinF }, { s with fq := s.fq ++ [fe], unfF := s.unfF + 1 }, "fq.put")
    | .stopJoinF, _ =>
      if alive s.thrF then none
      else if alive s.thrL then
        some ({ c with pc := .stopPutL ⟨1, s.nextSeq, none⟩ }, { s with nextSeq := s.nextSeq + 1 }, "thread.join")
      else some (finishCall c, s, "thread.join")
    | .stopPutL fe, _ => some ({ c with pc := .stopJoinL }, { s with lq := s.lq ++ [fe], unfL := s.unfL + 1 }, "lq.put")
    | .stopJoinL, _ => if alive s.thrL then none else some (finishCall c, s, "thread.join")
    | .call, .clear =>
      if t.clearInPlace then some ({ c with pc := .clrGetF }, s, "call.clear")
      else
        -- new queue and registry objects: running threads keep the old ones (not modelled further)
        some (finishCall c, { s with fq := [], lq := [], unfF := 0, unfL := 0, regF := [], regL := [], err := s.err || alive s.thrF || alive s.thrL }, "call.clear")
    | .clrGetF, _ =>
      match minFE t s.fq with
      | some fe => some ({ c with pc := .clrDoneF }, { s with fq := s.fq.erase fe }, "fq.get=ok")
      | none => some ({ c with pc := .clrGetL }, s, "fq.get=empty")
    | .clrDoneF, _ =>
      if s.unfF = 0 then some (finishCall c, { s with err := true }, "fq.task_done=ValueError")
      else some ({ c with pc := .clrGetF }, { s with unfF := s.unfF - 1 }, "fq.task_done")
    | .clrGetL, _ =>
      match minFE t s.lq with
      | some fe => some ({ c with pc := .clrDoneL }, { s with lq := s.lq.erase fe }, "lq.get=ok")
      | none => some (finishCall c, { s with regF := [], regL := [] }, "lq.get=empty")
    | .clrDoneL, _ =>
      if s.unfL = 0 then some (finishCall c, { s with err := true }, "lq.task_done=ValueError")
      else some ({ c with pc := .clrGetL }, { s with unfL := s.unfL - 1 }, "lq.task_done")

/-- thread ids: 0 = fifo delivery thread (the handle's), 1 = lifo, 2+i = client i, 100+j = zombie j -/
def stepL (t : Tags) (s : State) (tid : Nat) : Option (State × String) :=
  if tid = 0 then
    match s.thrF with
    | none => none
    | some th =>
      match thrStep t .fifo s th with
      | none => none
      | some (th', s', lbl) => some ({ s' with thrF := some th' }, lbl)
  else if tid = 1 then
    match s.thrL with
    | none => none
    | some th =>
      match thrStep t .lifo s th with
      | none => none
      | some (th', s', lbl) => some ({ s' with thrL := some th' }, lbl)
  else if tid ≥ 100 then
    match s.zombies[tid - 100]? with
    | none => none
    | some (k, th) =>
      match thrStep t k s th with
      | none => none
      | some (th', s', lbl) => some ({ s' with zombies := s'.zombies.set (tid - 100) (k, th') }, lbl)
  else
    match s.clients[tid - 2]? with
    | none => none
    | some c =>
      match clientStep t s c with
      | none => none
      | some (c', s', lbl) => some ({ s' with clients := s'.clients.set (tid - 2) c' }, lbl)

def sys (t : Tags) : System State Nat where
  step := fun s tid => (stepL t s tid).map (·.1)

def init (subs : List SubQ) (progs : List (List Call)) : State :=
  { regF := [], regL := [], fq := [], lq := [], unfF := 0, unfL := 0, flag := false, nextSeq := 0,
    thrF := none, thrL := none, zombies := [], subs := subs,
    clients := progs.map fun p => ⟨p, .call, []⟩, err := false }

/-- number of live delivery threads of a kind (handle + zombies) -/
def liveCount (s : State) (k : Kind) : Nat :=
  (if alive (match k with | .fifo => s.thrF | .lifo => s.thrL) then 1 else 0) +
  (s.zombies.filter fun z => z.1 = k && z.2.pc ≠ .fin).length

end Miros.Conc.Fab
