import MirosModel.Conc.AOCancel
/-!
# `stop()`: the consumer's end, the run flag, the final cancellation of every tracked source
-/
namespace Miros.Conc.AO
open Miros.Queue Miros.Conc.LD

theorem run_cons_some {g : Tags} {c : LD.Config} {s s' : State} {t : Nat} {lbl : String} (ts : List Nat)
    (h : stepL g c s t = some (s', lbl)) : (sys g c).run s (t :: ts) = (sys g c).run s' ts := by
  simp [System.run, sys, h]

theorem run_append {σ τ : Type} (S : System σ τ) (s : σ) (a b : List τ) : S.run s (a ++ b) = S.run (S.run s a) b := by
  induction a generalizing s with
  | nil => rfl
  | cons t ts ih =>
    simp only [List.cons_append, System.run]
    cases S.step s t <;> simp [ih]

/-! ### what a step does to the `LockingDeque` part -/

/-- the three ways a timer or client step can change `ld` -/
def LdChange (ld ld' : LD.State) : Prop :=
  ld' = ld ∨ ld' = { ld with runFlag := false } ∨ ∃ sh, ld' = ld.withShared sh

theorem LdChange.fields {ld ld' : LD.State} (h : LdChange ld ld') :
    ld'.cpc = ld.cpc ∧ ld'.dispatched = ld.dispatched ∧ ld'.fabFlag = ld.fabFlag ∧ ld'.posters = ld.posters ∧
    (ld.runFlag = false → ld'.runFlag = false) := by
  rcases h with rfl | rfl | ⟨sh, rfl⟩ <;> simp [State.withShared]

theorem CStep.ldChange {g : Tags} {c : LD.Config} {s : State} {cl cl' : Client} {ld' : LD.State}
    {timers' : List Timer} {order' : List Nat} {lbl : String} (h : CStep g c s cl cl' ld' timers' order' lbl) :
    LdChange s.ld ld' := by
  cases h with
  | stop => right; left; rfl
  | stopPost call rest sh => right; right; exact ⟨sh, rfl⟩
  | _ => left; rfl

theorem TStep.ldChange {g : Tags} {c : LD.Config} {s : State} {tm tm' : Timer} {ld' : LD.State} {lbl : String}
    (h : TStep g c s tm tm' ld' lbl) : LdChange s.ld ld' := by
  cases h with
  | pMid _ sh => right; right; exact ⟨sh, rfl⟩
  | pEnd _ sh => right; right; exact ⟨sh, rfl⟩
  | _ => left; rfl

/-- a finished consumer thread has no step -/
theorem consumerStep_fin (c : LD.Config) (ld : LD.State) (h : ld.cpc = .fin) : consumerStep c ld = none := by
  unfold consumerStep; rw [h]

/-- the consumer never sets the run flag -/
theorem consumerStep_runFlag {c : LD.Config} {ld ld' : LD.State} {lbl : String}
    (h : consumerStep c ld = some (ld', lbl)) (hf : ld.runFlag = false) : ld'.runFlag = false := by
  unfold consumerStep at h
  split at h
  all_goals (try simp at h)
  all_goals (repeat' split at h)
  all_goals (try simp at h)
  all_goals
    first
    | done
    | (obtain ⟨rfl, _⟩ := h; simp [State.withShared, hf])
    | (obtain ⟨_, rfl, _⟩ := h; simp [hf])
    | simp_all

/-- steps of the plain poster threads and of the consumer, seen from the flags -/
theorem ldStep_fields {c : LD.Config} {ld ld' : LD.State} {tid : Nat} {lbl : String}
    (h : LD.stepL c ld tid = some (ld', lbl)) :
    (ld.cpc = .fin → ld'.cpc = .fin ∧ ld'.dispatched = ld.dispatched) ∧ (ld.runFlag = false → ld'.runFlag = false) := by
  cases tid with
  | zero =>
    simp only [LD.stepL] at h
    refine ⟨fun hf => ?_, fun hf => consumerStep_runFlag h hf⟩
    rw [consumerStep_fin c ld hf] at h; simp at h
  | succ i =>
    simp only [LD.stepL] at h
    split at h
    · simp at h
    · split at h
      · simp at h
      · simp only [Option.some.injEq, Prod.mk.injEq] at h
        obtain ⟨rfl, _⟩ := h
        simp [State.withShared]

/-- **every step**: a finished consumer stays finished and dispatches nothing more; a cleared run flag stays
cleared; only the consumer thread (thread 0) can change the fabric flag -/
theorem step_ld_fields {g : Tags} {c : LD.Config} (hl : g.cancelLocked = true) (hb : g.checkBeforeStart = true)
    {s s' : State} {tid : Nat} {lbl : String} (h : stepL g c s tid = some (s', lbl)) :
    (s.ld.cpc = .fin → s'.ld.cpc = .fin ∧ s'.ld.dispatched = s.ld.dispatched) ∧
    (s.ld.runFlag = false → s'.ld.runFlag = false) ∧
    (200 ≤ tid → s'.ld.fabFlag = s.ld.fabFlag ∧ s'.ld.cpc = s.ld.cpc ∧ s'.ld.dispatched = s.ld.dispatched) := by
  rcases stepL_cases hl hb h with ⟨rfl, m, rfl, hm⟩ | ⟨j, cl, cl', ld', timers', order', rfl, hj, hcl, hs, rfl⟩ |
      ⟨i, tm, tm', ld', rfl, hi100, htm, hst, hs, rfl⟩ | ⟨hlt, ld', hld, rfl⟩
  · simp
  · have := hs.ldChange.fields
    exact ⟨fun hf => ⟨by rw [this.1]; exact hf, this.2.1⟩, this.2.2.2.2, fun _ => ⟨this.2.2.1, this.1, this.2.1⟩⟩
  · have := hs.ldChange.fields
    exact ⟨fun hf => ⟨by rw [this.1]; exact hf, this.2.1⟩, this.2.2.2.2, fun _ => ⟨this.2.2.1, this.1, this.2.1⟩⟩
  · have := ldStep_fields hld
    exact ⟨this.1, this.2, fun h2 => by omega⟩

/-! ### the selection of `stop()` is everything tracked -/

/-- the loop of `stop()` over the names of the tracked entries -/
def stopFold (s : State) (names : List Nat) (acc : List Nat × List Nat) : List Nat × List Nat :=
  names.foldl (fun (acc : List Nat × List Nat) nm =>
    let (m, o) := scan (timerHas s fun tm => tm.name = nm) false acc.2.length acc.2 []
    (acc.1 ++ m, o)) acc

theorem stopSel_eq (s : State) :
    stopSel s = stopFold s (s.order.filterMap fun i => (s.timers[i]?).map (·.name)) ([], s.order) := rfl

theorem stopFold_cons (s : State) (nm : Nat) (names : List Nat) (acc : List Nat × List Nat) :
    stopFold s (nm :: names) acc =
      stopFold s names (acc.1 ++ (acc.2.filter (timerHas s fun tm => tm.name = nm)).reverse,
                        acc.2.filter fun x => !(timerHas s fun tm => tm.name = nm) x) := by
  simp only [stopFold, List.foldl_cons, scan_all]

theorem stopFold_rest (s : State) (names : List Nat) (acc : List Nat × List Nat) :
    ∀ i ∈ (stopFold s names acc).2, i ∈ acc.2 ∧ ∀ nm ∈ names, timerHas s (fun tm => tm.name = nm) i = false := by
  induction names generalizing acc with
  | nil => intro i hi; exact ⟨hi, by simp⟩
  | cons nm names ih =>
    intro i hi
    rw [stopFold_cons] at hi
    have := ih _ i hi
    simp only [List.mem_filter, Bool.not_eq_true'] at this
    refine ⟨this.1.1, ?_⟩
    intro nm' hnm'
    simp only [List.mem_cons] at hnm'
    rcases hnm' with rfl | h1
    · exact this.1.2
    · exact this.2 nm' h1

/-- `stop()` selects every tracked source and empties `posted_events_queue` -/
theorem stopSel_all {s : State} (hI : Inv s) : (stopSel s).2 = [] ∧ (stopSel s).1.Perm s.order := by
  have hnil : (stopSel s).2 = [] := by
    rcases hx : (stopSel s).2 with _ | ⟨i, l⟩
    · rfl
    · exfalso
      have hi : i ∈ (stopSel s).2 := by rw [hx]; simp
      have := stopFold_rest s (s.order.filterMap fun i => (s.timers[i]?).map (·.name)) ([], s.order) i (stopSel_eq s ▸ hi)
      obtain ⟨hio, hn⟩ := this
      simp only at hio
      obtain ⟨tm, htm, _⟩ := timer_of_order hI hio
      have := hn tm.name (by
        simp only [List.mem_filterMap]
        exact ⟨i, hio, by simp [htm]⟩)
      simp [timerHas, htm] at this
  refine ⟨hnil, ?_⟩
  have := stopSel_perm s
  rwa [hnil, List.append_nil] at this

end Miros.Conc.AO
