import MirosModel.Conc.LockingDeque
/-!
# Termination measure and invariant for the `tokenAfter` posting algorithm (definitions)

`mu` is a weighted sum encoding the lexicographic tuple `(U + R, Λ, T)`:

* `U`  — total weight of the events that still have to be placed or popped
         (`wt sig` per event; an event whose handler posts further events weighs more than all
         the events it creates), `+1` while the consumer is not committed to a pop;
* `R`  — straight-line work left in the posting programs (5 per post + steps to the top-up loop);
* `Λ`  — work left in the token top-up loops, as a function of the gap `len − qsize`;
* `T`  — `12·tok + rank (consumer pc)`.

Every enabled step from a state satisfying `Inv` strictly decreases `mu` (`LDTermination.lean`).
Everything here is executable, so the claims are also validated by exhaustive exploration
(`LDExplore.lean`).
-/
namespace Miros.Conc.LD
open Miros.Queue

/-- the event of the current post is already in the deque -/
def placed : PPc → Bool
  | .s0 | .s1 | .s2 | .s3 => true
  | _ => false

/-- pcs used by the `tokenAfter` algorithm -/
def taPc : PPc → Bool
  | .a0 | .a1 | .b1 | .b2 | .l1 | .s0 | .s1 | .s2 | .s3 => true
  | _ => false

def wsum (wt : Nat → Nat) (l : List (Kind × Ev)) : Nat := (l.map fun x => wt x.2.sig).sum

def dqW (wt : Nat → Nat) (l : List Ev) : Nat := (l.map fun e => wt e.sig).sum

/-- weight of the events a poster still has to place -/
def uP (wt : Nat → Nat) (p : Poster) : Nat :=
  match p.posts with
  | [] => 0
  | x :: rest => (if placed p.pc then 0 else wt x.2.sig) + wsum wt rest

/-- straight-line steps left in the current post before the top-up loop -/
def slP : PPc → Nat
  | .a0 => 4 | .b1 => 3 | .a1 => 2 | .b2 => 2 | .l1 => 2 | .s0 => 1
  | _ => 0

def rP (p : Poster) : Nat :=
  match p.posts with
  | [] => 0
  | _ :: rest => 5 * (rest.length + 1) + slP p.pc

/-- work left in the top-up loop, `L = len(deque)`, `tok = qsize` -/
def lamP (L tok : Nat) (p : Poster) : Nat :=
  match p.posts with
  | [] => 0
  | _ :: _ =>
    match p.pc with
    | .s1 => if 1 ≤ L - tok then 3 * (L - tok) + 5 else 2
    | .s2 => if p.q < L then 3 * (L - tok) + 4 else 1
    | .s3 => 3 * (L - tok) + 3
    | _ => 0

/-- the consumer holds a token and is bound to pop an event -/
def committed (cpc : CPc) (L : Nat) : Bool :=
  match cpc with
  | .f | .n => decide (1 ≤ L)
  | .p | .r0 | .r1 => true
  | _ => false

def ncom (cpc : CPc) (L : Nat) : Nat := if committed cpc L then 0 else 1

def rankC : CPc → Nat
  | .fin => 0 | .w => 1 | .t => 2 | .d => 3 | .q2 => 4 | .q1 => 5 | .h => 6
  | .r1 => 7 | .r0 => 8 | .p => 9 | .n => 10 | .f => 11

/-- all posting programs: the consumer's inline program (index 0) and poster `i` at index `i+1`
(the thread numbering of `stepL`) -/
def allP (s : State) : List Poster := s.inline :: s.posters

/-- sum over all posting programs -/
def sumP (f : Poster → Nat) (s : State) : Nat := ((allP s).map f).sum

def muU (wt : Nat → Nat) (s : State) : Nat := sumP (uP wt) s + dqW wt s.dq + ncom s.cpc s.dq.length
def muR (s : State) : Nat := sumP rP s
def muLam (s : State) : Nat := sumP (lamP s.dq.length s.tok) s
def muT (s : State) : Nat := 12 * s.tok + rankC s.cpc

def lamMax (c : Config) (s : State) : Nat := (s.posters.length + 1) * (3 * c.cap + 5)
def muW (c : Config) (s : State) : Nat := 13 * lamMax c s + 13

/-- the termination measure -/
def mu (c : Config) (wt : Nat → Nat) (s : State) : Nat :=
  muW c s * (muU wt s + muR s) + 13 * muLam s + muT s

/-- event weights for a self-post table whose nesting depth is at most the fuel: an event weighs
more than everything its handler posts -/
def wtF (sp : Nat → List (Kind × Nat)) : Nat → Nat → Nat
  | 0, _ => 6
  | n + 1, sg => 6 + ((sp sg).map fun x => wtF sp n x.2 + 5).sum

/-- the consumer holds a token (taken at `w`, not yet used up) -/
def holds : CPc → Nat
  | .f | .n | .p | .r0 | .r1 => 1
  | _ => 0

/-- posters about to make the unconditional token put -/
def atS0 (p : Poster) : Nat := if p.posts ≠ [] ∧ p.pc = .s0 then 1 else 0

def goodP (c : Config) (p : Poster) : Prop :=
  (p.posts ≠ [] → taPc p.pc = true) ∧ ∀ x ∈ p.posts, x.2.sig ≠ c.stopSig

instance (c : Config) (p : Poster) : Decidable (goodP c p) := by unfold goodP; infer_instance

/-- the inductive invariant -/
structure Inv (c : Config) (s : State) : Prop where
  lenCap : s.dq.length ≤ c.cap
  fab : s.fabFlag = true
  run : s.runFlag = true
  notFin : s.cpc ≠ .fin
  dqNoStop : ∀ e ∈ s.dq, e.sig ≠ c.stopSig
  progs : ∀ p ∈ allP s, goodP c p
  popNe : (s.cpc = .p ∨ s.cpc = .r0 ∨ s.cpc = .r1) → s.dq ≠ []
  inlIdle : s.cpc ≠ .h → s.inline.posts = []
  inlBusy : s.cpc = .h → s.inline.posts ≠ []
  /-- no lost wake-up: every pending event is covered by a token, by the token the consumer
  holds, or by a poster that is about to put one unconditionally -/
  wake : s.dq.length ≤ s.tok + holds s.cpc + sumP atS0 s

def invB (c : Config) (s : State) : Bool :=
  decide (s.dq.length ≤ c.cap) && s.fabFlag && s.runFlag && decide (s.cpc ≠ .fin) &&
  decide (∀ e ∈ s.dq, e.sig ≠ c.stopSig) && decide (∀ p ∈ allP s, goodP c p) &&
  decide ((s.cpc = .p ∨ s.cpc = .r0 ∨ s.cpc = .r1) → s.dq ≠ []) &&
  decide (s.cpc ≠ .h → s.inline.posts = []) && decide (s.cpc = .h → s.inline.posts ≠ []) &&
  decide (s.dq.length ≤ s.tok + holds s.cpc + sumP atS0 s)

end Miros.Conc.LD
