import MirosModel.Conc.SingleNested
import MirosModel.Conc.SysLemmas
/-!
# Nested singletons: inductive invariant, progress, measure

* `Inv`      — the safety invariant of the current source (`nestedSkipsLock = false`)
* `enabled`, `quiescent_done` — no deadlock (lock order outer-then-inner)
* `measure`  — every step decreases it (any tag)
-/
namespace Miros.Conc.SingleNested

/-! ### tables -/

theorem getI_set (l : List (Option Nat)) (d d' : Nat) (v : Option Nat) :
    getI (l.set d v) d' = if d = d' ∧ d < l.length then v else getI l d' := by
  unfold getI
  by_cases h : d = d'
  · subst h
    by_cases hl : d < l.length
    · simp [hl]
    · simp [hl]
  · simp [h, List.getElem?_set_ne h]

theorem getI_replicate (n d : Nat) : getI (List.replicate n none) d = none := by
  unfold getI
  by_cases h : d < n <;> simp [h]

theorem getI_some_lt {l : List (Option Nat)} {d o : Nat} (h : getI l d = some o) : d < l.length := by
  apply Classical.byContradiction
  intro hn
  simp [getI, List.getElem?_eq_none (Nat.le_of_not_lt hn)] at h

/-- the objects constructed for decorator `d`, in order -/
def forDec (made : List (Nat × Nat)) (d : Nat) : List (Nat × Nat) := made.filter fun p => p.1 == d

theorem forDec_append (m : List (Nat × Nat)) (d o d' : Nat) :
    forDec (m ++ [(d, o)]) d' = if d = d' then forDec m d' ++ [(d, o)] else forDec m d' := by
  unfold forDec
  by_cases h : d = d' <;> simp [List.filter_append, h]

theorem mem_of_forDec {m : List (Nat × Nat)} {d : Nat} {p : Nat × Nat} (h : p ∈ forDec m d) :
    p ∈ m ∧ p.1 = d := by
  simpa [forDec] using h

theorem mem_forDec {m : List (Nat × Nat)} {d o : Nat} (h : (d, o) ∈ m) : (d, o) ∈ forDec m d := by
  simp [forDec, h]

/-! ### the safety invariant (`nestedSkipsLock = false`) -/

/-- inside the `with self._lock:` block -/
def InCrit : Pc → Prop
  | .check2 | .construct | .construct2 | .store | .release => True
  | _ => False

/-- what holds of a frame of thread `i` -/
def FrameOK (s : State) (i : Nat) (f : Frame) : Prop :=
  f.dec < s.insts.length ∧
  (InCrit f.pc → getI s.locks f.dec = some i) ∧
  (f.pc = .construct ∨ f.pc = .construct2 → getI s.insts f.dec = none ∧ forDec s.made f.dec = []) ∧
  (f.pc = .store → getI s.insts f.dec = none ∧ ∃ m, f.mine = some m ∧ forDec s.made f.dec = [(f.dec, m)]) ∧
  (f.pc = .release ∨ f.pc = .read → ∃ o, getI s.insts f.dec = some o) ∧
  (f.pc = .construct2 → f.dec ≠ 0)

/-- what holds of thread `i`, whose request goes to decorator `d` -/
def ThreadOK (s : State) (i d : Nat) (t : Thread) : Prop :=
  match t.stack with
  | [] => ∃ o io, t.ret = some (some o, some io) ∧ getI s.insts d = some o ∧ getI s.insts 0 = some io
  | [f] => t.ret = none ∧ f.dec = d ∧ FrameOK s i f ∧
      (f.pc = .construct2 → ∃ io, f.inner = some io ∧ getI s.insts 0 = some io)
  | [f, f1] => t.ret = none ∧ f.dec = 0 ∧ f1.dec = d ∧ f1.pc = .construct2 ∧ FrameOK s i f ∧ FrameOK s i f1
  | _ => False

/-- some frame of the stack is inside the `with` block of decorator `d` -/
def critFor : List Frame → Nat → Prop
  | [], _ => False
  | f :: rest, d => (f.dec = d ∧ InCrit f.pc) ∨ critFor rest d

/-- some frame of the stack is about to store the object it constructed for decorator `d` -/
def storeFor : List Frame → Nat → Prop
  | [], _ => False
  | f :: rest, d => (f.dec = d ∧ f.pc = .store) ∨ storeFor rest d

/-- the inductive invariant of the current source; `reqs` are the threads' requests -/
structure Inv (reqs : List Req) (s : State) : Prop where
  len : s.locks.length = s.insts.length
  nthr : s.threads.length = reqs.length
  inst : ∀ d o, getI s.insts d = some o → forDec s.made d = [(d, o)]
  noneInst : ∀ d, getI s.insts d = none → forDec s.made d = [] ∨
    ((∃ j, getI s.locks d = some j) ∧
      ∀ j t, getI s.locks d = some j → s.threads[j]? = some t → storeFor t.stack d)
  fresh : ∀ p ∈ s.made, p.2 < s.nextObj
  freshH : ∀ p ∈ s.holds, p.1 < s.nextObj
  held : ∀ d o, (d, o) ∈ s.made → d ≠ 0 → ∃ io, s.holds.lookup o = some io ∧ getI s.insts 0 = some io
  owner : ∀ d j, getI s.locks d = some j →
    j < s.threads.length ∧ ∀ t, s.threads[j]? = some t → critFor t.stack d
  thr : ∀ i t r, s.threads[i]? = some t → reqs[i]? = some r → ThreadOK s i r.dec t

/-! ### helpers -/

theorem isNone_true' {x : Option Nat} (h : x.isNone = true) : x = none := by simpa using h
theorem isNone_false' {x : Option Nat} (h : x.isNone = false) : ∃ o, x = some o := by
  cases x <;> simp at h ⊢
theorem isSome_true' {x : Option Nat} (h : x.isSome = true) : ∃ o, x = some o := by
  cases x <;> simp at h ⊢
theorem isSome_false' {x : Option Nat} (h : x.isSome = false) : x = none := by simpa using h

theorem mem_of_forDec_eq {m : List (Nat × Nat)} {d o : Nat} (h : forDec m d = [(d, o)]) : (d, o) ∈ m :=
  (mem_of_forDec (by rw [h]; simp)).1

local macro "sn_grind" : tactic => `(tactic| grind [FrameOK, InCrit, getI_set, critFor, storeFor, forDec_append,
  → isNone_true', → isNone_false', → isSome_true', → isSome_false', → mem_of_forDec_eq])

theorem dec_lt_nDecs {reqs : List Req} {r : Req} (h : r ∈ reqs) : r.dec < nDecs reqs := by
  unfold nDecs
  induction reqs with
  | nil => cases h
  | cons a l ih =>
    simp only [List.map_cons, List.foldr_cons]
    rcases List.mem_cons.mp h with rfl | h'
    · omega
    · have := ih h'; omega

theorem Inv.init (reqs : List Req) : Inv reqs (init reqs) := by
  refine ⟨by simp [SingleNested.init], by simp [SingleNested.init], ?_, ?_, by simp [SingleNested.init],
    by simp [SingleNested.init], by simp [SingleNested.init], ?_, ?_⟩
  · intro d o h; simp [SingleNested.init, getI_replicate] at h
  · intro d _; left; simp [SingleNested.init, forDec]
  · intro d j h; simp [SingleNested.init, getI_replicate] at h
  · intro i t r ht hr
    simp only [SingleNested.init, List.getElem?_map, hr, Option.map_some, Option.some.injEq] at ht
    subst ht
    have := dec_lt_nDecs (List.mem_of_getElem? hr)
    simp [ThreadOK, FrameOK, newFrame, InCrit, SingleNested.init, this]

theorem step_length {g : Tags} {s s' : State} {i : Nat} (h : step g s i = some s') :
    s'.threads.length = s.threads.length := by
  unfold step at h
  split at h
  · cases h
  · split at h
    · cases h
    · split at h <;> (try split at h) <;> (try cases h) <;> simp



theorem ThreadOK.mono {s s' : State} {j d : Nat} {t : Thread}
    (hf : ∀ f ∈ t.stack, FrameOK s j f → FrameOK s' j f)
    (hi : ∀ d o, getI s.insts d = some o → getI s'.insts d = some o)
    (h : ThreadOK s j d t) : ThreadOK s' j d t := by
  unfold ThreadOK at h ⊢
  split
  · rename_i hs
    simp only [hs] at h
    obtain ⟨o, io, h1, h2, h3⟩ := h
    exact ⟨o, io, h1, hi _ _ h2, hi _ _ h3⟩
  · rename_i f hs
    simp only [hs] at h hf
    obtain ⟨h1, h2, h3, h4⟩ := h
    refine ⟨h1, h2, hf f (by simp) h3, fun hp => ?_⟩
    obtain ⟨io, h5, h6⟩ := h4 hp
    exact ⟨io, h5, hi _ _ h6⟩
  · rename_i f f1 hs
    simp only [hs] at h hf
    obtain ⟨h1, h2, h3, h4, h5, h6⟩ := h
    exact ⟨h1, h2, h3, h4, hf f (by simp) h5, hf f1 (by simp) h6⟩
  · rename_i h1 h2 h3
    split at h
    · exact h1 ‹_›
    · exact h2 _ ‹_›
    · exact h3 _ _ ‹_›
    · exact h

theorem thr_set {reqs : List Req} {s s' : State} {i : Nat} {t' : Thread} {r : Req}
    (h9 : ∀ i t r, s.threads[i]? = some t → reqs[i]? = some r → ThreadOK s i r.dec t)
    (hr : reqs[i]? = some r) (hthreads : s'.threads = s.threads.set i t')
    (hnew : ThreadOK s' i r.dec t')
    (hf : ∀ j f, j ≠ i → FrameOK s j f → FrameOK s' j f)
    (hi : ∀ d o, getI s.insts d = some o → getI s'.insts d = some o) :
    ∀ j tj rj, s'.threads[j]? = some tj → reqs[j]? = some rj → ThreadOK s' j rj.dec tj := by
  intro j tj rj hj hrj
  rw [hthreads] at hj
  by_cases hij : i = j
  · subst hij
    have hlt : i < s.threads.length := by
      apply Classical.byContradiction
      intro hn
      rw [List.getElem?_eq_none (by simpa using hn)] at hj
      cases hj
    rw [List.getElem?_set_self hlt] at hj
    cases hj
    rw [hr] at hrj
    cases hrj
    exact hnew
  · rw [List.getElem?_set_ne hij] at hj
    exact (h9 j tj rj hj hrj).mono (fun f _ => hf j f (Ne.symm hij)) hi



set_option hygiene false in
local macro "sn_case" : tactic => `(tactic| (
  unfold SingleNested.step at h
  simp only [ht, hst, hpc] at h
  have hlt : i < s.threads.length := (List.getElem?_eq_some_iff.mp ht).1
  obtain ⟨r, hr⟩ : ∃ r, reqs[i]? = some r := ⟨reqs[i]'(hI.nthr ▸ hlt), List.getElem?_eq_getElem _⟩
  have hT := hI.thr i t r ht hr
  obtain ⟨h1, h2, h3, h4, h5, h6, h7, h8, h9⟩ := hI
  rcases rest with _ | ⟨f1, _ | ⟨f2, rest2⟩⟩ <;> simp only [ThreadOK, hst] at hT <;> (try exact hT.elim)
  all_goals (try simp only [skips, Bool.false_and, Bool.false_eq_true, if_false] at h)
  all_goals ((try split at h) <;> (try cases h))
  all_goals
    refine ⟨by simpa using h1, by simpa using h2, ?_, ?_, ?_, ?_, ?_, ?_, ?_⟩
  all_goals (try (first | exact h3 | exact h4 | exact h5 | exact h6 | exact h7))
  all_goals first
    | (refine thr_set h9 hr rfl ?_ ?_ ?_
       · simp only [ThreadOK, newFrame]; sn_grind
       · sn_grind
       · sn_grind)
    | sn_grind))

theorem Inv.step_check {reqs : List Req} {s s' : State} {i : Nat} {t : Thread} {f : Frame} {rest : List Frame}
    (hI : Inv reqs s) (ht : s.threads[i]? = some t) (hst : t.stack = f :: rest) (hpc : f.pc = .check)
    (h : step ⟨false⟩ s i = some s') : Inv reqs s' := by
  sn_case

theorem Inv.step_acquire {reqs : List Req} {s s' : State} {i : Nat} {t : Thread} {f : Frame} {rest : List Frame}
    (hI : Inv reqs s) (ht : s.threads[i]? = some t) (hst : t.stack = f :: rest) (hpc : f.pc = .acquire)
    (h : step ⟨false⟩ s i = some s') : Inv reqs s' := by
  sn_case

theorem Inv.step_check2 {reqs : List Req} {s s' : State} {i : Nat} {t : Thread} {f : Frame} {rest : List Frame}
    (hI : Inv reqs s) (ht : s.threads[i]? = some t) (hst : t.stack = f :: rest) (hpc : f.pc = .check2)
    (h : step ⟨false⟩ s i = some s') : Inv reqs s' := by
  sn_case

theorem Inv.step_construct {reqs : List Req} {s s' : State} {i : Nat} {t : Thread} {f : Frame} {rest : List Frame}
    (hI : Inv reqs s) (ht : s.threads[i]? = some t) (hst : t.stack = f :: rest) (hpc : f.pc = .construct)
    (h : step ⟨false⟩ s i = some s') : Inv reqs s' := by
  sn_case

theorem Inv.step_construct2 {reqs : List Req} {s s' : State} {i : Nat} {t : Thread} {f : Frame} {rest : List Frame}
    (hI : Inv reqs s) (ht : s.threads[i]? = some t) (hst : t.stack = f :: rest) (hpc : f.pc = .construct2)
    (h : step ⟨false⟩ s i = some s') : Inv reqs s' := by
  sn_case

theorem Inv.step_store {reqs : List Req} {s s' : State} {i : Nat} {t : Thread} {f : Frame} {rest : List Frame}
    (hI : Inv reqs s) (ht : s.threads[i]? = some t) (hst : t.stack = f :: rest) (hpc : f.pc = .store)
    (h : step ⟨false⟩ s i = some s') : Inv reqs s' := by
  sn_case

theorem Inv.step_release {reqs : List Req} {s s' : State} {i : Nat} {t : Thread} {f : Frame} {rest : List Frame}
    (hI : Inv reqs s) (ht : s.threads[i]? = some t) (hst : t.stack = f :: rest) (hpc : f.pc = .release)
    (h : step ⟨false⟩ s i = some s') : Inv reqs s' := by
  sn_case

theorem Inv.step_read {reqs : List Req} {s s' : State} {i : Nat} {t : Thread} {f : Frame} {rest : List Frame}
    (hI : Inv reqs s) (ht : s.threads[i]? = some t) (hst : t.stack = f :: rest) (hpc : f.pc = .read)
    (h : step ⟨false⟩ s i = some s') : Inv reqs s' := by
  sn_case

/-- the invariant is inductive -/
theorem Inv.step {reqs : List Req} {s s' : State} {i : Nat} (hI : Inv reqs s)
    (h : step ⟨false⟩ s i = some s') : Inv reqs s' := by
  cases ht : s.threads[i]? with
  | none => simp [SingleNested.step, ht] at h
  | some t =>
    cases hst : t.stack with
    | nil => simp [SingleNested.step, ht, hst] at h
    | cons f rest =>
      cases hpc : f.pc
      · exact hI.step_check ht hst hpc h
      · exact hI.step_acquire ht hst hpc h
      · exact hI.step_check2 ht hst hpc h
      · exact hI.step_construct ht hst hpc h
      · exact hI.step_construct2 ht hst hpc h
      · exact hI.step_store ht hst hpc h
      · exact hI.step_release ht hst hpc h
      · exact hI.step_read ht hst hpc h

theorem Inv.run (reqs : List Req) (sched : List Nat) :
    Inv reqs ((sys ⟨false⟩).run (SingleNested.init reqs) sched) :=
  (sys ⟨false⟩).inv_run (Inv reqs) (fun _ _ _ hI h => hI.step h) sched _ (Inv.init reqs)

/-! ### consequences of the invariant -/

/-- the request of thread `i` (there is one for every thread) -/
theorem Inv.req {reqs : List Req} {s : State} {i : Nat} {t : Thread} (hI : Inv reqs s)
    (ht : s.threads[i]? = some t) : ∃ r, reqs[i]? = some r :=
  have hlt : i < s.threads.length := (List.getElem?_eq_some_iff.mp ht).1
  ⟨reqs[i]'(hI.nthr ▸ hlt), List.getElem?_eq_getElem _⟩

/-- the running frame of a thread satisfies `FrameOK` -/
theorem Inv.top {reqs : List Req} {s : State} {i : Nat} {t : Thread} {f : Frame} {rest : List Frame}
    (hI : Inv reqs s) (ht : s.threads[i]? = some t) (hst : t.stack = f :: rest) : FrameOK s i f := by
  obtain ⟨r, hr⟩ := hI.req ht
  have hT := hI.thr i t r ht hr
  rcases rest with _ | ⟨f1, _ | ⟨f2, rest2⟩⟩ <;> simp only [ThreadOK, hst] at hT
  · exact hT.2.2.1
  · exact hT.2.2.2.2.1

/-- a frame about to store has constructed the only object of its decorator -/
theorem ThreadOK.of_storeFor {s : State} {i dd d : Nat} {t : Thread} (hT : ThreadOK s i dd t)
    (hs : storeFor t.stack d) : ∃ m, forDec s.made d = [(d, m)] := by
  unfold ThreadOK at hT
  split at hT
  · rename_i h; rw [h] at hs; exact hs.elim
  · rename_i f h; rw [h] at hs; sn_grind
  · rename_i f f1 h; rw [h] at hs; sn_grind
  · exact hT.elim

/-- at most one object is ever constructed per decorator -/
theorem Inv.made_le {reqs : List Req} {s : State} (hI : Inv reqs s) (d : Nat) :
    (forDec s.made d).length ≤ 1 := by
  cases hi : getI s.insts d with
  | some o => rw [hI.inst d o hi]; simp
  | none =>
    rcases hI.noneInst d hi with h | ⟨⟨j, hj⟩, h⟩
    · rw [h]; simp
    · obtain ⟨hlt, _⟩ := hI.owner d j hj
      have ht : s.threads[j]? = some s.threads[j] := List.getElem?_eq_getElem hlt
      obtain ⟨r, hr⟩ := hI.req ht
      obtain ⟨m, hm⟩ := (hI.thr j _ r ht hr).of_storeFor (h j _ hj ht)
      rw [hm]; simp

/-- a thread that has a return value has returned -/
theorem Inv.stack_of_ret {reqs : List Req} {s : State} {i : Nat} {t : Thread}
    {x : Option Nat × Option Nat} (hI : Inv reqs s) (ht : s.threads[i]? = some t)
    (hx : t.ret = some x) : t.stack = [] := by
  obtain ⟨r, hr⟩ := hI.req ht
  have hT := hI.thr i t r ht hr
  unfold ThreadOK at hT
  split at hT
  · assumption
  · rw [hT.1] at hx; cases hx
  · rw [hT.1] at hx; cases hx
  · exact hT.elim

/-- what a thread that has returned holds: the instance of the decorator it asked, which is (inner
request) or holds (outer request) the instance of the inner decorator -/
theorem Inv.done_spec {reqs : List Req} {s : State} {i : Nat} {t : Thread} {r : Req}
    (hI : Inv reqs s) (ht : s.threads[i]? = some t) (hr : reqs[i]? = some r) (hst : t.stack = []) :
    ∃ o io, t.ret = some (some o, some io) ∧ getI s.insts r.dec = some o ∧ getI s.insts 0 = some io ∧
      (r.dec = 0 → o = io) ∧ (r.dec ≠ 0 → s.holds.lookup o = some io) := by
  have hT := hI.thr i t r ht hr
  simp only [ThreadOK, hst] at hT
  obtain ⟨o, io, h1, h2, h3⟩ := hT
  refine ⟨o, io, h1, h2, h3, fun h0 => ?_, fun h0 => ?_⟩
  · rw [h0, h3] at h2; exact (Option.some.inj h2).symm
  · obtain ⟨io', h4, h5⟩ := hI.held r.dec o (mem_of_forDec_eq (hI.inst _ _ h2)) h0
    rw [h3] at h5; cases h5; exact h4

/-- once set, an `instance` is never changed by a step -/
theorem step_insts_stable {reqs : List Req} {s s' : State} {i d o : Nat} (hI : Inv reqs s)
    (h : step ⟨false⟩ s i = some s') (ho : getI s.insts d = some o) : getI s'.insts d = some o := by
  unfold SingleNested.step at h
  split at h
  · cases h
  rename_i t ht
  split at h
  · cases h
  rename_i f rest hst
  have hF := hI.top ht hst
  split at h <;> (try split at h) <;> (try cases h) <;> (try exact ho)
  all_goals (dsimp only; sn_grind)

theorem run_insts_stable {reqs : List Req} {d o : Nat} (sched : List Nat) (s : State) (hI : Inv reqs s)
    (ho : getI s.insts d = some o) : getI ((sys ⟨false⟩).run s sched).insts d = some o :=
  ((sys ⟨false⟩).inv_run (fun s' => Inv reqs s' ∧ getI s'.insts d = some o)
    (fun _ _ _ hI h => ⟨hI.1.step h, step_insts_stable hI.1 h hI.2⟩) sched s ⟨hI, ho⟩).2

/-! ### progress -/

/-- a thread that has not returned and is not waiting for a held lock can move (any tag) -/
theorem enabled {g : Tags} {s : State} {i : Nat} {t : Thread} {f : Frame} {rest : List Frame}
    (ht : s.threads[i]? = some t) (hst : t.stack = f :: rest)
    (ha : f.pc = .acquire → getI s.locks f.dec = none) : step g s i ≠ none := by
  unfold SingleNested.step
  simp only [ht, hst]
  cases hpc : f.pc <;> simp_all <;> split <;> simp

/-- a thread that cannot move although it has not returned waits at `acquire` for a held lock -/
theorem stuck_at_acquire {g : Tags} {s : State} {i : Nat} {t : Thread} {f : Frame} {rest : List Frame}
    (ht : s.threads[i]? = some t) (hst : t.stack = f :: rest) (hq : step g s i = none) :
    f.pc = .acquire ∧ getI s.locks f.dec ≠ none := by
  apply Classical.byContradiction
  intro hn
  refine enabled ht hst (fun hp => ?_) hq
  apply Classical.byContradiction
  intro hl
  exact hn ⟨hp, hl⟩

/-- the owner of the lock of the INNER decorator can always move -/
theorem inner_owner_enabled {reqs : List Req} {s : State} {j : Nat} (hI : Inv reqs s)
    (hj : getI s.locks 0 = some j) : step ⟨false⟩ s j ≠ none := by
  obtain ⟨hlt, hc⟩ := hI.owner 0 j hj
  have ht : s.threads[j]? = some s.threads[j] := List.getElem?_eq_getElem hlt
  obtain ⟨r, hr⟩ := hI.req ht
  have hT := hI.thr j _ r ht hr
  have hc := hc _ ht
  intro hq
  unfold ThreadOK at hT
  split at hT
  · rename_i h; rw [h] at hc; exact hc.elim
  · rename_i f h
    have := stuck_at_acquire ht h hq
    rw [h] at hc
    sn_grind
  · rename_i f f1 h
    have := stuck_at_acquire ht h hq
    rw [h] at hc
    sn_grind
  · exact hT.elim

/-- with the inner lock free, the owner of any lock can move (lock order: outer, then inner) -/
theorem owner_enabled {reqs : List Req} {s : State} {d j : Nat} (hI : Inv reqs s)
    (h0 : getI s.locks 0 = none) (hj : getI s.locks d = some j) : step ⟨false⟩ s j ≠ none := by
  obtain ⟨hlt, hc⟩ := hI.owner d j hj
  have ht : s.threads[j]? = some s.threads[j] := List.getElem?_eq_getElem hlt
  obtain ⟨r, hr⟩ := hI.req ht
  have hT := hI.thr j _ r ht hr
  have hc := hc _ ht
  intro hq
  unfold ThreadOK at hT
  split at hT
  · rename_i h; rw [h] at hc; exact hc.elim
  · rename_i f h
    have := stuck_at_acquire ht h hq
    rw [h] at hc
    sn_grind
  · rename_i f f1 h
    have := stuck_at_acquire ht h hq
    rw [h] at hc
    sn_grind
  · exact hT.elim

/-- no deadlock: in a quiescent state satisfying the invariant every lock is free and every thread
has returned -/
theorem quiescent_done {reqs : List Req} {s : State} (hI : Inv reqs s) (hq : (sys ⟨false⟩).Quiescent s) :
    (∀ d, getI s.locks d = none) ∧ ∀ (i : Nat) (t : Thread), s.threads[i]? = some t → t.stack = [] := by
  have h0 : getI s.locks 0 = none := by
    cases h : getI s.locks 0 with
    | none => rfl
    | some j => exact absurd (hq j) (inner_owner_enabled hI h)
  have hall : ∀ d, getI s.locks d = none := by
    intro d
    cases h : getI s.locks d with
    | none => rfl
    | some j => exact absurd (hq j) (owner_enabled hI h0 h)
  refine ⟨hall, fun i t ht => ?_⟩
  cases hst : t.stack with
  | nil => rfl
  | cons f rest => exact absurd (hq i) (enabled ht hst fun _ => hall _)

/-- a state in which every thread has returned is quiescent -/
theorem quiescent_of_all_done {g : Tags} {s : State} (h : ∀ t ∈ s.threads, t.stack = []) :
    (sys g).Quiescent s := by
  intro i
  show step g s i = none
  unfold SingleNested.step
  cases ht : s.threads[i]? with
  | none => rfl
  | some t => simp [h t (List.mem_of_getElem? ht)]

/-! ### termination measure (any tag) -/

/-- steps a frame of the inner decorator still has to make, at most -/
def pcRank : Pc → Nat
  | .check => 8 | .acquire => 7 | .check2 => 6 | .construct => 5 | .construct2 => 4
  | .store => 3 | .release => 2 | .read => 1

/-- the same for a frame of an outer decorator: before the nested call, the nested call counts too -/
def outerRank : Pc → Nat
  | .check => 16 | .acquire => 15 | .check2 => 14 | .construct => 13 | .construct2 => 4
  | .store => 3 | .release => 2 | .read => 1

def frameRank (f : Frame) : Nat := if f.dec = 0 then pcRank f.pc else outerRank f.pc

def rank (t : Thread) : Nat := (t.stack.map frameRank).sum

def measure (s : State) : Nat := (s.threads.map rank).sum

/-- replacing one element of a list by one of smaller weight decreases the total weight -/
theorem sum_map_set_lt {α : Type} (f : α → Nat) : ∀ (l : List α) (i : Nat) (a b : α),
    l[i]? = some a → f b < f a → ((l.set i b).map f).sum < (l.map f).sum
  | [], i, a, b, h, _ => by simp at h
  | x :: l, 0, a, b, h, hlt => by
    simp only [List.getElem?_cons_zero, Option.some.injEq] at h
    subst h
    simp only [List.set_cons_zero, List.map_cons, List.sum_cons]
    omega
  | x :: l, i + 1, a, b, h, hlt => by
    simp only [List.getElem?_cons_succ] at h
    have := sum_map_set_lt f l i a b h hlt
    simp only [List.set_cons_succ, List.map_cons, List.sum_cons]
    omega

theorem step_measure {g : Tags} {s s' : State} {i : Nat} (h : step g s i = some s') :
    measure s' < measure s := by
  unfold step at h
  split at h
  · cases h
  rename_i t ht
  split at h
  · cases h
  rename_i f rest hst
  unfold measure
  cases hsk : skips g rest <;> simp only [hsk] at h <;>
  (split at h <;> (try split at h) <;> (try cases h) <;>
    (refine sum_map_set_lt rank _ i t _ ht ?_) <;>
    simp_all [rank, frameRank, pcRank, outerRank, newFrame] <;> (repeat' split) <;> (try simp_all) <;> omega)

theorem measure_init_le (reqs : List Req) : measure (init reqs) ≤ 16 * reqs.length := by
  unfold measure init
  simp only [List.map_map]
  induction reqs with
  | nil => simp
  | cons r rs ih =>
    simp only [List.map_cons, List.sum_cons, List.length_cons, Function.comp, rank, newFrame, frameRank,
      List.map_nil, List.sum_nil] at ih ⊢
    split <;> simp only [pcRank, outerRank] <;> omega

end Miros.Conc.SingleNested
