import MirosModel.Conc.LDLemmas
/-!
# Conservation of events in the `LockingDeque` / consumer model

Every event object ever created (the posters' programs and the events the consumer's handlers
post) is in exactly one place: not yet placed, in the deque, dispatched, or displaced by overflow.
-/
namespace Miros.Conc.LD
open Miros.Queue

/-- the current post's event is already in the deque (the poster is signalling) -/
def placed (p : Poster) : Bool :=
  decide (p.pc = .s0 ∨ p.pc = .s1 ∨ p.pc = .s2 ∨ p.pc = .s3)

/-- events of posts not yet placed in the deque -/
def pend (p : Poster) : List Ev :=
  (if placed p then p.posts.drop 1 else p.posts).map (·.2)

def pendingEvents (s : State) : List Ev :=
  (s.posters.map pend).flatten ++ pend s.inline

/-- the event objects created by the handlers while dispatching the events `l` in order, the
first one numbered `n` -/
def selfCreated (c : Config) : Nat → List Ev → List Ev
  | _, [] => []
  | n, e :: es =>
    (mkInline c n (c.selfPosts e.sig)).posts.map (·.2) ++
      selfCreated c (n + (mkInline c n (c.selfPosts e.sig)).posts.length) es

/-- the consumer's own events created so far (uids `900000 … nextSelf-1`) -/
def selfEventsCreated (c : Config) (s : State) : List Ev := selfCreated c 900000 s.dispatched

/-- all event objects that exist in state `s` -/
def allEvents (c : Config) (progs : List (List (Kind × Ev))) (s : State) : List Ev :=
  (progs.flatten.map (·.2)) ++ selfEventsCreated c s

/-! ### list lemmas -/

theorem sum_map_set {α : Type} (f : α → Nat) (l : List α) (i : Nat) (a b : α) (h : l[i]? = some a) :
    ((l.set i b).map f).sum + f a = (l.map f).sum + f b := by
  induction l generalizing i with
  | nil => simp at h
  | cons x xs ih =>
    cases i with
    | zero => simp at h; subst h; simp; omega
    | succ j =>
      simp at h; have := ih j h
      simp only [List.set_cons_succ, List.map_cons, List.sum_cons]; omega

theorem dqAppend_count (cap : Nat) (l : List Ev) (x a : Ev) (hc : 0 < cap) :
    (dqAppend cap l x).1.count a + (dqAppend cap l x).2.count a = l.count a + [x].count a := by
  unfold dqAppend
  split
  · simp [List.count_append]
  · cases l with
    | nil => simp at *; omega
    | cons y t => simp [List.count_append, List.count_cons]; omega

theorem dqAppendLeft_count (cap : Nat) (l : List Ev) (x a : Ev) :
    (dqAppendLeft cap l x).1.count a + (dqAppendLeft cap l x).2.count a = l.count a + [x].count a := by
  unfold dqAppendLeft
  split
  · simp [List.count_cons]
  · simp only []
    rw [← List.count_append, List.take_append_drop]
    simp [List.count_cons]

theorem dqRotate_count (l : List Ev) (a : Ev) : (dqRotate l).count a = l.count a :=
  (dqRotate_perm l).count_eq a

theorem pend_nil (p : Poster) (h : p.posts = []) : pend p = [] := by
  simp [pend, h]

theorem pend_nextPost (p : Poster) (hp : placed p = true) :
    pend (nextPost .tokenAfter p) = pend p := by
  obtain ⟨posts, pc, q⟩ := p
  have hp' : pc = .s0 ∨ pc = .s1 ∨ pc = .s2 ∨ pc = .s3 := by simpa [placed] using hp
  cases posts with
  | nil => simp [nextPost]
  | cons a rest =>
    cases rest with
    | nil => simp [nextPost, pend, hp]
    | cons b r =>
      obtain ⟨k, e⟩ := b
      cases k <;> simp [nextPost, pend, hp', startPc, placed]

/-- one primitive of a poster program moves events between "pending", the deque and "displaced"
without creating or losing any -/
theorem posterStep_count (c : Config) (sh sh' : Shared) (p p' : Poster) (lbl : String)
    (halg : c.alg = .tokenAfter) (hcap : 0 < c.cap) (hpc : pcOk p)
    (h : posterStep c sh p = some (sh', p', lbl)) (a : Ev) :
    (pend p).count a + sh.dq.count a + sh.displaced.count a =
      (pend p').count a + sh'.dq.count a + sh'.displaced.count a := by
  obtain ⟨posts, pc, q⟩ := p
  obtain ⟨h1, h2, h3, h4⟩ := hpc
  simp only at h1 h2 h3 h4
  cases posts with
  | nil => simp [posterStep] at h
  | cons x rest =>
    obtain ⟨k, e⟩ := x
    have ha := dqAppend_count c.cap sh.dq e a hcap
    have hl := dqAppendLeft_count c.cap sh.dq e a
    have hr := dqRotate_count sh.dq a
    cases pc <;> simp only [posterStep, halg] at h <;> try contradiction
    all_goals (try split at h)
    all_goals (simp only [Option.some.injEq, Prod.mk.injEq] at h; obtain ⟨rfl, rfl, -⟩ := h)
    all_goals (try rw [pend_nextPost _ (by simp [placed])])
    all_goals (simp [pend, placed, List.count_append, List.count_cons] at ha hl hr ⊢)
    all_goals omega

/-! ### the conservation invariant -/

theorem selfCreated_append (c : Config) (n : Nat) (l : List Ev) (e : Ev) :
    selfCreated c n (l ++ [e]) = selfCreated c n l ++
      (mkInline c (n + (selfCreated c n l).length) (c.selfPosts e.sig)).posts.map (·.2) := by
  induction l generalizing n with
  | nil => simp [selfCreated]
  | cons a t ih =>
    simp only [List.cons_append, selfCreated, ih, List.append_assoc, List.length_append, List.length_map,
      Nat.add_assoc]

theorem count_pending (s : State) (a : Ev) :
    (pendingEvents s).count a = (s.posters.map (fun p => (pend p).count a)).sum + (pend s.inline).count a := by
  simp [pendingEvents, List.count_append, List.count_flatten, Function.comp_def]

structure Cons (c : Config) (progs : List (List (Kind × Ev))) (s : State) : Prop where
  count : ∀ a, (allEvents c progs s).count a =
    (pendingEvents s).count a + s.dq.count a + s.dispatched.count a + s.displaced.count a
  next : s.nextSelf = 900000 + (selfEventsCreated c s).length

theorem Cons.init {c : Config} {progs : List (List (Kind × Ev))} (halg : c.alg = .tokenAfter) :
    Cons c progs (init c progs) := by
  constructor
  · intro a
    have : pendingEvents (LD.init c progs) = progs.flatten.map (·.2) := by
      simp only [pendingEvents, LD.init, List.map_map, List.map_flatten]
      have hpe : pend ({ posts := [], pc := PPc.a0, q := 0 } : Poster) = [] := by simp [pend]
      rw [hpe, List.append_nil]
      congr 1
      apply List.map_congr_left
      intro pr _
      cases pr with
      | nil => simp [pend]
      | cons x r => obtain ⟨k, e⟩ := x; cases k <;> simp [pend, placed, startPc, halg]
    rw [this]
    simp [allEvents, selfEventsCreated, LD.init, selfCreated]
  · simp [selfEventsCreated, LD.init, selfCreated]

theorem Cons.posterStep {c : Config} {progs : List (List (Kind × Ev))} {s s' : State} {i : Nat}
    {lbl : String} (halg : c.alg = .tokenAfter) (hcap : 0 < c.cap) (hi : Inv c s) (hc : Cons c progs s)
    (h : stepL c s (i + 1) = some (s', lbl)) : Cons c progs s' := by
  obtain ⟨p, sh, p', hp, hs, rfl⟩ := stepL_poster h
  have hmem : p ∈ s.posters := List.mem_of_getElem? hp
  constructor
  · intro a
    have h1 := posterStep_count c (shared s) sh p p' lbl halg hcap (hi.ppc p hmem) hs a
    have h2 := sum_map_set (fun p => (pend p).count a) s.posters i p p' hp
    have h3 := hc.count a
    rw [count_pending] at h3 ⊢
    simp only [shared] at h1
    show (allEvents c progs s).count a = _
    simp only [State.withShared]
    omega
  · exact hc.next

theorem Cons.congr {c : Config} {progs : List (List (Kind × Ev))} {s s' : State} (hc : Cons c progs s)
    (h1 : s'.dq = s.dq) (h2 : s'.posters = s.posters) (h3 : s'.inline = s.inline)
    (h4 : s'.dispatched = s.dispatched) (h5 : s'.displaced = s.displaced) (h6 : s'.nextSelf = s.nextSelf) :
    Cons c progs s' := by
  constructor
  · intro a
    have := hc.count a
    simp only [allEvents, selfEventsCreated, pendingEvents, h1, h2, h3, h4, h5] at this ⊢
    exact this
  · have := hc.next
    simp only [selfEventsCreated, h4, h6] at this ⊢
    exact this

theorem pend_mkInline (c : Config) (n : Nat) (l : List (Kind × Nat)) (halg : c.alg = .tokenAfter) :
    pend (mkInline c n l) = (mkInline c n l).posts.map (·.2) := by
  unfold mkInline
  simp only []
  split
  · simp [pend]
  · rename_i k _ _ _
    cases k <;> simp [pend, placed, startPc, halg]

theorem Cons.consumerStep {c : Config} {progs : List (List (Kind × Ev))} {s s' : State} {lbl : String}
    (halg : c.alg = .tokenAfter) (hcap : 0 < c.cap) (hi : Inv c s) (hc : Cons c progs s)
    (h : consumerStep c s = some (s', lbl)) : Cons c progs s' := by
  cases hpc : s.cpc <;> simp only [LD.consumerStep, hpc] at h
  case fin => simp at h
  case r1 =>
    split at h
    · simp only [Option.some.injEq, Prod.mk.injEq] at h
      obtain ⟨rfl, -⟩ := h
      exact hc.congr rfl rfl rfl rfl rfl rfl
    · rename_i e rest hdq
      have hin : pend s.inline = [] := pend_nil _ (hi.inlN (by simp [hpc]))
      have hnext := hc.next
      have hcnt := hc.count
      have hpm := pend_mkInline c s.nextSelf (c.selfPosts e.sig) halg
      have key : ∀ s1 : State, s1.dq = rest → s1.posters = s.posters →
          s1.inline = mkInline c s.nextSelf (c.selfPosts e.sig) →
          s1.dispatched = s.dispatched ++ [e] → s1.displaced = s.displaced →
          s1.nextSelf = s.nextSelf + (mkInline c s.nextSelf (c.selfPosts e.sig)).posts.length →
          Cons c progs s1 := by
        intro s1 h1 h2 h3 h4 h5 h6
        have hsc : selfEventsCreated c s1 = selfEventsCreated c s ++
            (mkInline c s.nextSelf (c.selfPosts e.sig)).posts.map (·.2) := by
          simp only [selfEventsCreated, h4, selfCreated_append]
          simp only [selfEventsCreated] at hnext
          rw [← hnext]
        constructor
        · intro a
          have := hcnt a
          rw [count_pending] at this ⊢
          simp only [allEvents, hsc, h1, h2, h3, h4, h5, hpm, hin, hdq, List.count_append,
            List.count_cons, List.count_nil] at this ⊢
          omega
        · rw [hsc, h6, hnext]; simp; omega
      split at h <;>
      · simp only [Option.some.injEq, Prod.mk.injEq] at h
        obtain ⟨rfl, -⟩ := h
        exact key _ rfl rfl rfl rfl rfl rfl
  case h =>
    cases hps : LD.posterStep c (shared s) s.inline with
    | none => simp [hps] at h
    | some r =>
      obtain ⟨sh, p, l⟩ := r
      have key : ∀ s1 : State, s1.dq = sh.dq → s1.posters = s.posters → s1.inline = p →
          s1.dispatched = s.dispatched → s1.displaced = sh.displaced → s1.nextSelf = s.nextSelf →
          Cons c progs s1 := by
        intro s1 h1 h2 h3 h4 h5 h6
        constructor
        · intro a
          have hh := posterStep_count c (shared s) sh s.inline p l halg hcap hi.ipc hps a
          have := hc.count a
          rw [count_pending] at this ⊢
          simp only [allEvents, selfEventsCreated, h1, h2, h3, h4, h5, shared] at this hh ⊢
          omega
        · have := hc.next
          simp only [selfEventsCreated, h4, h6] at this ⊢
          exact this
      simp only [hps] at h
      split at h <;>
      · simp only [Option.some.injEq, Prod.mk.injEq] at h
        obtain ⟨rfl, -⟩ := h
        exact key _ rfl rfl rfl rfl rfl rfl
  all_goals
    first
    | (simp only [Option.some.injEq, Prod.mk.injEq] at h
       obtain ⟨rfl, -⟩ := h
       exact hc.congr rfl rfl rfl rfl rfl rfl)
    | (split at h <;>
       · simp only [Option.some.injEq, Prod.mk.injEq] at h
         obtain ⟨rfl, -⟩ := h
         exact hc.congr rfl rfl rfl rfl rfl rfl)
    | (split at h
       · simp only [Option.some.injEq, Prod.mk.injEq] at h
         obtain ⟨rfl, -⟩ := h
         exact hc.congr rfl rfl rfl rfl rfl rfl
       · split at h <;>
         · simp only [Option.some.injEq, Prod.mk.injEq] at h
           obtain ⟨rfl, -⟩ := h
           exact hc.congr rfl rfl rfl rfl rfl rfl)
    | (split at h
       · simp at h
       · simp only [Option.some.injEq, Prod.mk.injEq] at h
         obtain ⟨rfl, -⟩ := h
         exact hc.congr rfl rfl rfl rfl rfl rfl)

theorem Cons.step {c : Config} {progs : List (List (Kind × Ev))} (g : Good c progs) {s s' : State} {t : Nat}
    (hi : Inv c s) (hc : Cons c progs s) (h : (sys c).step s t = some s') : Cons c progs s' := by
  simp only [sys, Option.map_eq_some_iff] at h
  obtain ⟨⟨s1, lbl⟩, h, rfl⟩ := h
  cases t with
  | zero => exact hc.consumerStep g.tokenAfter g.cap hi h
  | succ i => exact hc.posterStep g.tokenAfter g.cap hi h

theorem Cons.ofRun {c : Config} {progs : List (List (Kind × Ev))} (g : Good c progs) (sched : List Nat) :
    Cons c progs ((sys c).run (LD.init c progs) sched) := by
  have := (sys c).inv_run (fun s => Inv c s ∧ Cons c progs s)
    (fun _ _ _ hi h => ⟨hi.1.step g h, hi.2.step g hi.1 h⟩) sched _ ⟨Inv.init g, Cons.init g.tokenAfter⟩
  exact this.2

theorem Cons.perm {c : Config} {progs : List (List (Kind × Ev))} {s : State} (hc : Cons c progs s) :
    (allEvents c progs s).Perm (pendingEvents s ++ s.dq ++ s.dispatched ++ s.displaced) := by
  rw [List.perm_iff_count]
  intro a
  rw [hc.count a]
  simp only [List.count_append]

/-! ### identities of the consumer's own events -/

theorem selfCreated_uids (c : Config) (n : Nat) (l : List Ev) :
    (selfCreated c n l).map Ev.uid = List.range' n (selfCreated c n l).length := by
  induction l generalizing n with
  | nil => simp [selfCreated]
  | cons e t ih =>
    simp only [selfCreated, List.map_append, List.length_append, List.length_map, ih]
    have := inlPosts_uid n (c.selfPosts e.sig)
    rw [← mkInline_posts c] at this
    rw [List.map_map]
    have h2 : (Ev.uid ∘ fun x : Kind × Ev => x.2) = fun x => x.2.uid := rfl
    rw [h2, this, mkInline_posts, inlPosts_length]
    exact (List.range'_append_1 ..)

theorem allEvents_uids_nodup {c : Config} {progs : List (List (Kind × Ev))} (g : Good c progs) (s : State) :
    ((allEvents c progs s).map Ev.uid).Nodup := by
  simp only [allEvents, selfEventsCreated, List.map_append, selfCreated_uids]
  rw [List.nodup_append]
  refine ⟨?_, List.nodup_range' .., ?_⟩
  · have := g.uidsNodup
    simpa [List.map_map, Function.comp_def] using this
  · intro a ha b hb
    simp only [List.map_map, List.mem_map, List.mem_flatten, Function.comp] at ha
    obtain ⟨x, ⟨pr, hpr, hx⟩, rfl⟩ := ha
    have h1 := g.uidsSmall pr hpr x hx
    rw [List.mem_range'_1] at hb
    omega

theorem dispatched_uids_nodup {c : Config} {progs : List (List (Kind × Ev))} (g : Good c progs) {s : State}
    (hc : Cons c progs s) : (s.dispatched.map Ev.uid).Nodup := by
  have h1 := allEvents_uids_nodup g s
  have h2 := (hc.perm.map Ev.uid).nodup_iff.mp h1
  simp only [List.map_append] at h2
  have : (s.dispatched.map Ev.uid).Sublist
      (((pendingEvents s).map Ev.uid ++ s.dq.map Ev.uid ++ s.dispatched.map Ev.uid) ++
        s.displaced.map Ev.uid) :=
    (List.sublist_append_right _ _).trans (List.sublist_append_left _ _)
  exact h2.sublist this

/-! ### displacement happens only on overflow -/

theorem posterStep_displaced (c : Config) (sh sh' : Shared) (p p' : Poster) (lbl : String)
    (halg : c.alg = .tokenAfter) (hpc : pcOk p)
    (h : posterStep c sh p = some (sh', p', lbl)) :
    sh'.displaced = sh.displaced ∨ (c.cap ≤ sh.dq.length ∧ pend p ≠ []) := by
  obtain ⟨posts, pc, q⟩ := p
  obtain ⟨h1, h2, h3, h4⟩ := hpc
  simp only at h1 h2 h3 h4
  cases posts with
  | nil => simp [posterStep] at h
  | cons x rest =>
    obtain ⟨k, e⟩ := x
    cases pc <;> simp only [posterStep, halg] at h <;> try contradiction
    all_goals (try split at h)
    all_goals (simp only [Option.some.injEq, Prod.mk.injEq] at h; obtain ⟨rfl, rfl, -⟩ := h)
    all_goals first
      | (left; rfl)
      | (by_cases hf : sh.dq.length < c.cap
         · left; simp [dqAppend, dqAppendLeft, hf]
         · right; exact ⟨by omega, by simp [pend, placed]⟩)

theorem mem_pending_of_poster {s : State} {p : Poster} (hp : p ∈ s.posters) (hne : pend p ≠ []) :
    pendingEvents s ≠ [] := by
  obtain ⟨e, he⟩ := List.exists_mem_of_ne_nil _ hne
  have : e ∈ pendingEvents s := by
    simp only [pendingEvents, List.mem_append, List.mem_flatten, List.mem_map]
    exact Or.inl ⟨pend p, ⟨p, hp, rfl⟩, he⟩
  intro h; rw [h] at this; simp at this

theorem step_displaced {c : Config} {s s' : State} {t : Nat} {lbl : String}
    (halg : c.alg = .tokenAfter) (hi : Inv c s) (h : stepL c s t = some (s', lbl)) :
    s'.displaced = s.displaced ∨ (c.cap ≤ s.dq.length ∧ pendingEvents s ≠ []) := by
  cases t with
  | succ i =>
    obtain ⟨p, sh, p', hp, hs, rfl⟩ := stepL_poster h
    have hmem : p ∈ s.posters := List.mem_of_getElem? hp
    rcases posterStep_displaced c (shared s) sh p p' lbl halg (hi.ppc p hmem) hs with h1 | ⟨h1, h2⟩
    · left; exact h1
    · right; exact ⟨h1, mem_pending_of_poster hmem h2⟩
  | zero =>
    simp only [stepL] at h
    cases hpc : s.cpc <;> simp only [LD.consumerStep, hpc] at h
    case fin => simp at h
    case h =>
      cases hps : LD.posterStep c (shared s) s.inline with
      | none => simp [hps] at h
      | some r =>
        obtain ⟨sh, p, l⟩ := r
        rcases posterStep_displaced c (shared s) sh s.inline p l halg hi.ipc hps with h1 | ⟨h1, h2⟩
        · left
          simp only [hps] at h
          split at h <;>
          · simp only [Option.some.injEq, Prod.mk.injEq] at h
            obtain ⟨rfl, -⟩ := h
            exact h1
        · right
          refine ⟨h1, ?_⟩
          intro h0
          simp only [pendingEvents, List.append_eq_nil_iff] at h0
          exact h2 h0.2
    all_goals
      left
      first
      | (simp only [Option.some.injEq, Prod.mk.injEq] at h
         obtain ⟨rfl, -⟩ := h
         rfl)
      | (split at h <;>
         · simp only [Option.some.injEq, Prod.mk.injEq] at h
           obtain ⟨rfl, -⟩ := h
           rfl)
      | (split at h
         · simp only [Option.some.injEq, Prod.mk.injEq] at h
           obtain ⟨rfl, -⟩ := h
           rfl
         · split at h <;>
           · simp only [Option.some.injEq, Prod.mk.injEq] at h
             obtain ⟨rfl, -⟩ := h
             rfl)
      | (split at h
         · simp at h
         · simp only [Option.some.injEq, Prod.mk.injEq] at h
           obtain ⟨rfl, -⟩ := h
           rfl)

/-! ### no self posts, no overflow -/

theorem selfCreated_noSelf (c : Config) (hs : c.selfPosts = fun _ => []) (n : Nat) (l : List Ev) :
    selfCreated c n l = [] := by
  induction l generalizing n with
  | nil => rfl
  | cons e t ih =>
    have : c.selfPosts e.sig = [] := by rw [hs]
    simp [selfCreated, this, mkInline, ih]

theorem noOverflow_step {c : Config} {progs : List (List (Kind × Ev))} (g : Good c progs)
    (hs : c.selfPosts = fun _ => []) (htot : progs.flatten.length ≤ c.cap) {s s' : State} {t : Nat}
    (hi : Inv c s) (hc : Cons c progs s) (hd : s.displaced = [])
    (h : (sys c).step s t = some s') : s'.displaced = [] := by
  simp only [sys, Option.map_eq_some_iff] at h
  obtain ⟨⟨s1, lbl⟩, h, rfl⟩ := h
  rcases step_displaced g.tokenAfter hi h with h1 | ⟨h1, h2⟩
  · rw [h1, hd]
  · exfalso
    have hl := hc.perm.length_eq
    simp only [allEvents, selfEventsCreated, selfCreated_noSelf c hs, List.length_append, List.length_map,
      List.length_nil] at hl
    have : 0 < (pendingEvents s).length := List.length_pos_iff.mpr h2
    omega

theorem noOverflow_run {c : Config} {progs : List (List (Kind × Ev))} (g : Good c progs)
    (hs : c.selfPosts = fun _ => []) (htot : progs.flatten.length ≤ c.cap) (sched : List Nat) :
    ((sys c).run (LD.init c progs) sched).displaced = [] := by
  have := (sys c).inv_run (fun s => Inv c s ∧ Cons c progs s ∧ s.displaced = [])
    (fun _ _ _ hi h => ⟨hi.1.step g h, hi.2.1.step g hi.1 h, noOverflow_step g hs htot hi.1 hi.2.1 hi.2.2 h⟩)
    sched _ ⟨Inv.init g, Cons.init g.tokenAfter, rfl⟩
  exact this.2.2

/-! ### corollaries used by C04 -/

theorem Cons.selfUids {c : Config} {progs : List (List (Kind × Ev))} {s : State} (hc : Cons c progs s) :
    (selfEventsCreated c s).map Ev.uid = List.range' 900000 (s.nextSelf - 900000) := by
  have h1 := hc.next
  simp only [selfEventsCreated] at h1 ⊢
  have h2 : s.nextSelf - 900000 = (selfCreated c 900000 s.dispatched).length := by omega
  rw [h2]
  exact selfCreated_uids c 900000 s.dispatched

theorem places_uids_nodup {c : Config} {progs : List (List (Kind × Ev))} (g : Good c progs) {s : State}
    (hc : Cons c progs s) :
    ((pendingEvents s ++ s.dq ++ s.dispatched ++ s.displaced).map Ev.uid).Nodup :=
  (hc.perm.map Ev.uid).nodup_iff.mp (allEvents_uids_nodup g s)

theorem pendingEvents_done {s : State} (h : postersDone s) : pendingEvents s = [] := by
  obtain ⟨h1, h2⟩ := h
  simp only [pendingEvents, pend_nil _ h2, List.append_nil, List.flatten_eq_nil_iff, List.mem_map]
  rintro l ⟨p, hp, rfl⟩
  exact pend_nil _ (h1 p hp)

theorem quiescent_perm {c : Config} {progs : List (List (Kind × Ev))} {s : State}
    (halg : c.alg = .tokenAfter) (hi : Inv c s) (hc : Cons c progs s) (hq : (sys c).Quiescent s) :
    (allEvents c progs s).Perm (s.dispatched ++ s.displaced) := by
  obtain ⟨h1, h2, _, _⟩ := quiescent_facts halg hi hq
  have := hc.perm
  rw [pendingEvents_done h2, h1] at this
  simpa using this

end Miros.Conc.LD
