import MirosModel.Conc.FabricLemmas
/-!
# System-level lemmas about the active-fabric model: step analysis, frames, invariants
-/
namespace Miros.Conc.Fab

/-- case analysis of a `clientStep` hypothesis: one goal per branch, result components substituted -/
macro "client_cases " h:ident : tactic => `(tactic| (
  unfold clientStep at $h:ident
  repeat' split at $h:ident
  all_goals (try simp only [Option.some.injEq, Prod.mk.injEq, reduceCtorEq] at $h:ident)
  all_goals (repeat' split at $h:ident)
  all_goals (try simp only [Option.some.injEq, Prod.mk.injEq, reduceCtorEq] at $h:ident)
  all_goals (try (obtain ⟨h1, h2, h3⟩ := $h:ident; subst h1 h2 h3))))

macro "thr_cases " h:ident th:ident k:ident : tactic => `(tactic| (
  obtain ⟨pc, gen⟩ := $th:ident
  cases pc <;> cases $k:ident <;> simp only [thrStep] at $h:ident
  all_goals (repeat' split at $h:ident)
  all_goals (try simp only [Option.some.injEq, Prod.mk.injEq, reduceCtorEq] at $h:ident)
  all_goals (try (obtain ⟨h1, h2, h3⟩ := $h:ident; subst h1 h2 h3))))

/-! ### `start` -/

/-- `start()` with the handles kept: live threads stay, dead / absent ones are replaced -/
theorem doStart_keep {t : Tags} (ht : t.startKeepsHandles = true) (s : State) :
    doStart t s = { s with flag := true,
                           thrF := if alive s.thrF then s.thrF else some ⟨.b, 0⟩,
                           thrL := if alive s.thrL then s.thrL else some ⟨.b, 0⟩ } := by
  unfold doStart
  by_cases hf : alive s.thrF <;> by_cases hl : alive s.thrL <;> simp [ht, hf, hl]

theorem doStart_frame (t : Tags) (s : State) :
    (doStart t s).fq = s.fq ∧ (doStart t s).lq = s.lq ∧ (doStart t s).nextSeq = s.nextSeq ∧
    (doStart t s).clients = s.clients ∧ (doStart t s).regF = s.regF ∧ (doStart t s).regL = s.regL ∧
    (doStart t s).subs = s.subs ∧ (doStart t s).flag = true ∧ (doStart t s).unfF = s.unfF ∧
    (doStart t s).unfL = s.unfL ∧ (doStart t s).err = s.err := by
  unfold doStart
  by_cases hf : alive s.thrF <;> by_cases hl : alive s.thrL <;> cases hk : t.startKeepsHandles <;>
    simp [hf, hl] <;> (repeat' split) <;> simp

/-! ### step analysis -/

theorem sys_step_cases {t : Tags} {s s' : State} {tid : Nat} (h : (sys t).step s tid = some s') :
    (tid = 0 ∧ ∃ th th' s1 lbl, s.thrF = some th ∧ thrStep t .fifo s th = some (th', s1, lbl) ∧
        s' = { s1 with thrF := some th' }) ∨
    (tid = 1 ∧ ∃ th th' s1 lbl, s.thrL = some th ∧ thrStep t .lifo s th = some (th', s1, lbl) ∧
        s' = { s1 with thrL := some th' }) ∨
    (100 ≤ tid ∧ ∃ k th th' s1 lbl, s.zombies[tid - 100]? = some (k, th) ∧
        thrStep t k s th = some (th', s1, lbl) ∧
        s' = { s1 with zombies := s1.zombies.set (tid - 100) (k, th') }) ∨
    (2 ≤ tid ∧ tid < 100 ∧ ∃ c c' s1 lbl, s.clients[tid - 2]? = some c ∧
        clientStep t s c = some (c', s1, lbl) ∧
        s' = { s1 with clients := s1.clients.set (tid - 2) c' }) := by
  simp only [sys, stepL, Option.map_eq_some_iff] at h
  obtain ⟨⟨s2, lbl⟩, h, rfl⟩ := h
  by_cases h0 : tid = 0
  · left
    simp only [h0, if_true] at h
    cases hF : s.thrF with
    | none => simp [hF] at h
    | some th =>
      simp only [hF] at h
      cases hs : thrStep t .fifo s th with
      | none => simp [hs] at h
      | some r =>
        obtain ⟨th', s1, lbl'⟩ := r
        simp only [hs, Option.some.injEq, Prod.mk.injEq] at h
        exact ⟨h0, th, th', s1, lbl', rfl, hs, h.1.symm⟩
  · by_cases h1 : tid = 1
    · right; left
      simp only [h1, if_true] at h
      simp only [show ¬ (1 = 0) by decide, if_false] at h
      cases hL : s.thrL with
      | none => simp [hL] at h
      | some th =>
        simp only [hL] at h
        cases hs : thrStep t .lifo s th with
        | none => simp [hs] at h
        | some r =>
          obtain ⟨th', s1, lbl'⟩ := r
          simp only [hs, Option.some.injEq, Prod.mk.injEq] at h
          exact ⟨h1, th, th', s1, lbl', rfl, hs, h.1.symm⟩
    · simp only [h0, h1, if_false] at h
      by_cases h2 : tid ≥ 100
      · right; right; left
        simp only [h2, if_true] at h
        cases hz : s.zombies[tid - 100]? with
        | none => simp [hz] at h
        | some kz =>
          obtain ⟨k, th⟩ := kz
          simp only [hz] at h
          cases hs : thrStep t k s th with
          | none => simp [hs] at h
          | some r =>
            obtain ⟨th', s1, lbl'⟩ := r
            simp only [hs, Option.some.injEq, Prod.mk.injEq] at h
            exact ⟨h2, k, th, th', s1, lbl', rfl, hs, h.1.symm⟩
      · right; right; right
        simp only [h2, if_false] at h
        cases hc : s.clients[tid - 2]? with
        | none => simp [hc] at h
        | some c =>
          simp only [hc] at h
          cases hs : clientStep t s c with
          | none => simp [hs] at h
          | some r =>
            obtain ⟨c', s1, lbl'⟩ := r
            simp only [hs, Option.some.injEq, Prod.mk.injEq] at h
            exact ⟨by omega, by omega, c, c', s1, lbl', rfl, hs, h.1.symm⟩


/-- what a delivery-thread step leaves alone -/
theorem thrStep_frame {t : Tags} {k : Kind} {s s1 : State} {th th' : Thr} {lbl : String}
    (h : thrStep t k s th = some (th', s1, lbl)) :
    s1.regF = s.regF ∧ s1.regL = s.regL ∧ s1.flag = s.flag ∧ s1.nextSeq = s.nextSeq ∧
    s1.thrF = s.thrF ∧ s1.thrL = s.thrL ∧ s1.zombies = s.zombies ∧ s1.clients = s.clients ∧
    s1.fq.Sublist s.fq ∧ s1.lq.Sublist s.lq ∧ th'.gen = th.gen ∧ (th'.pc = .b → False) := by
  thr_cases h th k
  all_goals simp [List.erase_sublist]

theorem thrStep_alive {t : Tags} {k : Kind} {s s1 : State} {th th' : Thr} {lbl : String}
    (h : thrStep t k s th = some (th', s1, lbl)) : th.pc ≠ .fin := by
  intro hp
  simp [thrStep, hp] at h

theorem clientStep_zombies {t : Tags} (ht : t.startKeepsHandles = true) {s s1 : State} {c c' : Client}
    {lbl : String} (h : clientStep t s c = some (c', s1, lbl)) : s1.zombies = s.zombies := by
  client_cases h
  all_goals (try rfl)
  simp [doStart_keep ht]

/-! ### no zombies when `start` keeps the handles -/

theorem zombies_nil_step {t : Tags} (ht : t.startKeepsHandles = true) {s s' : State} {tid : Nat}
    (hz : s.zombies = []) (h : (sys t).step s tid = some s') : s'.zombies = [] := by
  rcases sys_step_cases h with ⟨_, th, th', s1, lbl, _, hs, rfl⟩ | ⟨_, th, th', s1, lbl, _, hs, rfl⟩ |
    ⟨_, k, th, th', s1, lbl, hk, _, _⟩ | ⟨_, _, c, c', s1, lbl, _, hs, rfl⟩
  · simpa [(thrStep_frame hs).2.2.2.2.2.2.1] using hz
  · simpa [(thrStep_frame hs).2.2.2.2.2.2.1] using hz
  · simp [hz] at hk
  · simpa [clientStep_zombies ht hs] using hz

theorem zombies_nil_run {t : Tags} (ht : t.startKeepsHandles = true) (s : State) (hz : s.zombies = [])
    (sched : List Nat) : ((sys t).run s sched).zombies = [] :=
  (sys t).inv_run (fun s => s.zombies = []) (fun _ _ _ hz h => zombies_nil_step ht hz h) sched s hz

/-! ### sequence numbers -/

/-- the `FE` a client is about to put into the fifo fabric queue -/
def pendF (c : Client) : List FE :=
  match c.pc with
  | .putF fe => [fe]
  | .stopPutF fe => [fe]
  | _ => []

/-- the `FE` a client is about to put into the lifo fabric queue -/
def pendL (c : Client) : List FE :=
  match c.pc with
  | .putL fe _ _ _ => [fe]
  | .stopPutL fe => [fe]
  | _ => []

/-- pairwise distinct sequence numbers, all below `n` -/
def NodupLt (L : List FE) (n : Nat) : Prop := (L.map (·.seq)).Nodup ∧ ∀ x ∈ L, x.seq < n

theorem NodupLt.perm {L L' : List FE} {n : Nat} (h : NodupLt L n) (p : L.Perm L') : NodupLt L' n :=
  ⟨(p.map _).nodup_iff.1 h.1, fun x hx => h.2 x (p.mem_iff.2 hx)⟩

theorem NodupLt.sublist {L L' : List FE} {n : Nat} (h : NodupLt L n) (p : L'.Sublist L) : NodupLt L' n :=
  ⟨List.Nodup.sublist (p.map _) h.1, fun x hx => h.2 x (p.mem hx)⟩

theorem NodupLt.mono {L : List FE} {n n' : Nat} (h : NodupLt L n) (hn : n ≤ n') : NodupLt L n' :=
  ⟨h.1, fun x hx => Nat.lt_of_lt_of_le (h.2 x hx) hn⟩

theorem NodupLt.fresh {L : List FE} {n : Nat} (h : NodupLt L n) (p : Nat) (e : Option PEv) :
    NodupLt (⟨p, n, e⟩ :: L) (n + 1) := by
  refine ⟨?_, ?_⟩
  · simp only [List.map_cons, List.nodup_cons, List.mem_map]
    refine ⟨?_, h.1⟩
    rintro ⟨x, hx, e⟩
    have := h.2 x hx
    omega
  · intro x hx
    simp only [List.mem_cons] at hx
    rcases hx with rfl | hx
    · simp
    · have := h.2 x hx; omega

theorem NodupLt.fresh_mid {A B : List FE} {n : Nat} (h : NodupLt (A ++ B) n) (p : Nat) (e : Option PEv) :
    NodupLt (A ++ ⟨p, n, e⟩ :: B) (n + 1) :=
  (h.fresh p e).perm List.perm_middle.symm

theorem NodupLt.erase_left {A B : List FE} {n : Nat} (h : NodupLt (A ++ B) n) (x : FE) :
    NodupLt (A.erase x ++ B) n :=
  h.sublist (List.erase_sublist.append_right _)

theorem NodupLt.drop_left {A B : List FE} {n : Nat} (h : NodupLt (A ++ B) n) : NodupLt B n :=
  h.sublist (List.sublist_append_right _ _)

theorem flatMap_set_perm {α β : Type} (f : α → List β) (l : List α) (i : Nat) (c c' : α)
    (h : l[i]? = some c) :
    ∃ rest, (l.flatMap f).Perm (f c ++ rest) ∧ ((l.set i c').flatMap f).Perm (f c' ++ rest) := by
  induction l generalizing i with
  | nil => simp at h
  | cons x l ih =>
    cases i with
    | zero =>
      simp only [List.getElem?_cons_zero, Option.some.injEq] at h
      subst h
      exact ⟨l.flatMap f, by simp, by simp⟩
    | succ i =>
      simp only [List.getElem?_cons_succ] at h
      obtain ⟨rest, h1, h2⟩ := ih i h
      refine ⟨f x ++ rest, ?_, ?_⟩
      · simp only [List.flatMap_cons]
        exact (h1.append_left (f x)).trans (List.perm_append_comm_assoc _ _ _)
      · simp only [List.set_cons_succ, List.flatMap_cons]
        exact (h2.append_left (f x)).trans (List.perm_append_comm_assoc _ _ _)

/-- all sequence numbers in flight towards one fabric queue (queued, or in the hands of a
publisher / stopper about to `put`) are pairwise distinct and have been allocated -/
def SeqInv (s : State) : Prop :=
  NodupLt (s.fq ++ s.clients.flatMap pendF) s.nextSeq ∧
  NodupLt (s.lq ++ s.clients.flatMap pendL) s.nextSeq

theorem clientStep_seq {t : Tags} {s s1 : State} {c c' : Client} {lbl : String}
    (h : clientStep t s c = some (c', s1, lbl)) (rest : List FE) :
    s.nextSeq ≤ s1.nextSeq ∧ s1.clients = s.clients ∧
    (NodupLt (s.fq ++ (pendF c ++ rest)) s.nextSeq → NodupLt (s1.fq ++ (pendF c' ++ rest)) s1.nextSeq) ∧
    (NodupLt (s.lq ++ (pendL c ++ rest)) s.nextSeq → NodupLt (s1.lq ++ (pendL c' ++ rest)) s1.nextSeq) := by
  client_cases h
  all_goals simp only [pendF, pendL, finishCall, doStart_frame, *]
  all_goals simp only [List.nil_append, List.append_assoc, List.cons_append]
  all_goals refine ⟨by omega, by trivial, fun h => ?_, fun h => ?_⟩
  all_goals first
    | exact h
    | exact h.mono (by omega)
    | exact h.fresh_mid _ _
    | exact h.erase_left _
    | exact h.drop_left

theorem SeqInv_step {t : Tags} {s s' : State} {tid : Nat} (hi : SeqInv s)
    (h : (sys t).step s tid = some s') : SeqInv s' ∧ s.nextSeq ≤ s'.nextSeq := by
  have thr : ∀ {k th th' s1 lbl}, thrStep t k s th = some (th', s1, lbl) →
      NodupLt (s1.fq ++ s1.clients.flatMap pendF) s1.nextSeq ∧
      NodupLt (s1.lq ++ s1.clients.flatMap pendL) s1.nextSeq ∧ s.nextSeq ≤ s1.nextSeq := by
    intro k th th' s1 lbl hs
    obtain ⟨_, _, _, hn, _, _, _, hc, hf, hl, _⟩ := thrStep_frame hs
    rw [hn, hc]
    exact ⟨hi.1.sublist (hf.append_right _), hi.2.sublist (hl.append_right _), Nat.le_refl _⟩
  rcases sys_step_cases h with ⟨_, th, th', s1, lbl, _, hs, rfl⟩ | ⟨_, th, th', s1, lbl, _, hs, rfl⟩ |
    ⟨_, k, th, th', s1, lbl, _, hs, rfl⟩ | ⟨_, _, c, c', s1, lbl, hc, hs, rfl⟩
  · exact ⟨⟨(thr hs).1, (thr hs).2.1⟩, (thr hs).2.2⟩
  · exact ⟨⟨(thr hs).1, (thr hs).2.1⟩, (thr hs).2.2⟩
  · exact ⟨⟨(thr hs).1, (thr hs).2.1⟩, (thr hs).2.2⟩
  · obtain ⟨rF, pF1, pF2⟩ := flatMap_set_perm pendF s.clients (tid - 2) c c' hc
    obtain ⟨rL, pL1, pL2⟩ := flatMap_set_perm pendL s.clients (tid - 2) c c' hc
    obtain ⟨hn, hcl, hF, _⟩ := clientStep_seq hs rF
    obtain ⟨_, _, _, hL⟩ := clientStep_seq hs rL
    refine ⟨⟨?_, ?_⟩, hn⟩
    · simp only [hcl]
      exact (hF (hi.1.perm (pF1.append_left _))).perm (pF2.append_left _).symm
    · simp only [hcl]
      exact (hL (hi.2.perm (pL1.append_left _))).perm (pL2.append_left _).symm

theorem flatMap_init_pend (f : Client → List FE) (hf : ∀ c, c.pc = .call → f c = [])
    (progs : List (List Call)) :
    (progs.map fun p => (⟨p, .call, []⟩ : Client)).flatMap f = [] := by
  induction progs with
  | nil => rfl
  | cons p ps ih => simp [List.flatMap_cons, ih, hf]

theorem SeqInv_init (subs : List SubQ) (progs : List (List Call)) : SeqInv (init subs progs) := by
  have hF := flatMap_init_pend pendF (fun c h => by simp [pendF, h]) progs
  have hL := flatMap_init_pend pendL (fun c h => by simp [pendL, h]) progs
  simp [SeqInv, init, hF, hL, NodupLt]

theorem SeqInv_run {t : Tags} (s : State) (hi : SeqInv s) (sched : List Nat) :
    SeqInv ((sys t).run s sched) :=
  (sys t).inv_run SeqInv (fun _ _ _ hi h => (SeqInv_step hi h).1) sched s hi

/-- the sequence counter never decreases -/
theorem nextSeq_mono_step {t : Tags} {s s' : State} {tid : Nat}
    (h : (sys t).step s tid = some s') : s.nextSeq ≤ s'.nextSeq := by
  rcases sys_step_cases h with ⟨_, th, th', s1, lbl, _, hs, rfl⟩ | ⟨_, th, th', s1, lbl, _, hs, rfl⟩ |
    ⟨_, k, th, th', s1, lbl, _, hs, rfl⟩ | ⟨_, _, c, c', s1, lbl, hc, hs, rfl⟩
  · simp [(thrStep_frame hs).2.2.2.1]
  · simp [(thrStep_frame hs).2.2.2.1]
  · simp [(thrStep_frame hs).2.2.2.1]
  · exact (clientStep_seq hs []).1

theorem nextSeq_mono_run {t : Tags} (sched : List Nat) (s : State) :
    s.nextSeq ≤ ((sys t).run s sched).nextSeq := by
  induction sched generalizing s with
  | nil => exact Nat.le_refl _
  | cons a as ih =>
    unfold System.run
    cases hs : (sys t).step s a with
    | none => exact ih s
    | some s' => exact Nat.le_trans (nextSeq_mono_step hs) (ih s')

/-! ### registries stay well formed, the set of subscriber queues is fixed -/

def RegInv (s : State) : Prop := s.regF.WF ∧ s.regL.WF

theorem clientStep_reg {t : Tags} {s s1 : State} {c c' : Client} {lbl : String}
    (h : clientStep t s c = some (c', s1, lbl)) :
    (RegInv s → RegInv s1) ∧ s1.subs = s.subs := by
  client_cases h
  all_goals simp only [RegInv, doStart_frame, and_true]
  all_goals first
    | exact id
    | exact fun h => ⟨h.1.subscribe _ _, h.2⟩
    | exact fun h => ⟨h.1, h.2.subscribe _ _⟩
    | exact fun _ => ⟨Registry.WF_nil, Registry.WF_nil⟩

theorem thrStep_subs {t : Tags} {k : Kind} {s s1 : State} {th th' : Thr} {lbl : String}
    (h : thrStep t k s th = some (th', s1, lbl)) : s1.subs.map (·.id) = s.subs.map (·.id) := by
  thr_cases h th k
  all_goals first
    | rfl
    | simp [deliver_ids]
    | (simp only []; split <;> simp [deliver_ids])

theorem RegInv_step {t : Tags} {s s' : State} {tid : Nat} (hi : RegInv s)
    (h : (sys t).step s tid = some s') : RegInv s' ∧ s'.subs.map (·.id) = s.subs.map (·.id) := by
  rcases sys_step_cases h with ⟨_, th, th', s1, lbl, _, hs, rfl⟩ | ⟨_, th, th', s1, lbl, _, hs, rfl⟩ |
    ⟨_, k, th, th', s1, lbl, _, hs, rfl⟩ | ⟨_, _, c, c', s1, lbl, hc, hs, rfl⟩
  · obtain ⟨h1, h2, _⟩ := thrStep_frame hs
    have h3 := thrStep_subs hs
    exact ⟨by simpa [RegInv, h1, h2] using hi, h3⟩
  · obtain ⟨h1, h2, _⟩ := thrStep_frame hs
    have h3 := thrStep_subs hs
    exact ⟨by simpa [RegInv, h1, h2] using hi, h3⟩
  · obtain ⟨h1, h2, _⟩ := thrStep_frame hs
    have h3 := thrStep_subs hs
    exact ⟨by simpa [RegInv, h1, h2] using hi, h3⟩
  · obtain ⟨h1, h2⟩ := clientStep_reg hs
    exact ⟨h1 hi, by simp [h2]⟩

theorem RegInv_run {t : Tags} (s : State) (hi : RegInv s) (sched : List Nat) :
    RegInv ((sys t).run s sched) ∧
      ((sys t).run s sched).subs.map (·.id) = s.subs.map (·.id) := by
  have := (sys t).inv_run (fun s' => RegInv s' ∧ s'.subs.map (·.id) = s.subs.map (·.id))
    (fun a tid b hi h => ⟨(RegInv_step hi.1 h).1, (RegInv_step hi.1 h).2.trans hi.2⟩) sched s ⟨hi, rfl⟩
  exact this

theorem RegInv_init (subs : List SubQ) (progs : List (List Call)) : RegInv (init subs progs) :=
  ⟨Registry.WF_nil, Registry.WF_nil⟩

/-! ### `stop()` issued by the only client -/

def inStop (pc : CPc) : Bool :=
  match pc with
  | .stopPutF _ | .stopJoinF | .stopPutL _ | .stopJoinL => true
  | _ => false

def inStopL (pc : CPc) : Bool :=
  match pc with
  | .stopPutL _ | .stopJoinL => true
  | _ => false

/-- while the only client is inside `stop()`, the flag is down, and once it has got past the
fifo join the fifo thread is dead -/
def StopInv (s : State) : Prop :=
  ∀ c, s.clients = [c] → (inStop c.pc = true → s.flag = false) ∧ (inStopL c.pc = true → alive s.thrF = false)

theorem clientStep_stop {t : Tags} {s s1 : State} {c c' : Client} {lbl : String}
    (h : clientStep t s c = some (c', s1, lbl))
    (h1 : inStop c.pc = true → s.flag = false) (h2 : inStopL c.pc = true → alive s.thrF = false) :
    (inStop c'.pc = true → s1.flag = false) ∧ (inStopL c'.pc = true → alive s1.thrF = false) := by
  client_cases h
  all_goals simp_all [inStop, inStopL, finishCall]

/-- a dead delivery thread cannot step -/
theorem thrStep_dead {t : Tags} {k : Kind} {s : State} {th : Thr} (h : alive (some th) = false) :
    thrStep t k s th = none := by
  simp [alive] at h
  simp [thrStep, h]

theorem StopInv_step {t : Tags} {s s' : State} {tid : Nat} (hi : StopInv s)
    (h : (sys t).step s tid = some s') : StopInv s' := by
  rcases sys_step_cases h with ⟨_, th, th', s1, lbl, hF, hs, rfl⟩ | ⟨_, th, th', s1, lbl, _, hs, rfl⟩ |
    ⟨_, k, th, th', s1, lbl, _, hs, rfl⟩ | ⟨_, _, c, c', s1, lbl, hc, hs, rfl⟩
  · obtain ⟨_, _, hfl, _, _, _, _, hcl, _⟩ := thrStep_frame hs
    intro c hc
    simp only [hcl] at hc
    obtain ⟨h1, h2⟩ := hi c hc
    refine ⟨fun x => by simpa [hfl] using h1 x, fun x => ?_⟩
    have hd := h2 x
    rw [hF] at hd
    rw [thrStep_dead hd] at hs
    cases hs
  · obtain ⟨_, _, hfl, _, hF, _, _, hcl, _⟩ := thrStep_frame hs
    intro c hc
    simp only [hcl] at hc
    simpa [hfl, hF] using hi c hc
  · obtain ⟨_, _, hfl, _, hF, _, _, hcl, _⟩ := thrStep_frame hs
    intro c hc
    simp only [hcl] at hc
    simpa [hfl, hF] using hi c hc
  · have hcl := (clientStep_seq hs []).2.1
    intro c2 hc2
    simp only [hcl] at hc2
    -- the client list has one element, so it is `c` and the new one is `c'`
    have hlen : s.clients.length = 1 := by
      have := congrArg List.length hc2; simpa using this
    match hcs : s.clients, hlen with
    | [c0], _ =>
      rw [hcs] at hc hc2
      have hi0 : tid - 2 = 0 := by
        cases hn : tid - 2 with
        | zero => rfl
        | succ n => simp [hn] at hc
      simp only [hi0, List.getElem?_cons_zero, Option.some.injEq] at hc
      subst hc
      simp only [hi0, List.set_cons_zero, List.cons.injEq, and_true] at hc2
      subst hc2
      obtain ⟨h1, h2⟩ := hi c0 hcs
      have := clientStep_stop hs h1 h2
      exact this

theorem StopInv_init (subs : List SubQ) (progs : List (List Call)) : StopInv (init subs progs) := by
  intro c hc
  cases progs with
  | nil => simp [init] at hc
  | cons p ps =>
    simp only [init, List.map_cons, List.cons.injEq] at hc
    rw [← hc.1]
    simp [inStop, inStopL]

theorem StopInv_run {t : Tags} (s : State) (hi : StopInv s) (sched : List Nat) :
    StopInv ((sys t).run s sched) :=
  (sys t).inv_run StopInv (fun _ _ _ hi h => StopInv_step hi h) sched s hi

/-- the step with which `stop()` returns leaves both threads dead and the flag down -/
theorem clientStep_stop_returns {t : Tags} {s s1 : State} {c c' : Client} {lbl : String} {rest : List Call}
    (h : clientStep t s c = some (c', s1, lbl))
    (hcalls : c.calls = .stop :: rest)
    (hpc : c.pc = .call ∨ inStop c.pc = true) (hret : c'.pc = .call)
    (h1 : inStop c.pc = true → s.flag = false) (h2 : inStopL c.pc = true → alive s.thrF = false) :
    alive s1.thrF = false ∧ alive s1.thrL = false ∧ s1.flag = false ∧ c'.calls = rest := by
  client_cases h
  all_goals simp_all [inStop, inStopL, finishCall]

/-! ### who can change the thread handles and the run flag -/

/-- only a `start` call replaces a thread handle or raises the flag; only `stop` lowers it -/
theorem clientStep_handles {t : Tags} {s s1 : State} {c c' : Client} {lbl : String}
    (h : clientStep t s c = some (c', s1, lbl))
    (hns : ¬ (c.pc = .call ∧ c.calls.head? = some .start)) :
    s1.thrF = s.thrF ∧ s1.thrL = s.thrL ∧ (s1.flag = s.flag ∨ s1.flag = false) ∧
    (s1.flag = s.flag ∨ (c.pc = .call ∧ c.calls.head? = some .stop)) := by
  client_cases h
  all_goals simp_all

/-- a dead handle stays dead under every step that is not a `start` call -/
theorem dead_stays_dead {t : Tags} {s s' : State} {tid : Nat} (h : (sys t).step s tid = some s')
    (hns : ∀ c, s.clients[tid - 2]? = some c → 2 ≤ tid → tid < 100 →
      ¬ (c.pc = .call ∧ c.calls.head? = some .start)) :
    (alive s.thrF = false → alive s'.thrF = false) ∧ (alive s.thrL = false → alive s'.thrL = false) ∧
    (s.flag = false → s'.flag = false) := by
  rcases sys_step_cases h with ⟨_, th, th', s1, lbl, hF, hs, rfl⟩ | ⟨_, th, th', s1, lbl, hL, hs, rfl⟩ |
    ⟨_, k, th, th', s1, lbl, _, hs, rfl⟩ | ⟨h2, h100, c, c', s1, lbl, hc, hs, rfl⟩
  · obtain ⟨_, _, hfl, _, _, hL', _⟩ := thrStep_frame hs
    refine ⟨fun hd => ?_, by simp [hL'], by simp [hfl]⟩
    rw [hF] at hd; rw [thrStep_dead hd] at hs; cases hs
  · obtain ⟨_, _, hfl, _, hF', _, _⟩ := thrStep_frame hs
    refine ⟨by simp [hF'], fun hd => ?_, by simp [hfl]⟩
    rw [hL] at hd; rw [thrStep_dead hd] at hs; cases hs
  · obtain ⟨_, _, hfl, _, hF', hL', _⟩ := thrStep_frame hs
    exact ⟨by simp [hF'], by simp [hL'], by simp [hfl]⟩
  · obtain ⟨hF', hL', hfl, _⟩ := clientStep_handles hs (hns c hc h2 h100)
    refine ⟨by simp [hF'], by simp [hL'], ?_⟩
    intro hf
    rcases hfl with hfl | hfl <;> simp [hfl, hf]

end Miros.Conc.Fab
