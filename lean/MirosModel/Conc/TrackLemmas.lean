import MirosModel.Conc.Track
import MirosModel.Conc.SysLemmas
/-!
# Lemmas for the tracked-source-list model (`Miros.Conc.Track`)

* list facts about `clearId`, `rotate`, `getLast?`;
* the inductive invariant `Inv` of the locked system (lock discipline + data invariant `DInv`);
* the refinement `absData (run s sched) = runAtomic (absData s) (acqLog s sched)`;
* the declarative description of `loopRun` (the cancel loop run without interruption);
* the accounting of timed posts (`all.length + rejected + pendingArms` is constant).
-/
namespace Miros.Conc.Track

/-! ### list facts -/

theorem clearId_map_id (i : Nat) (l : List Rec) : (clearId i l).map (·.id) = l.map (·.id) := by
  unfold clearId
  rw [List.map_map]
  apply List.map_congr_left
  intro r _
  simp only [Function.comp]
  split <;> rfl

theorem clearId_length (i : Nat) (l : List Rec) : (clearId i l).length = l.length := by
  simp [clearId]

theorem clearId_append (i : Nat) (a b : List Rec) : clearId i (a ++ b) = clearId i a ++ clearId i b := by
  simp [clearId]

theorem clearId_of_forall_ne (i : Nat) (l : List Rec) (h : ∀ x ∈ l, x.id ≠ i) : clearId i l = l := by
  unfold clearId
  conv => rhs; rw [← List.map_id l]
  apply List.map_congr_left
  intro r hr
  simp [h r hr]

theorem mem_clearId_of_ne {i : Nat} {l : List Rec} {x : Rec} (hx : x ∈ l) (hne : x.id ≠ i) :
    x ∈ clearId i l := by
  unfold clearId
  exact List.mem_map.mpr ⟨x, hx, by simp [hne]⟩

/-- a record of `clearId i l` is either an untouched record of `l` with another id, or the cleared copy
of a record of `l` with id `i` -/
theorem of_mem_clearId {i : Nat} {l : List Rec} {x : Rec} (hx : x ∈ clearId i l) :
    (x ∈ l ∧ x.id ≠ i) ∨ (x.flag = false ∧ x.id = i ∧ ∃ y ∈ l, y.id = i ∧ y.name = x.name) := by
  unfold clearId at hx
  obtain ⟨y, hy, rfl⟩ := List.mem_map.mp hx
  by_cases h : y.id = i
  · right; simp [h]; exact ⟨y, hy, h, rfl⟩
  · left; simp [h]; exact hy

theorem of_mem_clearId_flag {i : Nat} {l : List Rec} {x : Rec} (hx : x ∈ clearId i l)
    (hf : x.flag = true) : x ∈ l ∧ x.id ≠ i := by
  rcases of_mem_clearId hx with h | h
  · exact h
  · rw [h.1] at hf; cases hf

theorem eq_dropLast_append_of_getLast? {l : List Rec} {r : Rec} (h : l.getLast? = some r) :
    l = l.dropLast ++ [r] := by
  obtain ⟨ys, rfl⟩ := List.getLast?_eq_some_iff.mp h
  simp

theorem rotate_append_singleton (a : List Rec) (r : Rec) : rotate (a ++ [r]) = r :: a := by
  simp [rotate]

theorem rotate_nil : rotate [] = [] := rfl

theorem rotate_perm (q : List Rec) : (rotate q).Perm q := by
  cases h : q.getLast? with
  | none =>
    have : q = [] := List.getLast?_eq_none_iff.mp h
    subst this; exact List.Perm.refl _
  | some r =>
    have hq := eq_dropLast_append_of_getLast? h
    rw [hq, rotate_append_singleton]
    exact (List.perm_append_singleton r q.dropLast).symm

theorem rotate_length (q : List Rec) : (rotate q).length = q.length := (rotate_perm q).length_eq

/-- in a list with distinct ids, clearing the id of the last record and popping is just popping -/
theorem clear_pop_last {a : List Rec} {r : Rec} (hn : ((a ++ [r]).map (·.id)).Nodup) :
    (clearId r.id (a ++ [r])).dropLast = a := by
  have hne : ∀ x ∈ a, x.id ≠ r.id := by
    intro x hx he
    rw [List.map_append, List.nodup_append] at hn
    exact hn.2.2 x.id (List.mem_map.mpr ⟨x, hx, rfl⟩) r.id (by simp) he
  rw [clearId_append, clearId_of_forall_ne _ _ hne]
  simp [clearId]

theorem hit_some {c : Call} {seen : Option Rec} {r : Rec} (h : hit c seen = some r) :
    seen = some r ∧ c.hits r = true := by
  unfold hit at h
  split at h
  · split at h
    · cases h; exact ⟨rfl, by assumption⟩
    · cases h
  · cases h

theorem hit_none_of_arm (n : Nat) (seen : Option Rec) : hit (.arm n) seen = none := by
  cases seen <;> simp [hit, Call.hits]

/-! ### the invariant of the locked system -/

/-- data invariant: ids are fresh and distinct, the list is a duplicate-free part of `all` (same
records, same flags) within the capacity, and every source whose flag is set is in the list -/
structure DInv (q all : List Rec) (cap nextId : Nat) : Prop where
  idsLt : ∀ r ∈ all, r.id < nextId
  allNodup : (all.map (·.id)).Nodup
  qNodup : (q.map (·.id)).Nodup
  qSub : ∀ r ∈ q, r ∈ all
  qLen : q.length ≤ cap
  live : ∀ r ∈ all, r.flag = true → r ∈ q

/-- what a program counter knows about the data (true for the lock owner only) -/
def PcOK (s : State) (todo : List Call) : Pc → Prop
  | .idle => True
  | .armTest => ∃ n rest, todo = .arm n :: rest
  | .armAppend id =>
    (∃ n rest, todo = .arm n :: rest) ∧ id < s.nextId ∧ (∀ r ∈ s.all, r.id < id) ∧ s.q.length < s.cap
  | .loopHead k c => (∃ rest, todo = c :: rest) ∧ c.isArm = false ∧ k ≤ s.q.length
  | .loopAct k c seen =>
    (∃ rest, todo = c :: rest) ∧ c.isArm = false ∧ seen = s.q.getLast? ∧ k < s.q.length

structure Inv (s : State) : Prop where
  lock : ∀ (j : Nat) (t : Thread), s.threads[j]? = some t → t.pc ≠ .idle → s.owner = some j
  held : ∀ j : Nat, s.owner = some j → ∃ t : Thread, s.threads[j]? = some t ∧ t.pc ≠ .idle
  pcs : ∀ (j : Nat) (t : Thread), s.threads[j]? = some t → PcOK s t.todo t.pc
  data : DInv s.q s.all s.cap s.nextId

theorem inv_init (cap : Nat) (progs : List (List Call)) : Inv (init cap progs) := by
  refine ⟨?_, ?_, ?_, ?_⟩
  · intro j t hj hne
    simp only [init, List.getElem?_map] at hj
    cases hp : progs[j]? with
    | none => simp [hp] at hj
    | some p => simp [hp] at hj; subst hj; exact absurd rfl hne
  · intro j hj; simp [init] at hj
  · intro j t hj
    simp only [init, List.getElem?_map] at hj
    cases hp : progs[j]? with
    | none => simp [hp] at hj
    | some p => simp [hp] at hj; subst hj; exact True.intro
  · exact ⟨by simp [init], by simp [init], by simp [init], by simp [init], by simp [init],
      by simp [init]⟩

/-- who can move in the locked system: the lock owner, or — when the lock is free — an idle thread;
every other thread is idle -/
theorem step_locked_shape {s s' : State} {i : Nat} (h : Inv s) (hs : step ⟨true⟩ s i = some s') :
    ∃ t, s.threads[i]? = some t ∧ stepT ⟨true⟩ s i t = some s' ∧
      (∀ j t', j ≠ i → s.threads[j]? = some t' → t'.pc = .idle) ∧
      (t.pc = .idle → s.owner = none) ∧ (t.pc ≠ .idle → s.owner = some i) := by
  unfold step at hs
  cases ht : s.threads[i]? with
  | none => simp [ht] at hs
  | some t =>
    simp only [ht] at hs
    have hidle : t.pc = .idle → s.owner = none := by
      intro hp
      obtain ⟨todo, pc⟩ := t
      simp only at hp
      subst hp
      cases ho : s.owner with
      | none => rfl
      | some k =>
        cases todo <;> simp [stepT, ho] at hs
    refine ⟨t, rfl, hs, ?_, hidle, fun hne => h.lock i t ht hne⟩
    intro j t' hji hj
    apply Classical.byContradiction
    intro hne
    have hoj := h.lock j t' hj hne
    by_cases hp : t.pc = .idle
    · rw [hidle hp] at hoj; cases hoj
    · have hoi := h.lock i t ht hp
      rw [hoi] at hoj
      exact hji (Option.some.inj hoj).symm

/-- re-establish the lock discipline after a step of thread `i` (all other threads idle) -/
theorem Inv.rebuild {s s' : State} {i : Nat} {t tn : Thread}
    (hi : s.threads[i]? = some t)
    (hoth : ∀ j t', j ≠ i → s.threads[j]? = some t' → t'.pc = .idle)
    (hthr : s'.threads = s.threads.set i tn)
    (hown : s'.owner = if tn.pc = .idle then none else some i)
    (hpc : PcOK s' tn.todo tn.pc)
    (hd : DInv s'.q s'.all s'.cap s'.nextId) : Inv s' := by
  have hlen : i < s.threads.length := by
    have := List.getElem?_eq_some_iff.mp hi
    exact this.1
  have hlook : ∀ j tj, s'.threads[j]? = some tj → (j = i ∧ tj = tn) ∨ (j ≠ i ∧ tj.pc = .idle) := by
    intro j tj hj
    rw [hthr, List.getElem?_set] at hj
    by_cases hji : i = j
    · subst hji
      simp [hlen] at hj
      exact Or.inl ⟨rfl, hj.symm⟩
    · simp [hji] at hj
      exact Or.inr ⟨fun h => hji h.symm, hoth j tj (fun h => hji h.symm) hj⟩
  refine ⟨?_, ?_, ?_, hd⟩
  · intro j tj hj hne
    rcases hlook j tj hj with ⟨rfl, rfl⟩ | ⟨_, hidle⟩
    · rw [hown]; simp [hne]
    · exact absurd hidle hne
  · intro j hj
    rw [hown] at hj
    by_cases hp : tn.pc = .idle
    · simp [hp] at hj
    · simp [hp] at hj
      subst hj
      refine ⟨tn, ?_, hp⟩
      rw [hthr, List.getElem?_set]
      simp [hlen]
  · intro j tj hj
    rcases hlook j tj hj with ⟨rfl, rfl⟩ | ⟨_, hidle⟩
    · exact hpc
    · rw [hidle]; exact True.intro

/-! ### the data invariant under each access to the list -/

theorem DInv.mono {q all : List Rec} {cap n m : Nat} (h : DInv q all cap n) (hnm : n ≤ m) :
    DInv q all cap m :=
  ⟨fun r hr => Nat.lt_of_lt_of_le (h.idsLt r hr) hnm, h.allNodup, h.qNodup, h.qSub, h.qLen, h.live⟩

theorem DInv.append {q all : List Rec} {cap nid : Nat} (h : DInv q all cap nid) (r : Rec)
    (hid : r.id < nid) (hfresh : ∀ x ∈ all, x.id < r.id) (hlen : q.length < cap) :
    DInv (q ++ [r]) (all ++ [r]) cap nid := by
  refine ⟨?_, ?_, ?_, ?_, ?_, ?_⟩
  · intro x hx
    rcases List.mem_append.mp hx with hx | hx
    · exact h.idsLt x hx
    · simp at hx; subst hx; exact hid
  · rw [List.map_append, List.nodup_append]
    refine ⟨h.allNodup, by simp, ?_⟩
    intro a ha b hb
    simp at hb; subst hb
    obtain ⟨x, hx, rfl⟩ := List.mem_map.mp ha
    exact Nat.ne_of_lt (hfresh x hx)
  · rw [List.map_append, List.nodup_append]
    refine ⟨h.qNodup, by simp, ?_⟩
    intro a ha b hb
    simp at hb; subst hb
    obtain ⟨x, hx, rfl⟩ := List.mem_map.mp ha
    exact Nat.ne_of_lt (hfresh x (h.qSub x hx))
  · intro x hx
    rcases List.mem_append.mp hx with hx | hx
    · exact List.mem_append_left _ (h.qSub x hx)
    · exact List.mem_append_right _ hx
  · simp; omega
  · intro x hx hf
    rcases List.mem_append.mp hx with hx | hx
    · exact List.mem_append_left _ (h.live x hx hf)
    · exact List.mem_append_right _ hx

theorem DInv.perm {q q' all : List Rec} {cap nid : Nat} (h : DInv q all cap nid) (hp : q'.Perm q) :
    DInv q' all cap nid :=
  ⟨h.idsLt, h.allNodup, ((hp.map (·.id)).nodup_iff).mpr h.qNodup,
    fun r hr => h.qSub r (hp.mem_iff.mp hr), by rw [hp.length_eq]; exact h.qLen,
    fun r hr hf => hp.mem_iff.mpr (h.live r hr hf)⟩

theorem DInv.rotate {q all : List Rec} {cap nid : Nat} (h : DInv q all cap nid) :
    DInv (rotate q) all cap nid := h.perm (rotate_perm q)

/-- clear the flag of the last record and pop it -/
theorem DInv.clear_pop {q all : List Rec} {cap nid : Nat} {r : Rec} (h : DInv q all cap nid)
    (hl : q.getLast? = some r) :
    (clearId r.id q).dropLast = q.dropLast ∧ DInv q.dropLast (clearId r.id all) cap nid := by
  have hq := eq_dropLast_append_of_getLast? hl
  have hqn := h.qNodup
  rw [hq] at hqn
  have hpop : (clearId r.id q).dropLast = q.dropLast := by
    conv => lhs; rw [hq]
    exact clear_pop_last hqn
  have hne : ∀ x ∈ q.dropLast, x.id ≠ r.id := by
    intro x hx he
    rw [List.map_append, List.nodup_append] at hqn
    exact hqn.2.2 x.id (List.mem_map.mpr ⟨x, hx, rfl⟩) r.id (by simp) he
  have hmemq : ∀ x ∈ q.dropLast, x ∈ q := by
    intro x hx; rw [hq]; exact List.mem_append_left _ hx
  refine ⟨hpop, ?_, ?_, ?_, ?_, ?_, ?_⟩
  · intro x hx
    have hid : x.id ∈ (clearId r.id all).map (·.id) := List.mem_map.mpr ⟨x, hx, rfl⟩
    rw [clearId_map_id] at hid
    obtain ⟨y, hy, hyx⟩ := List.mem_map.mp hid
    rw [← hyx]; exact h.idsLt y hy
  · rw [clearId_map_id]; exact h.allNodup
  · rw [List.map_append, List.nodup_append] at hqn; exact hqn.1
  · intro x hx
    exact mem_clearId_of_ne (h.qSub x (hmemq x hx)) (hne x hx)
  · have := h.qLen; simp; omega
  · intro x hx hf
    obtain ⟨hxa, hxi⟩ := of_mem_clearId_flag hx hf
    have hxq := h.live x hxa hf
    rw [hq] at hxq
    rcases List.mem_append.mp hxq with h1 | h1
    · exact h1
    · simp at h1; subst h1; exact absurd rfl hxi

/-- the data part of a `loopAct` step of the lock owner -/
theorem DInv.act {q all : List Rec} {cap nid : Nat} (h : DInv q all cap nid) (c : Call) :
    DInv (actData c q.getLast? q all).1 (actData c q.getLast? q all).2.1 cap nid ∧
    (actData c q.getLast? q all).1.length ≤ q.length ∧
    (0 < q.length → q.length - 1 ≤ (actData c q.getLast? q all).1.length) := by
  unfold actData
  cases hh : hit c q.getLast? with
  | none =>
    simp only
    exact ⟨h.rotate, by rw [rotate_length]; exact Nat.le_refl _, fun _ => by rw [rotate_length]; omega⟩
  | some r =>
    simp only
    obtain ⟨hl, _⟩ := hit_some hh
    obtain ⟨hpop, hd⟩ := h.clear_pop hl
    rw [hpop]
    exact ⟨hd, by simp, fun _ => by simp⟩

/-! ### every step of the locked system preserves the invariant -/

theorem firstPc_ne_idle (q : List Rec) (c : Call) : firstPc q c ≠ .idle := by
  cases c <;> simp [firstPc]

theorem pcOK_firstPc (s : State) (c : Call) (rest : List Call) :
    PcOK s (c :: rest) (firstPc s.q c) := by
  cases c with
  | arm n => exact ⟨n, rest, rfl⟩
  | cancelName n => exact ⟨⟨rest, rfl⟩, rfl, Nat.le_refl _⟩
  | cancelId n => exact ⟨⟨rest, rfl⟩, rfl, Nat.le_refl _⟩

theorem inv_step {s s' : State} {i : Nat} (h : Inv s) (hs : step ⟨true⟩ s i = some s') : Inv s' := by
  obtain ⟨t, hi, hst, hoth, hfree, hmine⟩ := step_locked_shape h hs
  have hpc := h.pcs i t hi
  have hd := h.data
  obtain ⟨todo, pc⟩ := t
  cases pc with
  | idle =>
    have ho := hfree rfl
    cases todo with
    | nil => simp [stepT] at hst
    | cons c rest =>
      simp [stepT, ho] at hst
      subst hst
      refine Inv.rebuild (tn := ⟨c :: rest, firstPc s.q c⟩) hi hoth rfl ?_ ?_ hd
      · simp [setPc, firstPc_ne_idle]
      · exact pcOK_firstPc s c rest
  | armTest =>
    by_cases hlt : s.q.length < s.cap
    · simp [stepT, hlt] at hst
      subst hst
      refine Inv.rebuild (tn := ⟨todo, .armAppend s.nextId⟩) hi hoth rfl (by simp [setPc]; exact hmine (by simp)) ?_ ?_
      · exact ⟨hpc, Nat.lt_succ_self _, hd.idsLt, hlt⟩
      · exact hd.mono (Nat.le_succ _)
    · simp [stepT, hlt] at hst
      subst hst
      exact Inv.rebuild (tn := ⟨todo.tail, .idle⟩) hi hoth rfl (by simp [finishCall]) True.intro hd
  | armAppend id =>
    simp [stepT] at hst
    subst hst
    obtain ⟨_, hid, hfresh, hlen⟩ := hpc
    exact Inv.rebuild (tn := ⟨todo.tail, .idle⟩) hi hoth rfl (by simp [finishCall]) True.intro
      (hd.append ⟨id, armName todo, true⟩ hid hfresh hlen)
  | loopHead k c =>
    cases k with
    | zero =>
      simp [stepT] at hst
      subst hst
      exact Inv.rebuild (tn := ⟨todo.tail, .idle⟩) hi hoth rfl (by simp [finishCall]) True.intro hd
    | succ k =>
      simp [stepT] at hst
      subst hst
      obtain ⟨htodo, harm, hk⟩ := hpc
      exact Inv.rebuild (tn := ⟨todo, .loopAct k c s.q.getLast?⟩) hi hoth rfl (by simp [setPc]; exact hmine (by simp))
        ⟨htodo, harm, rfl, hk⟩ hd
  | loopAct k c seen =>
    obtain ⟨htodo, harm, hseen, hk⟩ := hpc
    subst hseen
    obtain ⟨hd', hle, hge⟩ := hd.act c
    by_cases hb : (actData c s.q.getLast? s.q s.all).2.2 = true
    · simp [stepT, hb] at hst
      subst hst
      exact Inv.rebuild (tn := ⟨todo.tail, .idle⟩) hi hoth rfl (by simp [finishCall]) True.intro hd'
    · simp [stepT, hb] at hst
      subst hst
      refine Inv.rebuild (tn := ⟨todo, .loopHead k c⟩) hi hoth rfl (by simp [setPc]; exact hmine (by simp)) ?_ hd'
      refine ⟨htodo, harm, ?_⟩
      have := hge (by omega)
      show k ≤ (actData c s.q.getLast? s.q s.all).1.length
      omega

theorem inv_run (s : State) (h : Inv s) (sched : List Step) : Inv ((sys ⟨true⟩).run s sched) :=
  (sys ⟨true⟩).inv_run Inv (fun _ _ _ hI hs => inv_step hI hs) sched s h

theorem inv_reach (cap : Nat) (progs : List (List Call)) (sched : List Step) :
    Inv ((sys ⟨true⟩).run (init cap progs) sched) := inv_run _ (inv_init cap progs) sched

/-! ### refinement: every interleaving equals the atomic execution of the calls in lock order -/

theorem stepT_cap {g : Tags} {s s' : State} {i : Nat} {t : Thread} (hs : stepT g s i t = some s') :
    s'.cap = s.cap := by
  obtain ⟨todo, pc⟩ := t
  cases pc with
  | idle =>
    cases todo with
    | nil => simp [stepT] at hs
    | cons c rest =>
      simp only [stepT] at hs
      split at hs
      · split at hs
        · cases hs
        · cases hs; rfl
      · cases hs; rfl
  | armTest =>
    simp only [stepT] at hs
    split at hs <;> (cases hs; rfl)
  | armAppend id => simp only [stepT] at hs; cases hs; rfl
  | loopHead k c =>
    cases k with
    | zero => simp only [stepT] at hs; cases hs; rfl
    | succ k => simp only [stepT] at hs; cases hs; rfl
  | loopAct k c seen =>
    simp only [stepT] at hs
    split at hs <;> (cases hs; rfl)

theorem step_cap {g : Tags} {s s' : State} {i : Nat} (hs : step g s i = some s') : s'.cap = s.cap := by
  unfold step at hs
  split at hs
  · cases hs
  · exact stepT_cap hs

theorem run_cap (g : Tags) (sched : List Step) (s : State) : ((sys g).run s sched).cap = s.cap := by
  induction sched generalizing s with
  | nil => rfl
  | cons i ts ih =>
    unfold System.run
    cases hs : (sys g).step s i with
    | none => exact ih s
    | some s' => simp only []; rw [ih s']; exact step_cap hs

theorem absData_free {s : State} (h : s.owner = none) : absData s = s.data := by
  simp [absData, h]

theorem absData_owner {s : State} {i : Nat} {t : Thread} (h : s.owner = some i)
    (ht : s.threads[i]? = some t) : absData s = finishPc s.cap t.todo t.pc s.data := by
  simp [absData, h, ht]

theorem getElem?_set_self' {l : List Thread} {i : Nat} {t tn : Thread} (h : l[i]? = some t) :
    (l.set i tn)[i]? = some tn := by
  have hlen : i < l.length := (List.getElem?_eq_some_iff.mp h).1
  rw [List.getElem?_set]; simp [hlen]

theorem absData_setPc {s : State} {i : Nat} {t : Thread} (pc : Pc) (h : s.owner = some i)
    (ht : s.threads[i]? = some t) : absData (setPc s i t pc) = finishPc s.cap t.todo pc s.data :=
  absData_owner (s := setPc s i t pc) (t := { t with pc := pc }) h (getElem?_set_self' ht)

theorem finishPc_firstPc (cap : Nat) (c : Call) (rest : List Call) (a : AState) :
    finishPc cap (c :: rest) (firstPc a.q c) a = callAtomic cap c a := by
  cases c <;> rfl

/-- a step that starts a call has (once the call is completed) the effect of the whole call; every
other step leaves the completed data unchanged -/
theorem absData_step {s s' : State} {i : Nat} (h : Inv s) (hs : step ⟨true⟩ s i = some s') :
    absData s' = match startsCall s i with
      | some c => callAtomic s.cap c (absData s)
      | none => absData s := by
  obtain ⟨t, hi, hst, _, hfree, hmine⟩ := step_locked_shape h hs
  obtain ⟨todo, pc⟩ := t
  cases pc with
  | idle =>
    have ho := hfree rfl
    cases todo with
    | nil => simp [stepT] at hst
    | cons c rest =>
      simp [stepT, ho] at hst
      subst hst
      have hsc : startsCall s i = some c := by simp [startsCall, hi]
      rw [hsc, absData_free ho]
      rw [absData_owner (s := setPc { s with owner := some i } i ⟨c :: rest, .idle⟩ (firstPc s.q c))
        (i := i) (t := ⟨c :: rest, firstPc s.q c⟩) rfl (getElem?_set_self' hi)]
      exact finishPc_firstPc s.cap c rest s.data
  | armTest =>
    have ho := hmine (by simp)
    have hsc : startsCall s i = none := by simp [startsCall, hi]
    rw [hsc, absData_owner ho hi]
    by_cases hlt : s.q.length < s.cap
    · simp [stepT, hlt] at hst
      subst hst
      rw [absData_setPc (s := { s with nextId := s.nextId + 1 }) (.armAppend s.nextId) ho hi]
      simp [finishPc, callAtomic, State.data, hlt]
    · simp [stepT, hlt] at hst
      subst hst
      rw [absData_free (by simp [finishCall])]
      simp [finishPc, callAtomic, State.data, finishCall, hlt]
  | armAppend id =>
    have ho := hmine (by simp)
    have hsc : startsCall s i = none := by simp [startsCall, hi]
    rw [hsc, absData_owner ho hi]
    simp [stepT] at hst
    subst hst
    rw [absData_free (by simp [finishCall])]
    simp [finishPc, State.data, finishCall]
  | loopHead k c =>
    have ho := hmine (by simp)
    have hsc : startsCall s i = none := by simp [startsCall, hi]
    rw [hsc, absData_owner ho hi]
    cases k with
    | zero =>
      simp [stepT] at hst
      subst hst
      rw [absData_free (by simp [finishCall])]
      simp [finishPc, loopRun, State.data, finishCall]
    | succ k =>
      simp [stepT] at hst
      subst hst
      rw [absData_setPc (.loopAct k c s.q.getLast?) ho hi]
      simp only [finishPc, loopRun, State.data]
      by_cases hb : (actData c s.q.getLast? s.q s.all).2.2 = true <;> simp [hb]
  | loopAct k c seen =>
    have ho := hmine (by simp)
    have hsc : startsCall s i = none := by simp [startsCall, hi]
    rw [hsc, absData_owner ho hi]
    by_cases hb : (actData c seen s.q s.all).2.2 = true
    · simp [stepT, hb] at hst
      subst hst
      rw [absData_free (by simp [finishCall])]
      simp [finishPc, State.data, finishCall, hb]
    · simp [stepT, hb] at hst
      subst hst
      have hsp := absData_setPc (s := ⟨(actData c seen s.q s.all).1, (actData c seen s.q s.all).2.1,
        s.threads, s.owner, s.cap, s.nextId, s.rejected⟩) (.loopHead k c) ho hi
      rw [hsp]
      simp [finishPc, State.data, hb]

theorem runAtomic_cons (cap : Nat) (a : AState) (p : Nat × Call) (log : List (Nat × Call)) :
    runAtomic cap a (p :: log) = runAtomic cap (callAtomic cap p.2 a) log := rfl

theorem runAtomic_append (cap : Nat) (a : AState) (l1 l2 : List (Nat × Call)) :
    runAtomic cap a (l1 ++ l2) = runAtomic cap (runAtomic cap a l1) l2 := by
  simp [runAtomic, List.foldl_append]

/-- **refinement.** the data of the state reached by any schedule (with the call in progress, if any,
completed) is the result of running the calls started during the schedule atomically, in the order in
which they took the lock -/
theorem refines_run (sched : List Step) : ∀ (s : State), Inv s →
    absData ((sys ⟨true⟩).run s sched) = runAtomic s.cap (absData s) (acqLog ⟨true⟩ s sched) := by
  induction sched with
  | nil => intro s _; rfl
  | cons i ts ih =>
    intro s h
    unfold System.run acqLog
    rw [show (sys ⟨true⟩).step s i = step ⟨true⟩ s i from rfl]
    cases hs : step ⟨true⟩ s i with
    | none => exact ih s h
    | some s' =>
      simp only []
      rw [ih s' (inv_step h hs), step_cap hs]
      have hab := absData_step h hs
      cases hsc : startsCall s i with
      | none => rw [hsc] at hab; simp only []; rw [hab]
      | some c => rw [hsc] at hab; simp only []; rw [runAtomic_cons, hab]

/-! ### the cancel loop run without interruption does what a cancel is meant to do -/

theorem clearIds_nil (l : List Rec) : clearIds [] l = l := by
  simp [clearIds]

theorem clearIds_clearId (i : Nat) (ids : List Nat) (l : List Rec) :
    clearIds ids (clearId i l) = clearIds (i :: ids) l := by
  unfold clearIds clearId
  rw [List.map_map]
  apply List.map_congr_left
  intro r _
  simp only [Function.comp]
  by_cases h : r.id = i
  · simp [h]
  · simp [h]

theorem clearIds_singleton (i : Nat) (l : List Rec) : clearIds [i] l = clearId i l := by
  rw [← clearIds_clearId, clearIds_nil]

theorem clearIds_congr {ids ids' : List Nat} (h : ∀ x, x ∈ ids ↔ x ∈ ids') (l : List Rec) :
    clearIds ids l = clearIds ids' l := by
  unfold clearIds
  apply List.map_congr_left
  intro r _
  by_cases hr : r.id ∈ ids
  · simp [hr, (h r.id).mp hr]
  · have : r.id ∉ ids' := fun h' => hr ((h r.id).mpr h')
    simp [hr, this]

theorem clearIds_map_id (ids : List Nat) (l : List Rec) : (clearIds ids l).map (·.id) = l.map (·.id) := by
  unfold clearIds
  rw [List.map_map]
  apply List.map_congr_left
  intro r _
  simp only [Function.comp]
  split <;> rfl

theorem mem_clearIds_of_not_mem {ids : List Nat} {l : List Rec} {x : Rec} (hx : x ∈ l)
    (hn : x.id ∉ ids) : x ∈ clearIds ids l := by
  unfold clearIds
  exact List.mem_map.mpr ⟨x, hx, by simp [hn]⟩

theorem of_mem_clearIds {ids : List Nat} {l : List Rec} {x : Rec} (hx : x ∈ clearIds ids l) :
    (x ∈ l ∧ x.id ∉ ids) ∨ (x.flag = false ∧ x.id ∈ ids) := by
  unfold clearIds at hx
  obtain ⟨y, hy, rfl⟩ := List.mem_map.mp hx
  by_cases h : y.id ∈ ids
  · right; simp [h]
  · left; simp [h]; exact hy

theorem nodup_rot {a b : List Rec} {x : Rec} (h : ((a ++ b ++ [x]).map (·.id)).Nodup) :
    (((x :: a) ++ b).map (·.id)).Nodup ∧ ((a ++ b).map (·.id)).Nodup ∧ ∀ y ∈ a ++ b, y.id ≠ x.id := by
  refine ⟨?_, ?_, ?_⟩
  · have hp : ((x :: a) ++ b).Perm (a ++ b ++ [x]) := (List.perm_append_singleton x (a ++ b)).symm
    exact ((hp.map (·.id)).nodup_iff).mpr h
  · rw [List.map_append, List.nodup_append] at h; exact h.1
  · intro y hy he
    rw [List.map_append, List.nodup_append] at h
    exact h.2.2 y.id (List.mem_map.mpr ⟨y, hy, rfl⟩) x.id (by simp) he

theorem actData_hit {c : Call} {x : Rec} {l all : List Rec} (hh : c.hits x = true)
    (hn : ((l ++ [x]).map (·.id)).Nodup) :
    actData c (l ++ [x]).getLast? (l ++ [x]) all = (l, clearId x.id all, c.isId) := by
  simp [actData, hit, hh, clear_pop_last hn]

theorem actData_miss {c : Call} {x : Rec} {l all : List Rec} (hh : c.hits x = false) :
    actData c (l ++ [x]).getLast? (l ++ [x]) all = (x :: l, all, false) := by
  simp [actData, hit, hh, rotate]

/-- `cancel_events`: the loop over the last `rb.length` records (`rb` = those records, last first)
removes exactly the matching ones among them, keeps the order of the others (a full rotation), and
clears exactly the removed sources -/
theorem loopRun_cancelName (n : Nat) : ∀ (rb a all : List Rec),
    ((a ++ rb.reverse).map (·.id)).Nodup →
    loopRun (.cancelName n) rb.length (a ++ rb.reverse) all =
      (rb.reverse.filter (fun r => !(Call.cancelName n).hits r) ++ a,
       clearIds ((rb.filter (Call.cancelName n).hits).map (·.id)) all) := by
  intro rb
  induction rb with
  | nil => intro a all _; simp [loopRun, clearIds_nil]
  | cons x rb ih =>
    intro a all hn
    have hq : a ++ (x :: rb).reverse = a ++ rb.reverse ++ [x] := by simp
    rw [hq] at hn ⊢
    obtain ⟨hn1, hn2, _⟩ := nodup_rot hn
    simp only [List.length_cons, loopRun]
    by_cases hh : (Call.cancelName n).hits x = true
    · rw [actData_hit hh hn]
      simp only [Call.isId, Bool.false_eq_true, if_false]
      rw [ih a _ hn2, clearIds_clearId]
      simp [hh]
    · have hh' : (Call.cancelName n).hits x = false := by simpa using hh
      rw [actData_miss hh']
      simp only [Bool.false_eq_true, if_false]
      have := ih (x :: a) all hn1
      rw [List.cons_append] at this
      rw [this]
      simp [hh']

/-- `cancel_event`: the loop over the last `rb.length` records removes the record with that id if it is
among them (the others stay, rotated) and clears exactly that source -/
theorem loopRun_cancelId (i : Nat) : ∀ (rb a all : List Rec),
    ((a ++ rb.reverse).map (·.id)).Nodup →
    (loopRun (.cancelId i) rb.length (a ++ rb.reverse) all).1.Perm
        (a ++ rb.reverse.filter (fun r => !(Call.cancelId i).hits r)) ∧
    (loopRun (.cancelId i) rb.length (a ++ rb.reverse) all).2 =
       clearIds ((rb.filter (Call.cancelId i).hits).map (·.id)) all := by
  intro rb
  induction rb with
  | nil => intro a all _; simp [loopRun, clearIds_nil]
  | cons x rb ih =>
    intro a all hn
    have hq : a ++ (x :: rb).reverse = a ++ rb.reverse ++ [x] := by simp
    rw [hq] at hn ⊢
    obtain ⟨hn1, hn2, hne⟩ := nodup_rot hn
    simp only [List.length_cons, loopRun]
    by_cases hh : (Call.cancelId i).hits x = true
    · rw [actData_hit hh hn]
      simp only [Call.isId, if_true]
      have hxi : x.id = i := by simpa [Call.hits] using hh
      have hrb : ∀ y ∈ rb, (Call.cancelId i).hits y = false := by
        intro y hy
        have := hne y (List.mem_append_right _ (List.mem_reverse.mpr hy))
        simp [Call.hits]; rw [← hxi]; exact this
      have hf1 : rb.filter (Call.cancelId i).hits = [] := by
        apply List.filter_eq_nil_iff.mpr
        intro y hy; simp [hrb y hy]
      have hf2 : rb.reverse.filter (fun r => !(Call.cancelId i).hits r) = rb.reverse := by
        apply List.filter_eq_self.mpr
        intro y hy; simp [hrb y (List.mem_reverse.mp hy)]
      constructor
      · simp [hh, hf2]
      · simp [hh, hf1, clearIds_singleton]
    · have hh' : (Call.cancelId i).hits x = false := by simpa using hh
      rw [actData_miss hh']
      simp only [Bool.false_eq_true, if_false]
      obtain ⟨ih1, ih2⟩ := ih (x :: a) all hn1
      rw [List.cons_append] at ih1 ih2
      constructor
      · refine ih1.trans ?_
        simp only [List.reverse_cons, List.filter_append, List.filter_cons, hh', List.filter_nil]
        simp only [Bool.not_false, if_true, List.cons_append]
        rw [← List.append_assoc]
        exact (List.perm_append_singleton x _).symm
      · rw [ih2]; simp [hh']

/-- the cancel loop run without interruption on a list with distinct ids: the resulting list is the
list without the matching records (same order for `cancel_events`, rotated for `cancel_event`), and
exactly the removed sources have their flags cleared -/
theorem cancelAtomic_spec (c : Call) (q all : List Rec) (hn : (q.map (·.id)).Nodup) :
    (cancelAtomic c q all).1.Perm (cancelSpec c q all).1 ∧
    (cancelAtomic c q all).2 = (cancelSpec c q all).2 := by
  have hq : q = [] ++ q.reverse.reverse := by simp
  have hlen : q.length = q.reverse.length := by simp
  have hids : clearIds ((q.reverse.filter c.hits).map (·.id)) all =
      clearIds ((q.filter c.hits).map (·.id)) all := by
    apply clearIds_congr
    intro x
    simp [List.filter_reverse]
  have hn' : ((([] : List Rec) ++ q.reverse.reverse).map (·.id)).Nodup := by rw [← hq]; exact hn
  cases c with
  | arm n =>
    -- an `arm` is never run as a cancel; the loop would only rotate
    have hgen : ∀ (rb a all : List Rec),
        loopRun (.arm n) rb.length (a ++ rb.reverse) all = (rb.reverse ++ a, all) := by
      intro rb
      induction rb with
      | nil => intro a all; simp [loopRun]
      | cons x rb ih =>
        intro a all
        have hq : a ++ (x :: rb).reverse = a ++ rb.reverse ++ [x] := by simp
        rw [hq]
        simp only [List.length_cons, loopRun]
        rw [actData_miss (c := .arm n) rfl]
        simp only [Bool.false_eq_true, if_false]
        have := ih (x :: a) all
        rw [List.cons_append] at this
        rw [this]; simp
    unfold cancelAtomic cancelSpec
    have := hgen q.reverse [] all
    rw [← hlen, ← hq] at this
    rw [this]
    have h1 : q.filter (fun r => !(Call.arm n).hits r) = q :=
      List.filter_eq_self.mpr (fun _ _ => rfl)
    have h2 : q.filter (Call.arm n).hits = [] :=
      List.filter_eq_nil_iff.mpr (fun _ _ => by simp [Call.hits])
    rw [h1, h2]
    simp [clearIds_nil]
  | cancelName n =>
    unfold cancelAtomic cancelSpec
    have := loopRun_cancelName n q.reverse [] all hn'
    rw [← hlen, ← hq] at this
    rw [this, hids]
    simp
  | cancelId i =>
    unfold cancelAtomic cancelSpec
    have := loopRun_cancelId i q.reverse [] all hn'
    rw [← hlen, ← hq] at this
    rw [this.2, hids]
    refine ⟨?_, rfl⟩
    refine this.1.trans ?_
    simp

theorem nodup_map_id_inj {l : List Rec} (hn : (l.map (·.id)).Nodup) {x y : Rec} (hx : x ∈ l)
    (hy : y ∈ l) (he : x.id = y.id) : x = y := by
  induction l with
  | nil => cases hx
  | cons a l ih =>
    rw [List.map_cons, List.nodup_cons] at hn
    rcases List.mem_cons.mp hx with rfl | hx'
    · rcases List.mem_cons.mp hy with rfl | hy'
      · rfl
      · exact absurd (List.mem_map.mpr ⟨y, hy', he.symm⟩) hn.1
    · rcases List.mem_cons.mp hy with rfl | hy'
      · exact absurd (List.mem_map.mpr ⟨x, hx', he⟩) hn.1
      · exact ih hn.2 hx' hy'

/-- what `cancelSpec` means record by record, on data satisfying the invariant -/
theorem cancelSpec_props {q all : List Rec} {cap nid : Nat} (h : DInv q all cap nid) (c : Call)
    {q' : List Rec} (hp : q'.Perm (cancelSpec c q all).1) :
    (∀ r ∈ q, c.hits r = true →
      (∀ r' ∈ q', r'.id ≠ r.id) ∧ (∀ x ∈ (cancelSpec c q all).2, x.id = r.id → x.flag = false)) ∧
    (∀ r ∈ q, c.hits r = false → r ∈ q' ∧ r ∈ (cancelSpec c q all).2) ∧
    (∀ r ∈ q', r ∈ q ∧ c.hits r = false) ∧
    ((cancelSpec c q all).2.map (·.id) = all.map (·.id)) ∧
    (∀ x ∈ all, (∀ r ∈ q, c.hits r = true → r.id ≠ x.id) → x ∈ (cancelSpec c q all).2) := by
  have hq' : ∀ r, r ∈ q' ↔ (r ∈ q ∧ c.hits r = false) := by
    intro r
    rw [hp.mem_iff]
    simp [cancelSpec, List.mem_filter]
  have hids : ∀ x : Nat, x ∈ (q.filter c.hits).map (·.id) ↔ ∃ r ∈ q, c.hits r = true ∧ r.id = x := by
    intro x
    simp [List.mem_filter, and_assoc]
  refine ⟨?_, ?_, ?_, ?_, ?_⟩
  · intro r hr hh
    constructor
    · intro r' hr' he
      obtain ⟨hr'q, hmiss⟩ := (hq' r').mp hr'
      have := nodup_map_id_inj h.qNodup hr'q hr he
      subst this
      rw [hh] at hmiss; cases hmiss
    · intro x hx he
      rcases of_mem_clearIds hx with ⟨_, hnot⟩ | ⟨hf, _⟩
      · exact absurd ((hids x.id).mpr ⟨r, hr, hh, he.symm⟩) hnot
      · exact hf
  · intro r hr hh
    refine ⟨(hq' r).mpr ⟨hr, hh⟩, ?_⟩
    apply mem_clearIds_of_not_mem (h.qSub r hr)
    intro hin
    obtain ⟨r2, hr2, hh2, he⟩ := (hids r.id).mp hin
    have := nodup_map_id_inj h.qNodup hr2 hr he
    subst this
    rw [hh] at hh2; cases hh2
  · intro r hr; exact (hq' r).mp hr
  · exact clearIds_map_id _ _
  · intro x hx hno
    apply mem_clearIds_of_not_mem hx
    intro hin
    obtain ⟨r2, hr2, hh2, he⟩ := (hids x.id).mp hin
    exact hno r2 hr2 hh2 he

/-! ### what a step does to the stepping thread and to the ghost counters (any tag) -/

theorem actData_all_length (c : Call) (seen : Option Rec) (q all : List Rec) :
    (actData c seen q all).2.1.length = all.length := by
  unfold actData
  split
  · simp [clearId_length]
  · rfl

/-- the shape of a step: a call is started (todo unchanged, pc leaves `idle`), or continued, or
completed (the call is dropped from `todo`, pc back to `idle`); the ghost counters move accordingly -/
structure StepShape (s s' : State) (i : Nat) (t tn : Thread) : Prop where
  thr : s'.threads = s.threads.set i tn
  cases : (t.pc = .idle ∧ (∃ c rest, t.todo = c :: rest) ∧ tn.todo = t.todo ∧ tn.pc ≠ .idle ∧
            s'.all = s.all ∧ s'.rejected = s.rejected ∧ s'.q = s.q) ∨
          (t.pc ≠ .idle ∧ tn.todo = t.todo ∧ tn.pc ≠ .idle ∧
            s'.all.length = s.all.length ∧ s'.rejected = s.rejected) ∨
          (t.pc ≠ .idle ∧ t.pc ≠ .armTest ∧ (∀ id, t.pc ≠ .armAppend id) ∧ tn.todo = t.todo.tail ∧
            tn.pc = .idle ∧ s'.all.length = s.all.length ∧ s'.rejected = s.rejected) ∨
          (t.pc = .armTest ∧ s.cap ≤ s.q.length ∧ tn.todo = t.todo.tail ∧ tn.pc = .idle ∧
            s'.all = s.all ∧ s'.q = s.q ∧ s'.rejected = s.rejected + 1) ∨
          ((∃ id, t.pc = .armAppend id) ∧ tn.todo = t.todo.tail ∧ tn.pc = .idle ∧
            s'.all.length = s.all.length + 1 ∧ s'.rejected = s.rejected)

theorem stepT_shape {g : Tags} {s s' : State} {i : Nat} {t : Thread}
    (hs : stepT g s i t = some s') : ∃ tn, StepShape s s' i t tn := by
  obtain ⟨todo, pc⟩ := t
  cases pc with
  | idle =>
    cases todo with
    | nil => simp [stepT] at hs
    | cons c rest =>
      refine ⟨⟨c :: rest, firstPc s.q c⟩, ?_⟩
      simp only [stepT] at hs
      split at hs
      · split at hs
        · cases hs
        · cases hs
          exact ⟨rfl, Or.inl ⟨rfl, ⟨c, rest, rfl⟩, rfl, firstPc_ne_idle _ _, rfl, rfl, rfl⟩⟩
      · cases hs
        exact ⟨rfl, Or.inl ⟨rfl, ⟨c, rest, rfl⟩, rfl, firstPc_ne_idle _ _, rfl, rfl, rfl⟩⟩
  | armTest =>
    simp only [stepT] at hs
    split at hs
    · cases hs
      exact ⟨⟨todo, .armAppend s.nextId⟩, rfl,
        Or.inr (Or.inl ⟨by simp, rfl, by simp, rfl, rfl⟩)⟩
    · cases hs
      exact ⟨⟨todo.tail, .idle⟩, rfl,
        Or.inr (Or.inr (Or.inr (Or.inl ⟨rfl, by omega, rfl, rfl, rfl, rfl, rfl⟩)))⟩
  | armAppend id =>
    simp only [stepT] at hs
    cases hs
    exact ⟨⟨todo.tail, .idle⟩, rfl,
      Or.inr (Or.inr (Or.inr (Or.inr ⟨⟨id, rfl⟩, rfl, rfl, by simp [finishCall], rfl⟩)))⟩
  | loopHead k c =>
    cases k with
    | zero =>
      simp only [stepT] at hs
      cases hs
      exact ⟨⟨todo.tail, .idle⟩, rfl,
        Or.inr (Or.inr (Or.inl ⟨by simp, by simp, by simp, rfl, rfl, rfl, rfl⟩))⟩
    | succ k =>
      simp only [stepT] at hs
      cases hs
      exact ⟨⟨todo, .loopAct k c s.q.getLast?⟩, rfl,
        Or.inr (Or.inl ⟨by simp, rfl, by simp, rfl, rfl⟩)⟩
  | loopAct k c seen =>
    simp only [stepT] at hs
    split at hs
    · cases hs
      exact ⟨⟨todo.tail, .idle⟩, rfl,
        Or.inr (Or.inr (Or.inl ⟨by simp, by simp, by simp, rfl, rfl,
          actData_all_length c seen s.q s.all, rfl⟩))⟩
    · cases hs
      exact ⟨⟨todo, .loopHead k c⟩, rfl,
        Or.inr (Or.inl ⟨by simp, rfl, by simp, actData_all_length c seen s.q s.all, rfl⟩)⟩

theorem step_shape {g : Tags} {s s' : State} {i : Nat} (hs : step g s i = some s') :
    ∃ t tn, s.threads[i]? = some t ∧ StepShape s s' i t tn := by
  unfold step at hs
  cases ht : s.threads[i]? with
  | none => simp [ht] at hs
  | some t =>
    simp only [ht] at hs
    obtain ⟨tn, h⟩ := stepT_shape hs
    exact ⟨t, tn, rfl, h⟩

/-! ### the log is an interleaving of the programs -/

theorem remaining_step {g : Tags} {s s' : State} {i j : Nat} (hs : step g s j = some s') :
    remaining s.threads[i]? =
      (if j = i then (match startsCall s j with | some c => [c] | none => []) else []) ++
        remaining s'.threads[i]? := by
  obtain ⟨t, tn, hj, hthr, hc⟩ := step_shape hs
  have hlen : j < s.threads.length := (List.getElem?_eq_some_iff.mp hj).1
  by_cases hji : j = i
  · subst hji
    have hj' : s'.threads[j]? = some tn := by rw [hthr, List.getElem?_set]; simp [hlen]
    rw [hj, hj']
    obtain ⟨todo, pc⟩ := t
    obtain ⟨todo', pc'⟩ := tn
    simp only [if_true]
    rcases hc with ⟨hp, ⟨c, rest, htodo⟩, ht, hn, _⟩ | ⟨hp, ht, hn, _⟩ | ⟨hp, _, _, ht, hn, _⟩ |
      ⟨hp, _, ht, hn, _⟩ | ⟨⟨id, hp⟩, ht, hn, _⟩
    · simp only at hp htodo ht hn
      subst hp htodo ht
      have : startsCall s j = some c := by simp [startsCall, hj]
      rw [this]
      cases pc' <;> simp_all [remaining]
    · simp only at hp ht hn
      subst ht
      have : startsCall s j = none := by
        simp only [startsCall, hj]
        cases pc <;> simp_all
      rw [this]
      cases pc <;> cases pc' <;> simp_all [remaining]
    · simp only at hp ht hn
      subst ht hn
      have : startsCall s j = none := by
        simp only [startsCall, hj]
        cases pc <;> simp_all
      rw [this]
      cases pc <;> simp_all [remaining]
    · simp only at hp ht hn
      subst hp ht hn
      have : startsCall s j = none := by simp [startsCall, hj]
      rw [this]
      simp [remaining]
    · simp only at hp ht hn
      subst hp ht hn
      have : startsCall s j = none := by simp [startsCall, hj]
      rw [this]
      simp [remaining]
  · have : s'.threads[i]? = s.threads[i]? := by
      rw [hthr, List.getElem?_set]; simp [hji]
    rw [this]; simp [hji]

theorem callsOf_cons (i j : Nat) (c : Call) (log : List (Nat × Call)) :
    callsOf i ((j, c) :: log) = (if j = i then [c] else []) ++ callsOf i log := by
  unfold callsOf
  by_cases h : j = i
  · simp [h]
  · simp [h]

/-- per thread, the calls it started during a schedule followed by the calls it has not started yet
are the calls it had not started before: the log is an interleaving of the threads' programs -/
theorem log_interleaves (g : Tags) (i : Nat) (sched : List Step) : ∀ (s : State),
    callsOf i (acqLog g s sched) ++ remaining ((sys g).run s sched).threads[i]? =
      remaining s.threads[i]? := by
  induction sched with
  | nil => intro s; simp [acqLog, callsOf, System.run]
  | cons j ts ih =>
    intro s
    unfold System.run acqLog
    rw [show (sys g).step s j = step g s j from rfl]
    cases hs : step g s j with
    | none => exact ih s
    | some s' =>
      simp only []
      rw [remaining_step (i := i) hs, ← ih s']
      cases hsc : startsCall s j with
      | none => simp
      | some c => simp only []; rw [callsOf_cons]; simp

/-! ### every timed post is either tracked or rejected -/

theorem pendingArms_set {l : List Thread} {i : Nat} {t : Thread} (tn : Thread) (h : l[i]? = some t) :
    pendingArms (l.set i tn) + armCount t.todo = pendingArms l + armCount tn.todo := by
  induction l generalizing i with
  | nil => simp at h
  | cons a l ih =>
    cases i with
    | zero =>
      simp at h; subst h
      simp [pendingArms]; omega
    | succ i =>
      simp at h
      have := ih h
      simp [pendingArms] at this ⊢
      omega

theorem armCount_cons_arm (n : Nat) (rest : List Call) :
    armCount (.arm n :: rest) = armCount rest + 1 := by
  have : (Call.arm n).isArm = true := rfl
  simp [armCount, this]

theorem armCount_cons_cancel {c : Call} (hc : c.isArm = false) (rest : List Call) :
    armCount (c :: rest) = armCount rest := by
  simp [armCount, hc]

/-- `all.length + rejected + pendingArms` is constant -/
theorem acc_step {s s' : State} {i : Nat} (h : Inv s) (hs : step ⟨true⟩ s i = some s') :
    s'.all.length + s'.rejected + pendingArms s'.threads =
      s.all.length + s.rejected + pendingArms s.threads := by
  obtain ⟨t, tn, hi, hthr, hc⟩ := step_shape hs
  have hpc := h.pcs i t hi
  have hset := pendingArms_set tn hi
  rw [hthr]
  obtain ⟨todo, pc⟩ := t
  rcases hc with ⟨_, _, ht, _, ha, hr, _⟩ | ⟨_, ht, _, ha, hr⟩ | ⟨hp, hp1, hp2, ht, _, ha, hr⟩ |
    ⟨hp, _, ht, _, ha, _, hr⟩ | ⟨⟨id, hp⟩, ht, _, ha, hr⟩
  · rw [ht] at hset; rw [ha, hr]; omega
  · rw [ht] at hset; rw [ha, hr]; omega
  · simp only at hp hp1 hp2 ht
    rw [ht] at hset
    cases pc with
    | idle => exact absurd rfl hp
    | armTest => exact absurd rfl hp1
    | armAppend id => exact absurd rfl (hp2 id)
    | loopHead k c =>
      obtain ⟨⟨rest, hrest⟩, harm, _⟩ := hpc
      simp only at hrest; subst hrest
      rw [armCount_cons_cancel harm, List.tail_cons] at hset
      rw [ha, hr]; omega
    | loopAct k c seen =>
      obtain ⟨⟨rest, hrest⟩, harm, _⟩ := hpc
      simp only at hrest; subst hrest
      rw [armCount_cons_cancel harm, List.tail_cons] at hset
      rw [ha, hr]; omega
  · simp only at hp ht
    subst hp
    obtain ⟨n, rest, hrest⟩ := hpc
    simp only at hrest; subst hrest
    rw [ht, armCount_cons_arm, List.tail_cons] at hset
    rw [ha, hr]; omega
  · simp only at hp ht
    subst hp
    obtain ⟨⟨n, rest, hrest⟩, _⟩ := hpc
    simp only at hrest; subst hrest
    rw [ht, armCount_cons_arm, List.tail_cons] at hset
    rw [ha, hr]; omega

theorem acc_run (sched : List Step) : ∀ (s : State), Inv s →
    ((sys ⟨true⟩).run s sched).all.length + ((sys ⟨true⟩).run s sched).rejected +
        pendingArms ((sys ⟨true⟩).run s sched).threads =
      s.all.length + s.rejected + pendingArms s.threads := by
  induction sched with
  | nil => intro s _; rfl
  | cons i ts ih =>
    intro s h
    unfold System.run
    rw [show (sys ⟨true⟩).step s i = step ⟨true⟩ s i from rfl]
    cases hs : step ⟨true⟩ s i with
    | none => exact ih s h
    | some s' => simp only []; rw [ih s' (inv_step h hs), acc_step h hs]

/-! ### one call seen from outside -/

theorem callAtomic_cancel {c : Call} (hc : c.isArm = false) (cap : Nat) (a : AState) :
    callAtomic cap c a =
      ⟨(cancelAtomic c a.q a.all).1, (cancelAtomic c a.q a.all).2, a.nextId, a.rejected⟩ := by
  cases c with
  | arm n => cases hc
  | cancelName n => rfl
  | cancelId n => rfl

/-- a schedule during which exactly one call is started (by thread `i`, while the lock is free) and
after which the lock is free again has the effect of that call run without interruption (the other
threads' entries in the schedule found the lock taken and were skipped) -/
theorem single_call_atomic {s : State} (h : Inv s) (sched : List Step) (i : Nat) (c : Call)
    (hfree : s.owner = none) (hlog : acqLog ⟨true⟩ s sched = [(i, c)])
    (hdone : ((sys ⟨true⟩).run s sched).owner = none) :
    ((sys ⟨true⟩).run s sched).data = callAtomic s.cap c s.data := by
  have := refines_run sched s h
  rw [absData_free hdone, absData_free hfree, hlog] at this
  exact this

theorem cancelAtomic_cancelName_q (n : Nat) (q all : List Rec) (hn : (q.map (·.id)).Nodup) :
    (cancelAtomic (.cancelName n) q all).1 = q.filter (fun r => !(Call.cancelName n).hits r) := by
  have hq : q = [] ++ q.reverse.reverse := by simp
  have hlen : q.length = q.reverse.length := by simp
  have hn' : ((([] : List Rec) ++ q.reverse.reverse).map (·.id)).Nodup := by rw [← hq]; exact hn
  have := loopRun_cancelName n q.reverse [] all hn'
  rw [← hlen, ← hq] at this
  unfold cancelAtomic
  rw [this]; simp

theorem pendingArms_init (cap : Nat) (progs : List (List Call)) :
    pendingArms (init cap progs).threads = totalArms progs := by
  simp [pendingArms, totalArms, init, List.map_map, Function.comp_def]

end Miros.Conc.Track
