import MirosModel.Conc.AOStep
import MirosModel.Conc.AOScan
/-!
# Invariants of the active-object system (locked cancellation, capacity checked first)
-/
namespace Miros.Conc.AO
open Miros.Queue Miros.Conc.LD

/-! ### the timer program under `cancelLocked` -/

theorem loopTest_locked {g : Tags} (hl : g.cancelLocked = true) (c : LD.Config) (s : State) (tm : Timer) :
    loopTest g c s tm =
      if tm.flag then
        (if tm.deferred then { tm with pc := .s, wake := s.now + tm.period } else { tm with deferred := true, pc := .k })
      else { tm with pc := .fin } := by
  unfold loopTest; rw [hl]; rfl

theorem afterPost_locked {g : Tags} (hl : g.cancelLocked = true) (c : LD.Config) (s : State) (tm : Timer) :
    afterPost g c s tm =
      loopTest g c s (if tm.total ≠ 0 ∧ tm.activated ≥ tm.total then { tm with lock := none, flag := false }
                      else { tm with lock := none }) := by
  unfold afterPost; rw [hl]; rfl

/-- the source's own bookkeeping during a post -/
def postUpd (s : State) (tm : Timer) (p' : Poster) (lbl : String) : Timer :=
  { tm with post := p', placedAt := if isPlacement lbl then tm.placedAt ++ [s.now] else tm.placedAt }

/-- one step of a timer thread under locked cancellation, one flat case per control path -/
inductive LStep (c : LD.Config) (s : State) (tm : Timer) : Timer → LD.State → String → Prop
  | bSleep (h : tm.pc = .b) (hf : tm.flag = true) (hd : tm.deferred = true) :
      LStep c s tm { tm with pc := .s, wake := s.now + tm.period } s.ld "begin"
  | bGo (h : tm.pc = .b) (hf : tm.flag = true) (hd : tm.deferred = false) :
      LStep c s tm { tm with deferred := true, pc := .k } s.ld "begin"
  | bEnd (h : tm.pc = .b) (hf : tm.flag = false) : LStep c s tm { tm with pc := .fin } s.ld "begin"
  | s (h : tm.pc = .s) (hw : tm.wake ≤ s.now) : LStep c s tm { tm with pc := .k } s.ld "sleep"
  | kGo (h : tm.pc = .k) (hl : tm.lock = none) (hf : tm.flag = true) :
      LStep c s tm { tm with lock := some .timer, activated := tm.activated + 1, pc := .p,
                             post := ⟨[(tm.kind, evOf tm)], startPc c.alg tm.kind, 0⟩, nposted := tm.nposted + 1 }
        s.ld "lock.acquire"
  | kEnd (h : tm.pc = .k) (hl : tm.lock = none) (hf : tm.flag = false) :
      LStep c s tm { tm with pc := .fin } s.ld "lock.acquire"
  | pMid (h : tm.pc = .p) (sh : Shared) (p' : Poster) (lbl : String)
      (hp : posterStep c (shared s.ld) tm.post = some (sh, p', lbl)) (hne : p'.posts ≠ []) :
      LStep c s tm (postUpd s tm p' lbl) (s.ld.withShared sh) lbl
  | pEndExhausted (h : tm.pc = .p) (sh : Shared) (p' : Poster) (lbl : String)
      (hp : posterStep c (shared s.ld) tm.post = some (sh, p', lbl)) (hne : p'.posts = [])
      (hx : tm.total ≠ 0 ∧ tm.activated ≥ tm.total) :
      LStep c s tm { postUpd s tm p' lbl with lock := none, flag := false, pc := .fin } (s.ld.withShared sh) lbl
  | pEndSleep (h : tm.pc = .p) (sh : Shared) (p' : Poster) (lbl : String)
      (hp : posterStep c (shared s.ld) tm.post = some (sh, p', lbl)) (hne : p'.posts = [])
      (hx : ¬ (tm.total ≠ 0 ∧ tm.activated ≥ tm.total)) (hf : tm.flag = true) (hd : tm.deferred = true) :
      LStep c s tm { postUpd s tm p' lbl with lock := none, pc := .s, wake := s.now + tm.period } (s.ld.withShared sh) lbl
  | pEndGo (h : tm.pc = .p) (sh : Shared) (p' : Poster) (lbl : String)
      (hp : posterStep c (shared s.ld) tm.post = some (sh, p', lbl)) (hne : p'.posts = [])
      (hx : ¬ (tm.total ≠ 0 ∧ tm.activated ≥ tm.total)) (hf : tm.flag = true) (hd : tm.deferred = false) :
      LStep c s tm { postUpd s tm p' lbl with lock := none, deferred := true, pc := .k } (s.ld.withShared sh) lbl
  | pEndCancelled (h : tm.pc = .p) (sh : Shared) (p' : Poster) (lbl : String)
      (hp : posterStep c (shared s.ld) tm.post = some (sh, p', lbl)) (hne : p'.posts = [])
      (hx : ¬ (tm.total ≠ 0 ∧ tm.activated ≥ tm.total)) (hf : tm.flag = false) :
      LStep c s tm { postUpd s tm p' lbl with lock := none, pc := .fin } (s.ld.withShared sh) lbl

theorem TStep.locked {g : Tags} {c : LD.Config} (hl : g.cancelLocked = true) {s : State}
    {tm tm' : Timer} {ld' : LD.State} {lbl : String} (hs : TStep g c s tm tm' ld' lbl) :
    LStep c s tm tm' ld' lbl := by
  cases hs with
  | b hpc =>
    rw [loopTest_locked hl]
    cases hf : tm.flag with
    | false =>
      have := LStep.bEnd (c := c) (s := s) hpc hf
      simpa [hf] using this
    | true =>
      cases hd : tm.deferred with
      | false =>
        have := LStep.bGo (c := c) (s := s) hpc hf hd
        simpa [hf, hd] using this
      | true =>
        have := LStep.bSleep (c := c) (s := s) hpc hf hd
        simpa [hf, hd] using this
  | s hpc hw => rw [hl]; exact LStep.s hpc hw
  | kGo hpc hlk hf => exact LStep.kGo hpc hlk hf
  | kEnd hpc hlk hf => exact LStep.kEnd hpc hlk hf
  | pMid hpc sh p' lbl hp hne => exact LStep.pMid hpc sh p' lbl hp hne
  | pEnd hpc sh p' lbl hp hne =>
    rw [afterPost_locked hl, loopTest_locked hl]
    by_cases hx : tm.total ≠ 0 ∧ tm.activated ≥ tm.total
    · have := LStep.pEndExhausted hpc sh p' lbl hp hne hx
      simpa [hx, postUpd] using this
    · cases hf : tm.flag with
      | false =>
        have := LStep.pEndCancelled hpc sh p' lbl hp hne hx hf
        simpa [hx, hf, postUpd] using this
      | true =>
        cases hd : tm.deferred with
        | false =>
          have := LStep.pEndGo hpc sh p' lbl hp hne hx hf hd
          simpa [hx, hf, hd, postUpd] using this
        | true =>
          have := LStep.pEndSleep hpc sh p' lbl hp hne hx hf hd
          simpa [hx, hf, hd, postUpd] using this

/-- lifting a property of single timers (which may mention the clock, monotonically) to an invariant -/
theorem timers_inv_step {g : Tags} {c : LD.Config} (hl : g.cancelLocked = true) (hb : g.checkBeforeStart = true)
    (P : Nat → Nat → Timer → Prop)
    (hmono : ∀ now now' i tm, now ≤ now' → P now i tm → P now' i tm)
    (hfresh : ∀ now i k sg p t d, P now i (freshTimer now i k sg p t d))
    (hcancel : ∀ now i tm, P now i tm → tm.lock = none → P now i (cancelled tm))
    (htstep : ∀ s i tm tm' ld' lbl, P s.now i tm → LStep c s tm tm' ld' lbl → P s.now i tm')
    {s s' : State} {tid : Nat} {lbl : String} (h : stepL g c s tid = some (s', lbl))
    (hI : ∀ i tm, s.timers[i]? = some tm → P s.now i tm) :
    ∀ i tm, s'.timers[i]? = some tm → P s'.now i tm := by
  intro i tm' h'
  obtain ⟨hnow, _, _, hc⟩ := step_timer hl hb h
  rcases hc i tm' h' with ⟨h1, _⟩ | ⟨_, _, hn, tm, ld', h1, hs⟩ | ⟨_, _, hn, tm, h1, hlk, rfl, _⟩ |
      ⟨_, _, hn, rfl, _, k, sg, p, t, d, rfl⟩
  · exact hmono _ _ _ _ hnow (hI i tm' h1)
  · rw [hn]; exact htstep s i tm tm' ld' lbl (hI i tm h1) (hs.locked hl)
  · rw [hn]; exact hcancel _ _ _ (hI i tm h1) hlk
  · rw [hn]; exact hfresh _ _ _ _ _ _ _

/-- the basic facts about every timer: ids are list indices, every timer's thread was started, the
source's lock is held exactly while it posts -/
def TimerOk (i : Nat) (tm : Timer) : Prop :=
  tm.id = i ∧ tm.started = true ∧ (tm.lock = some .timer ↔ tm.pc = .p) ∧ (tm.lock = none ∨ tm.lock = some .timer)

theorem TimerOk.lstep {c : LD.Config} {s : State} {i : Nat}
    {tm tm' : Timer} {ld' : LD.State} {lbl : String} (h : TimerOk i tm) (hs : LStep c s tm tm' ld' lbl) :
    TimerOk i tm' := by
  obtain ⟨h1, h2, h3, h4⟩ := h
  cases hs <;> simp_all [TimerOk, postUpd]


theorem TimerOk.fresh (now i : Nat) (k : Kind) (sg p t : Nat) (d : Bool) : TimerOk i (freshTimer now i k sg p t d) := by
  simp [TimerOk, freshTimer]

theorem TimerOk.cancel {i : Nat} {tm : Timer} (h : TimerOk i tm) (hl : tm.lock = none) : TimerOk i (cancelled tm) := by
  obtain ⟨h1, h2, h3, h4⟩ := h
  simp_all [TimerOk, cancelled]

/-! ### the selection of `stop()` -/

theorem stopSel_fold_perm (s : State) (names : List Nat) (acc : List Nat × List Nat) :
    let r := names.foldl (fun (acc : List Nat × List Nat) nm =>
      let (m, o) := scan (timerHas s fun tm => tm.name = nm) false acc.2.length acc.2 []
      (acc.1 ++ m, o)) acc
    (r.1 ++ r.2).Perm (acc.1 ++ acc.2) := by
  induction names generalizing acc with
  | nil => simp
  | cons nm names ih =>
    simp only [List.foldl_cons]
    refine (ih _).trans ?_
    have := scan_perm (timerHas s fun tm => tm.name = nm) false acc.2.length acc.2 []
    simp only [List.nil_append] at this
    simp only [List.append_assoc]
    exact List.Perm.append_left _ this

theorem stopSel_perm (s : State) : ((stopSel s).1 ++ (stopSel s).2).Perm s.order := by
  have := stopSel_fold_perm s (s.order.filterMap fun i => (s.timers[i]?).map (·.name)) ([], s.order)
  simpa [stopSel] using this

/-! ### the global invariant -/

/-- invariant of the reachable states: every timer is well-formed (`TimerOk`), and `posted_events_queue`
(`order`) holds at most `maxTimers` distinct indices of existing timers -/
structure Inv (s : State) : Prop where
  timers : ∀ i tm, s.timers[i]? = some tm → TimerOk i tm
  order_len : s.order.length ≤ s.maxTimers
  order_nodup : s.order.Nodup
  order_lt : ∀ i ∈ s.order, i < s.timers.length

theorem Inv.init (c : LD.Config) (progs : List (List (Kind × Ev))) (clients : List (List Call)) (maxTimers : Nat) :
    Inv (init c progs clients maxTimers) := by
  constructor <;> simp [AO.init]

/-- a part of the queue (as a multiset) keeps the three properties of `order` -/
theorem order_sub {s : State} (hI : Inv s) {ms ord : List Nat} (hp : (ms ++ ord).Perm s.order) :
    ord.length ≤ s.maxTimers ∧ ord.Nodup ∧ ∀ i ∈ ord, i < s.timers.length := by
  have hlen := hp.length_eq
  have hnd : (ms ++ ord).Nodup := hp.nodup_iff.mpr hI.order_nodup
  refine ⟨?_, (List.nodup_append.mp hnd).2.1, fun i hi => hI.order_lt i (hp.subset (by simp [hi]))⟩
  have := hI.order_len
  simp at hlen
  omega

theorem Inv.step {g : Tags} {c : LD.Config} (hl : g.cancelLocked = true) (hb : g.checkBeforeStart = true)
    {s s' : State} {tid : Nat} {lbl : String} (hI : Inv s) (h : stepL g c s tid = some (s', lbl)) : Inv s' := by
  have ht : ∀ i tm, s'.timers[i]? = some tm → TimerOk i tm :=
    timers_inv_step hl hb (fun _ i tm => TimerOk i tm) (fun _ _ _ _ _ h => h)
      (fun now i k sg p t d => TimerOk.fresh now i k sg p t d) (fun _ _ _ h hl => h.cancel hl)
      (fun _ _ _ _ _ _ h hs => h.lstep hs) h hI.timers
  obtain ⟨_, hmax, hlen, _⟩ := step_timer hl hb h
  have hsame : s'.order = s.order → Inv s' := by
    intro ho
    refine ⟨ht, ?_, ?_, ?_⟩
    · rw [ho, hmax]; exact hI.order_len
    · rw [ho]; exact hI.order_nodup
    · rw [ho]; intro i hi; exact Nat.lt_of_lt_of_le (hI.order_lt i hi) hlen
  have hsub : ∀ ms, (ms ++ s'.order).Perm s.order → Inv s' := by
    intro ms hp
    obtain ⟨h1, h2, h3⟩ := order_sub hI hp
    exact ⟨ht, by rw [hmax]; exact h1, h2, fun i hi => Nat.lt_of_lt_of_le (h3 i hi) hlen⟩
  rcases stepL_cases hl hb h with ⟨rfl, m, rfl, hm⟩ | ⟨j, cl, cl', ld', timers', order', rfl, hj, hcl, hs, rfl⟩ |
      ⟨i, tm, tm', ld', rfl, hi100, htm, hst, hs, rfl⟩ | ⟨hlt, ld', hld, rfl⟩
  · exact hsame rfl
  · cases hs with
    | timedOk kind sig period total deferred rest hpc hc hlt =>
      refine ⟨ht, ?_, ?_, ?_⟩
      · simp [trackedCount] at hlt ⊢; omega
      · simp only
        rw [List.nodup_append]
        refine ⟨hI.order_nodup, by simp, ?_⟩
        intro a ha b hb'
        simp at hb'
        have := hI.order_lt a ha
        omega
      · intro i hi
        simp at hi ⊢
        rcases hi with hi | hi
        · have := hI.order_lt i hi; omega
        · omega
    | cancelEvent id same rest hpc hc => exact hsub _ (by simpa using scan_perm _ true s.order.length s.order [])
    | cancelEvents name same rest hpc hc => exact hsub _ (by simpa using scan_perm _ false s.order.length s.order [])
    | stopJoin call rest hpc hc hfin => exact hsub _ (stopSel_perm s)
    | _ => exact hsame rfl
  · exact hsame rfl
  · exact hsame rfl

theorem sys_step_iff {g : Tags} {c : LD.Config} {s s' : State} {t : Nat} :
    (sys g c).step s t = some s' ↔ ∃ lbl, stepL g c s t = some (s', lbl) := by
  simp only [sys]
  cases hst : stepL g c s t with
  | none => simp
  | some r => obtain ⟨s1, lbl⟩ := r; simp

/-- the invariant holds in every reachable state -/
theorem Inv.run {g : Tags} {c : LD.Config} (hl : g.cancelLocked = true) (hb : g.checkBeforeStart = true)
    (sched : List Nat) (s : State) (hI : Inv s) : Inv ((sys g c).run s sched) := by
  refine (sys g c).inv_run Inv ?_ sched s hI
  intro s t s' hI hs
  obtain ⟨lbl, hst⟩ := sys_step_iff.mp hs
  exact hI.step hl hb hst

/-- induction over schedules for a property that is preserved by the steps of states satisfying `Inv` -/
theorem run_inv {g : Tags} {c : LD.Config} (hl : g.cancelLocked = true) (hb : g.checkBeforeStart = true)
    (I : State → Prop)
    (hstep : ∀ s t s' lbl, Inv s → I s → stepL g c s t = some (s', lbl) → I s')
    (sched : List Nat) (s : State) (hI : Inv s) (h : I s) : I ((sys g c).run s sched) := by
  have := (sys g c).inv_run (fun s => Inv s ∧ I s) (by
    intro s t s' hi hs
    obtain ⟨lbl, hst⟩ := sys_step_iff.mp hs
    exact ⟨hi.1.step hl hb hst, hstep s t s' lbl hi.1 hi.2 hst⟩) sched s ⟨hI, h⟩
  exact this.2

end Miros.Conc.AO
