import MirosModel.Conc.AOInv
/-!
# Cancellation: what is selected, what a cancelled source does afterwards
-/
namespace Miros.Conc.AO
open Miros.Queue Miros.Conc.LD

/-- every old timer is still there after a step, unchanged, or moved by its own thread, or cancelled -/
theorem step_timer_fwd {g : Tags} {c : LD.Config} (hl : g.cancelLocked = true) (hb : g.checkBeforeStart = true)
    {s s' : State} {tid : Nat} {lbl : String} (h : stepL g c s tid = some (s', lbl))
    {i : Nat} {tm : Timer} (htm : s.timers[i]? = some tm) :
    ∃ tm', s'.timers[i]? = some tm' ∧
      (tm' = tm ∨ (tid = 200 + i ∧ i < 100 ∧ s'.now = s.now ∧ ∃ ld', LStep c s tm tm' ld' lbl) ∨
        (300 ≤ tid ∧ tid ≠ 1000 ∧ tm.lock = none ∧ tm' = cancelled tm)) := by
  obtain ⟨_, _, hlen, hc⟩ := step_timer hl hb h
  have hi : i < s.timers.length := by
    rcases Nat.lt_or_ge i s.timers.length with h1 | h1
    · exact h1
    · rw [List.getElem?_eq_none h1] at htm; simp at htm
  have hi' : i < s'.timers.length := by omega
  refine ⟨s'.timers[i], List.getElem?_eq_getElem hi', ?_⟩
  rcases hc i _ (List.getElem?_eq_getElem hi') with ⟨h1, _⟩ | ⟨h1, h2, hn, tm0, ld', h3, hs⟩ |
      ⟨h1, h2, hn, tm0, h3, hlk, he, _⟩ | ⟨_, _, _, _, h3, _⟩
  · left; rw [htm] at h1; exact (Option.some.inj h1).symm
  · right; left
    rw [htm] at h3; cases h3
    exact ⟨h1, h2, hn, ld', hs.locked hl⟩
  · right; right
    rw [htm] at h3; cases h3
    exact ⟨h1, h2, hlk, he⟩
  · rw [htm] at h3; simp at h3

/-- the source's run flag is clear and it is not inside a post -/
def Quiet (s : State) (i : Nat) : Prop := ∃ tm, s.timers[i]? = some tm ∧ tm.flag = false ∧ tm.pc ≠ .p

/-- `Quiet`, with the placement instants so far -/
def QuietAt (s : State) (i : Nat) (pl : List Nat) : Prop :=
  ∃ tm, s.timers[i]? = some tm ∧ tm.flag = false ∧ tm.pc ≠ .p ∧ tm.placedAt = pl

theorem LStep.quiet {c : LD.Config} {s : State} {tm tm' : Timer} {ld' : LD.State} {lbl : String}
    (hs : LStep c s tm tm' ld' lbl) (hf : tm.flag = false) (hp : tm.pc ≠ .p) :
    tm'.flag = false ∧ tm'.pc ≠ .p ∧ tm'.placedAt = tm.placedAt ∧ ld' = s.ld := by
  cases hs <;> simp_all

theorem QuietAt.step {g : Tags} {c : LD.Config} (hl : g.cancelLocked = true) (hb : g.checkBeforeStart = true)
    {s s' : State} {tid : Nat} {lbl : String} (h : stepL g c s tid = some (s', lbl))
    {i : Nat} {pl : List Nat} (hq : QuietAt s i pl) : QuietAt s' i pl := by
  obtain ⟨tm, htm, hf, hp, hpl⟩ := hq
  obtain ⟨tm', htm', hc⟩ := step_timer_fwd hl hb h htm
  refine ⟨tm', htm', ?_⟩
  rcases hc with rfl | ⟨_, _, _, ld', hs⟩ | ⟨_, _, _, rfl⟩
  · exact ⟨hf, hp, hpl⟩
  · have := hs.quiet hf hp
    exact ⟨this.1, this.2.1, this.2.2.1.trans hpl⟩
  · exact ⟨rfl, hp, hpl⟩

theorem QuietAt.quiet {s : State} {i : Nat} {pl : List Nat} (h : QuietAt s i pl) : Quiet s i := by
  obtain ⟨tm, h1, h2, h3, _⟩ := h; exact ⟨tm, h1, h2, h3⟩

theorem Quiet.quietAt {s : State} {i : Nat} (h : Quiet s i) : ∃ pl, QuietAt s i pl := by
  obtain ⟨tm, h1, h2, h3⟩ := h; exact ⟨tm.placedAt, tm, h1, h2, h3, rfl⟩

theorem Quiet.step {g : Tags} {c : LD.Config} (hl : g.cancelLocked = true) (hb : g.checkBeforeStart = true)
    {s s' : State} {tid : Nat} {lbl : String} (h : stepL g c s tid = some (s', lbl))
    {i : Nat} (hq : Quiet s i) : Quiet s' i := by
  obtain ⟨pl, hq⟩ := hq.quietAt
  exact (hq.step hl hb h).quiet

/-- a quiet source stays quiet, with the same placements, under every continuation -/
theorem QuietAt.run {g : Tags} {c : LD.Config} (hl : g.cancelLocked = true) (hb : g.checkBeforeStart = true)
    (sched : List Nat) (s : State) {i : Nat} {pl : List Nat} (hq : QuietAt s i pl) :
    QuietAt ((sys g c).run s sched) i pl := by
  refine (sys g c).inv_run (fun s => QuietAt s i pl) ?_ sched s hq
  intro s t s' hq hs
  obtain ⟨lbl, hst⟩ := sys_step_iff.mp hs
  exact hq.step hl hb hst

/-! ### the cancelling client -/

/-- the client's record after a step of another thread is the same -/
theorem step_client_frame {g : Tags} {c : LD.Config} (hl : g.cancelLocked = true) (hb : g.checkBeforeStart = true)
    {s s' : State} {tid : Nat} {lbl : String} (h : stepL g c s tid = some (s', lbl)) (j : Nat) :
    s'.clients[j]? = s.clients[j]? ∨
    (tid = 300 + j ∧ tid ≠ 1000 ∧ ∃ cl cl' ld' timers' order', s.clients[j]? = some cl ∧ s'.clients[j]? = some cl' ∧
      CStep g c s cl cl' ld' timers' order' lbl ∧
      s' = { s with ld := ld', timers := timers', clients := s.clients.set j cl', order := order' }) := by
  rcases stepL_cases hl hb h with ⟨rfl, m, rfl, hm⟩ | ⟨j', cl, cl', ld', timers', order', rfl, hj, hcl, hs, rfl⟩ |
      ⟨i, tm, tm', ld', rfl, hi100, htm, hst, hs, rfl⟩ | ⟨hlt, ld', hld, rfl⟩
  · left; rfl
  · by_cases hjj : j' = j
    · subst hjj
      right
      have hjl : j' < s.clients.length := by
        rcases Nat.lt_or_ge j' s.clients.length with h1 | h1
        · exact h1
        · rw [List.getElem?_eq_none h1] at hcl; simp at hcl
      exact ⟨rfl, hj, cl, cl', ld', timers', order', hcl, by simp [hjl], hs, rfl⟩
    · left; simp [List.getElem?_set_ne hjj]
  · left; rfl
  · left; rfl

/-- no client step lengthens the client's list of remaining calls -/
theorem CStep.calls_len {g : Tags} {c : LD.Config} {s : State} {cl cl' : Client} {ld' : LD.State}
    {timers' : List Timer} {order' : List Nat} {lbl : String} (h : CStep g c s cl cl' ld' timers' order' lbl) :
    cl'.calls.length ≤ cl.calls.length := by
  have hsel : ∀ ms, (afterSelect cl ms).calls.length ≤ cl.calls.length := by
    intro ms; cases ms <;> simp [afterSelect, finishCall]
  cases h with
  | stopPost call rest sh p' lbl hpc hc hp => split <;> simp
  | _ => first | exact hsel _ | simp [finishCall]

/-- progress of a cancelling call of client `j`, whose remaining-call count is `n` while it runs: every
selected source (`ms`) is still on the list of locks to take, or is already quiet -/
def Cancelling (s : State) (j n : Nat) (ms : List Nat) : Prop :=
  ∃ cl, s.clients[j]? = some cl ∧
    ((cl.calls.length = n ∧ ∃ pend, cl.pc = .cancelLock pend ∧ ∀ i ∈ ms, i ∈ pend ∨ Quiet s i) ∨
     (cl.calls.length < n ∧ ∀ i ∈ ms, Quiet s i))

theorem Cancelling.step {g : Tags} {c : LD.Config} (hl : g.cancelLocked = true) (hb : g.checkBeforeStart = true)
    {s s' : State} {tid : Nat} {lbl : String} (hI : Inv s) (h : stepL g c s tid = some (s', lbl))
    {j n : Nat} {ms : List Nat} (hc : Cancelling s j n ms) : Cancelling s' j n ms := by
  obtain ⟨cl, hcl, hd⟩ := hc
  have hq : ∀ i, Quiet s i → Quiet s' i := fun i hq => hq.step hl hb h
  rcases step_client_frame hl hb h j with hsame | ⟨rfl, hj, cl0, cl', ld', timers', order', hcl0, hcl', hs, he⟩
  · refine ⟨cl, by rw [hsame]; exact hcl, ?_⟩
    rcases hd with ⟨h1, pend, h2, h3⟩ | ⟨h1, h3⟩
    · exact Or.inl ⟨h1, pend, h2, fun i hi => (h3 i hi).imp id (hq i)⟩
    · exact Or.inr ⟨h1, fun i hi => hq i (h3 i hi)⟩
  · rw [hcl] at hcl0; cases hcl0
    refine ⟨cl', hcl', ?_⟩
    rcases hd with ⟨h1, pend, h2, h3⟩ | ⟨h1, h3⟩
    · cases hs with
      | lockNil call rest hpc hc =>
        right
        rw [h2] at hpc; cases hpc
        refine ⟨by simp [finishCall, hc] at h1 ⊢; omega, fun i hi => ?_⟩
        rcases h3 i hi with h4 | h4
        · simp at h4
        · exact hq i h4
      | lockCons call rest i0 pend' tm hpc hc htm hlk =>
        rw [h2] at hpc; cases hpc
        have hok := hI.timers i0 tm htm
        have hpc0 : tm.pc ≠ .p := by
          intro hp
          have := hok.2.2.1.mpr hp
          rw [hlk] at this; simp at this
        have hq0 : Quiet s' i0 := by
          refine ⟨cancelled tm, ?_, rfl, hpc0⟩
          rw [he]; simp only
          rw [List.getElem?_modify_eq, htm]; rfl
        cases pend' with
        | nil =>
          right
          refine ⟨by simp [afterSelect, finishCall, hc] at h1 ⊢; omega, fun i hi => ?_⟩
          rcases h3 i hi with h4 | h4
          · simp at h4; rw [h4]; exact hq0
          · exact hq i h4
        | cons a l =>
          left
          refine ⟨by simpa [afterSelect] using h1, a :: l, rfl, fun i hi => ?_⟩
          rcases h3 i hi with h4 | h4
          · simp only [List.mem_cons] at h4
            rcases h4 with rfl | h4
            · exact Or.inr hq0
            · exact Or.inl (by simpa using h4)
          · exact Or.inr (hq i h4)
      | _ => rw [h2] at *; simp_all
    · exact Or.inr ⟨Nat.lt_of_le_of_lt hs.calls_len h1, fun i hi => hq i (h3 i hi)⟩

/-- once client `j` is at `cancelLock pend`, in every later state in which that call has returned (fewer calls
remain) every source of `pend` is quiet -/
theorem cancel_completes {g : Tags} {c : LD.Config} (hl : g.cancelLocked = true) (hb : g.checkBeforeStart = true)
    (s : State) (hI : Inv s) (j : Nat) (cl : Client) (pend : List Nat) (hcl : s.clients[j]? = some cl)
    (hpc : cl.pc = .cancelLock pend) (sched : List Nat) (cl2 : Client)
    (h2 : ((sys g c).run s sched).clients[j]? = some cl2) (hlen : cl2.calls.length < cl.calls.length) :
    ∀ i ∈ pend, Quiet ((sys g c).run s sched) i := by
  have h0 : Cancelling s j cl.calls.length pend := ⟨cl, hcl, Or.inl ⟨rfl, pend, hpc, fun i hi => Or.inl hi⟩⟩
  have := run_inv (c := c) hl hb (fun s => Cancelling s j cl.calls.length pend)
    (fun s t s' lbl hI hc hs => hc.step hl hb hI hs) sched s hI h0
  obtain ⟨cl3, h3, hd⟩ := this
  rw [h2] at h3; cases h3
  rcases hd with ⟨h4, _⟩ | ⟨_, h4⟩
  · omega
  · exact h4


/-! ### what the searches select -/

theorem timer_of_order {s : State} (hI : Inv s) {i : Nat} (hi : i ∈ s.order) :
    ∃ tm, s.timers[i]? = some tm ∧ tm.id = i := by
  have hlt := hI.order_lt i hi
  exact ⟨s.timers[i], List.getElem?_eq_getElem hlt, (hI.timers i _ (List.getElem?_eq_getElem hlt)).1⟩

/-- ids are compared by value: a tracked entry matches `id` iff it is the source number `id` -/
theorem hitId_iff {g : Tags} (hq : g.cancelEq = true) {s : State} (hI : Inv s) (id : Nat) (same : Bool) {i : Nat}
    (hi : i ∈ s.order) : hitId g s id same i = true ↔ i = id := by
  obtain ⟨tm, htm, hid⟩ := timer_of_order hI hi
  simp [hitId, timerHas, htm, hq, hid]

theorem hitName_iff {g : Tags} (hq : g.cancelEq = true) (s : State) (name : Nat) (same : Bool) (i : Nat) :
    hitName g s name same i = true ↔ ∃ tm, s.timers[i]? = some tm ∧ tm.name = name := by
  simp only [hitName, timerHas, hq, Bool.true_or, Bool.and_true]
  cases s.timers[i]? <;> simp

/-- ids compared by identity, called with an equal copy: nothing matches -/
theorem hitId_identity {g : Tags} (hq : g.cancelEq = false) (s : State) (id i : Nat) : hitId g s id false i = false := by
  simp only [hitId, timerHas, hq, Bool.or_self, Bool.and_false]
  cases s.timers[i]? <;> rfl

theorem hitName_identity {g : Tags} (hq : g.cancelEq = false) (s : State) (name i : Nat) :
    hitName g s name false i = false := by
  simp only [hitName, timerHas, hq, Bool.or_self, Bool.and_false]
  cases s.timers[i]? <;> rfl

/-- `cancel_event(id)` selects exactly the tracked source `id` (if it is tracked) and takes it out of the queue -/
theorem select_id {g : Tags} (hq : g.cancelEq = true) {s : State} (hI : Inv s) (id : Nat) (same : Bool) :
    (scan (hitId g s id same) true s.order.length s.order []).1 = (if id ∈ s.order then [id] else []) ∧
    (scan (hitId g s id same) true s.order.length s.order []).2.Perm (s.order.erase id) := by
  by_cases hm : id ∈ s.order
  · obtain ⟨p, suf, ho⟩ := List.append_of_mem hm
    have hnd := hI.order_nodup
    have hsuf : ∀ y ∈ suf, hitId g s id same y = false := by
      intro y hy
      have hyo : y ∈ s.order := by rw [ho]; simp [hy]
      have hne : y ≠ id := by
        rintro rfl
        rw [ho] at hnd
        have := (List.nodup_append.mp hnd).2.1
        simp at this
        exact this.1 hy
      cases hh : hitId g s id same y with
      | false => rfl
      | true => exact absurd ((hitId_iff hq hI id same hyo).mp hh) hne
    have hx : hitId g s id same id = true := (hitId_iff hq hI id same hm).mpr rfl
    have hsc := scan_first_some (hitId g s id same) p suf id hx hsuf
    rw [← ho] at hsc
    rw [hsc]
    simp only [hm, if_true, true_and]
    have h1 : (id :: (suf ++ p)).Perm s.order := by
      rw [ho]
      refine (List.Perm.cons id List.perm_append_comm).trans ?_
      exact (List.perm_middle).symm
    exact List.Perm.cons_inv (h1.trans (List.perm_cons_erase hm))
  · have hall : ∀ y ∈ s.order, hitId g s id same y = false := by
      intro y hy
      cases hh : hitId g s id same y with
      | false => rfl
      | true => exact absurd ((hitId_iff hq hI id same hy).mp hh ▸ hy) hm
    rw [scan_first_none _ _ hall]
    simp [hm, List.erase_of_not_mem hm]


theorem afterSelect_eq_ite (cl : Client) (ms : List Nat) :
    afterSelect cl ms = if ms = [] then finishCall cl else { cl with pc := .cancelLock ms } := by
  cases ms <;> simp [afterSelect]

theorem hitName_eq {g : Tags} (hq : g.cancelEq = true) (s : State) (name : Nat) (same : Bool) :
    hitName g s name same = timerHas s fun tm => tm.name = name := by
  funext i
  simp only [hitName, timerHas, hq, Bool.true_or, Bool.and_true]

theorem getElem?_set_self' {α : Type} {l : List α} {j : Nat} {a b : α} (h : l[j]? = some a) : (l.set j b)[j]? = some b := by
  have hjl : j < l.length := by
    rcases Nat.lt_or_ge j l.length with h1 | h1
    · exact h1
    · rw [List.getElem?_eq_none h1] at h; simp at h
  simp [hjl]

end Miros.Conc.AO
