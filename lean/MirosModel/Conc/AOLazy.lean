import MirosModel.Conc.AOTime
/-!
# Lazy clock: the clock advances only when no other thread can step — placements are exactly on time
-/
namespace Miros.Conc.AO
open Miros.Queue Miros.Conc.LD

/-- the state after choosing thread `t` (a disabled choice is skipped) -/
def next (g : Tags) (c : LD.Config) (s : State) (t : Nat) : State :=
  match stepL g c s t with
  | some (s', _) => s'
  | none => s

/-- a schedule in which the clock (thread 1000) is chosen only in states where no other thread id is enabled -/
def Lazy (g : Tags) (c : LD.Config) : State → List Nat → Prop
  | _, [] => True
  | s, t :: ts => (t = 1000 → ∀ t', t' ≠ 1000 → stepL g c s t' = none) ∧ Lazy g c (next g c s t) ts

theorem run_cons_next (g : Tags) (c : LD.Config) (s : State) (t : Nat) (ts : List Nat) :
    (sys g c).run s (t :: ts) = (sys g c).run (next g c s t) ts := by
  simp only [System.run, sys, next]
  cases stepL g c s t with
  | none => rfl
  | some r => rfl

/-- induction along a lazy schedule -/
theorem lazy_inv {g : Tags} {c : LD.Config} (I : State → Prop)
    (hstep : ∀ s t s' lbl, I s → stepL g c s t = some (s', lbl) →
      (t = 1000 → ∀ t', t' ≠ 1000 → stepL g c s t' = none) → I s') :
    ∀ (sched : List Nat) (s : State), I s → Lazy g c s sched → I ((sys g c).run s sched) := by
  intro sched
  induction sched with
  | nil => intro s h _; exact h
  | cons t ts ih =>
    intro s h hl
    rw [run_cons_next]
    obtain ⟨h1, h2⟩ := hl
    refine ih _ ?_ h2
    unfold next
    cases hs : stepL g c s t with
    | none => exact h
    | some r => obtain ⟨s', lbl⟩ := r; exact hstep s t s' lbl h hs h1

/-! ### when is a timer thread enabled -/

/-- a timer at `s` is enabled iff its wake-up time has come -/
theorem timer_sleep_enabled_iff (g : Tags) (c : LD.Config) (s : State) (i : Nat) (hi : i < 100) (tm : Timer)
    (htm : s.timers[i]? = some tm) (hst : tm.started = true) (hpc : tm.pc = .s) :
    (stepL g c s (200 + i)).isSome = true ↔ tm.wake ≤ s.now := by
  rw [stepL_timer g c s i hi]
  simp only [timerStep, htm, hst, hpc, Bool.not_true, Bool.false_eq_true, if_false]
  by_cases h : s.now < tm.wake
  · simp [h]
  · simp [h]; omega

theorem timer_enabled {g : Tags} {c : LD.Config} (ha : c.alg = .tokenAfter) {s : State} {i : Nat} (hi : i < 100)
    {tm : Timer} (htm : s.timers[i]? = some tm) (hok : TimerOk i tm) (hpi : PostInv tm)
    (hpc : tm.pc = .b ∨ (tm.pc = .s ∧ tm.wake ≤ s.now) ∨ tm.pc = .k ∨ tm.pc = .p) :
    (stepL g c s (200 + i)).isSome = true := by
  obtain ⟨_, hst, hlk, hlk2⟩ := hok
  rcases hpc with hpc | ⟨hpc, hw⟩ | hpc | hpc
  · rw [stepL_timer g c s i hi]
    simp [timerStep, htm, hst, hpc]
  · exact (timer_sleep_enabled_iff g c s i hi tm htm hst hpc).mpr hw
  · rw [stepL_timer g c s i hi]
    have hnone : tm.lock = none := by
      rcases hlk2 with h | h
      · exact h
      · have := hlk.mp h; rw [hpc] at this; cases this
    simp only [timerStep, htm, hst, hpc, hnone, Bool.not_true, Bool.false_eq_true, if_false, Option.isSome_none]
    split <;> rfl
  · rw [stepL_timer g c s i hi]
    obtain ⟨hposts, hd⟩ := hpi.1 hpc
    have hen := posterStep_enabled ha (shared s.ld) hposts (hd.imp (·.1) (·.1))
    simp only [timerStep, htm, hst, hpc, Bool.not_true, Bool.false_eq_true, if_false]
    cases hps : posterStep c (shared s.ld) tm.post with
    | none => rw [hps] at hen; simp at hen
    | some r =>
      obtain ⟨sh, p', lbl⟩ := r
      simp only
      split <;> rfl

/-! ### exactly on time -/

/-- the timing facts of a source under a lazy clock -/
def ExactInv (now : Nat) (tm : Timer) : Prop :=
  (∀ k t, tm.placedAt[k]? = some t → t = lbv tm.createdAt tm.period tm.deferred0 k) ∧
  (tm.pc = .b → now = tm.createdAt) ∧
  (tm.pc = .s → tm.wake = lbv tm.createdAt tm.period tm.deferred0 tm.activated ∧ now ≤ tm.wake) ∧
  (tm.pc = .k → now = lbv tm.createdAt tm.period tm.deferred0 tm.activated) ∧
  (tm.pc = .p → ∃ n, tm.activated = n + 1 ∧ now = lbv tm.createdAt tm.period tm.deferred0 n)

theorem ExactInv.lstep {c : LD.Config} (ha : c.alg = .tokenAfter) {s : State}
    {tm tm' : Timer} {ld' : LD.State} {lbl : String} (hpi : PostInv tm) (hti : TimeInv s.now tm)
    (h : ExactInv s.now tm) (hs : LStep c s tm tm' ld' lbl) : ExactInv s.now tm' := by
  obtain ⟨h1, h2, h3, h4, h5⟩ := h
  obtain ⟨_, _, _, t4, t5, t6, t7⟩ := hti
  cases hs with
  | bSleep hpc hf hd =>
    obtain ⟨a, b, _⟩ := t4 hpc
    have hd0 : tm.deferred0 = true := by rw [← b]; exact hd
    refine ⟨h1, by simp, ?_, by simp, by simp⟩
    intro _
    have hn := h2 hpc
    simp only [a, hd0, lbv_zero_true]
    omega
  | bGo hpc hf hd =>
    obtain ⟨a, b, _⟩ := t4 hpc
    have hd0 : tm.deferred0 = false := by rw [← b]; exact hd
    refine ⟨h1, by simp, by simp, ?_, by simp⟩
    intro _
    simp only [a, hd0, lbv_zero_false]
    exact h2 hpc
  | bEnd hpc hf => exact ⟨h1, by simp, by simp, by simp, by simp⟩
  | s hpc hw =>
    obtain ⟨a, b⟩ := h3 hpc
    refine ⟨h1, by simp, by simp, ?_, by simp⟩
    intro _
    simp only; omega
  | kGo hpc hlk hf => exact ⟨h1, by simp, by simp, by simp, fun _ => ⟨tm.activated, rfl, h4 hpc⟩⟩
  | kEnd hpc hlk hf => exact ⟨h1, by simp, by simp, by simp, by simp⟩
  | pMid hpc sh p' lbl hp hne =>
    obtain ⟨n, b1, b2⟩ := h5 hpc
    obtain ⟨hposts, hd⟩ := hpi.1 hpc
    have hsp := posterStep_single ha hposts hp
    by_cases hl : isPlacement lbl = true
    · have hlen : tm.placedAt.length + 1 = tm.activated := by
        rcases hd with ⟨_, hlen⟩ | ⟨hpost, _⟩
        · exact hlen
        · rw [(hsp.2 hpost).1] at hl; simp at hl
      have hn : tm.placedAt.length = n := by omega
      simp only [postUpd, hl, if_true]
      refine ⟨?_, by simp [hpc], by simp [hpc], by simp [hpc], fun _ => ⟨n, b1, b2⟩⟩
      intro k t hk
      rcases getElem?_concat_cases hk with ⟨_, hk1⟩ | ⟨rfl, rfl⟩
      · exact h1 k t hk1
      · rw [hn]; exact b2
    · simp only [postUpd, hl]
      exact ⟨h1, by simp [hpc], by simp [hpc], by simp [hpc], fun _ => ⟨n, b1, b2⟩⟩
  | pEndExhausted hpc sh p' lbl hp hne hx =>
    have := hpi.end_not_placement ha hpc hp hne
    simp only [postUpd, this.1]
    exact ⟨h1, by simp, by simp, by simp, by simp⟩
  | pEndCancelled hpc sh p' lbl hp hne hx hf =>
    have := hpi.end_not_placement ha hpc hp hne
    simp only [postUpd, this.1]
    exact ⟨h1, by simp, by simp, by simp, by simp⟩
  | pEndGo hpc sh p' lbl hp hne hx hf hd =>
    have := (t7 hpc).1
    rw [hd] at this; simp at this
  | pEndSleep hpc sh p' lbl hp hne hx hf hd =>
    have hnp := hpi.end_not_placement ha hpc hp hne
    obtain ⟨n, b1, b2⟩ := h5 hpc
    simp only [postUpd, hnp.1]
    refine ⟨h1, by simp, ?_, by simp, by simp⟩
    intro _
    simp only [b1, lbv_succ]
    omega

/-- `Inv`, `TInv`, and `ExactInv` of the timers that have a thread id (`i < 100`) -/
def LazyInv (s : State) : Prop :=
  Inv s ∧ TInv s ∧ ∀ (i : Nat) (tm : Timer), i < 100 → s.timers[i]? = some tm → ExactInv s.now tm

theorem LazyInv.step {g : Tags} {c : LD.Config} (hl : g.cancelLocked = true) (hb : g.checkBeforeStart = true)
    (ha : c.alg = .tokenAfter) {s s' : State} {tid : Nat} {lbl : String} (hL : LazyInv s)
    (h : stepL g c s tid = some (s', lbl))
    (hlazy : tid = 1000 → ∀ t', t' ≠ 1000 → stepL g c s t' = none) : LazyInv s' := by
  obtain ⟨hI, hT, hE⟩ := hL
  refine ⟨hI.step hl hb h, hT.step hl hb ha h, ?_⟩
  intro i tm' hi h'
  obtain ⟨_, _, _, hc⟩ := step_timer hl hb h
  rcases hc i tm' h' with ⟨h1, hn⟩ | ⟨_, _, hn, tm, ld', h1, hs⟩ | ⟨_, _, hn, tm, h1, _, rfl, _⟩ |
      ⟨_, _, hn, rfl, _, k, sg, p, t, d, rfl⟩
  · rcases hn with rfl | hn
    · -- the clock
      have hdis : stepL g c s (200 + i) = none := hlazy rfl _ (by omega)
      have hok := hI.timers i tm' h1
      have hpi := (hT i tm' h1).1
      have hex := hE i tm' hi h1
      obtain ⟨m, rfl, _, _, hmin⟩ := clock_cases h
      have hen : ¬ (tm'.pc = .b ∨ (tm'.pc = .s ∧ tm'.wake ≤ s.now) ∨ tm'.pc = .k ∨ tm'.pc = .p) := by
        intro hpc
        have := timer_enabled (g := g) ha hi h1 hok hpi hpc
        rw [hdis] at this; simp at this
      simp only [not_or, not_and] at hen
      obtain ⟨nb, ns, nk, np⟩ := hen
      refine ⟨hex.1, fun hb' => absurd hb' nb, ?_, fun hk => absurd hk nk, fun hp => absurd hp np⟩
      intro hs
      refine ⟨(hex.2.2.1 hs).1, ?_⟩
      have hw := ns hs
      apply hmin tm' (List.mem_of_getElem? h1)
      simp only [pendingWake, hok.2.1, hs, Bool.true_and, decide_true, decide_eq_true_eq]
      omega
    · rw [hn]; exact hE i tm' hi h1
  · rw [hn]
    exact (hE i tm hi h1).lstep ha (hT i tm h1).1 (hT i tm h1).2.2 (hs.locked hl)
  · rw [hn]; exact hE i tm hi h1
  · rw [hn]
    simp [ExactInv, freshTimer]

theorem LazyInv.init (c : LD.Config) (progs : List (List (Kind × Ev))) (clients : List (List Call)) (maxTimers : Nat) :
    LazyInv (init c progs clients maxTimers) :=
  ⟨Inv.init c progs clients maxTimers, TInv.init c progs clients maxTimers, by intro i tm _ h; simp [AO.init] at h⟩

theorem LazyInv.run {g : Tags} {c : LD.Config} (hl : g.cancelLocked = true) (hb : g.checkBeforeStart = true)
    (ha : c.alg = .tokenAfter) (sched : List Nat) (s : State) (hL : LazyInv s) (hz : Lazy g c s sched) :
    LazyInv ((sys g c).run s sched) :=
  lazy_inv LazyInv (fun _ _ _ _ hL hs hlz => hL.step hl hb ha hs hlz) sched s hL hz


/-! ### one step of a timer thread, as the caller sees it -/

theorem timer_step_result {g : Tags} {c : LD.Config} (hl : g.cancelLocked = true) {s s' : State} {i : Nat}
    (hi : i < 100) {lbl : String} (h : stepL g c s (200 + i) = some (s', lbl)) :
    ∃ tm tm' ld', s.timers[i]? = some tm ∧ LStep c s tm tm' ld' lbl ∧ s'.timers[i]? = some tm' ∧
      s'.ld = ld' ∧ s'.now = s.now ∧ s'.order = s.order := by
  rw [stepL_timer g c s i hi] at h
  obtain ⟨tm, tm', ld', htm, _, hs, rfl⟩ := timerStep_cases h
  exact ⟨tm, tm', ld', htm, hs.locked hl, getElem?_set_self' htm, rfl, rfl, rfl⟩

/-- the placement step of a source on a deque that is not full -/
theorem LStep.placement {c : LD.Config} (ha : c.alg = .tokenAfter) {s : State}
    {tm tm' : Timer} {ld' : LD.State} {lbl : String} (hpi : PostInv tm) (hs : LStep c s tm tm' ld' lbl)
    (hpl : isPlacement lbl = true) (hroom : s.ld.dq.length < c.cap) :
    ld'.dq = (if tm.kind = .fifo then s.ld.dq ++ [evOf tm] else evOf tm :: s.ld.dq) ∧
    ld'.displaced = s.ld.displaced ∧ tm'.placedAt = tm.placedAt ++ [s.now] ∧ tm'.pc = .p := by
  have hpost : ∀ sh p', tm.pc = .p → posterStep c (shared s.ld) tm.post = some (sh, p', lbl) →
      (s.ld.withShared sh).dq = (if tm.kind = .fifo then s.ld.dq ++ [evOf tm] else evOf tm :: s.ld.dq) ∧
      (s.ld.withShared sh).displaced = s.ld.displaced ∧ p'.posts ≠ [] := by
    intro sh p' hpc hp
    obtain ⟨hposts, hd⟩ := hpi.1 hpc
    have hsp := posterStep_single ha hposts hp
    rcases hd with ⟨hpre, _⟩ | ⟨hpost, _⟩
    · have := posterStep_place hposts hpre hp hpl hroom
      refine ⟨this.1, this.2.1, ?_⟩
      rcases hsp.1 hpre with ⟨_, h2, _⟩ | ⟨_, h2, _⟩ <;> rw [h2] <;> simp
    · rw [(hsp.2 hpost).1] at hpl; simp at hpl
  cases hs with
  | pMid hpc sh p' lbl hp hne =>
    obtain ⟨h1, h2, _⟩ := hpost sh p' hpc hp
    exact ⟨h1, h2, by simp [postUpd, hpl], hpc⟩
  | pEndExhausted hpc sh p' lbl hp hne => exact absurd hne (hpost sh p' hpc hp).2.2
  | pEndSleep hpc sh p' lbl hp hne => exact absurd hne (hpost sh p' hpc hp).2.2
  | pEndGo hpc sh p' lbl hp hne => exact absurd hne (hpost sh p' hpc hp).2.2
  | pEndCancelled hpc sh p' lbl hp hne => exact absurd hne (hpost sh p' hpc hp).2.2
  | _ => simp [isPlacement] at hpl

/-- a source for ever (`total = 0`): its own steps never clear its flag; the step that ends a post puts it to sleep
for one period -/
theorem LStep.unbounded {c : LD.Config} {s : State}
    {tm tm' : Timer} {ld' : LD.State} {lbl : String} (hs : LStep c s tm tm' ld' lbl) (ht : tm.total = 0) :
    tm'.total = 0 ∧ tm'.flag = tm.flag ∧
    (tm.pc = .p → tm'.pc ≠ .p → tm.flag = true → tm.deferred = true →
      tm'.pc = .s ∧ tm'.wake = s.now + tm.period ∧ tm'.activated = tm.activated) := by
  cases hs <;> simp_all [postUpd]


/-! ### a decidable check for `Lazy` -/

/-- the thread ids that exist in a state (besides the clock) -/
def relevantTids (s : State) : List Nat :=
  List.range (s.ld.posters.length + 1) ++ (List.range s.timers.length).map (· + 200) ++
    (List.range s.clients.length).map (· + 300)

theorem stepL_none_of_not_relevant (g : Tags) (c : LD.Config) (s : State) (t : Nat) (h1 : t ≠ 1000)
    (h : t ∉ relevantTids s) : stepL g c s t = none := by
  simp only [relevantTids, List.mem_append, List.mem_range, List.mem_map, not_or, not_exists, not_and] at h
  obtain ⟨⟨hp, ht⟩, hc⟩ := h
  simp only [stepL, h1, if_false]
  split
  · rename_i h3
    have : s.clients.length ≤ t - 300 := by
      rcases Nat.lt_or_ge (t - 300) s.clients.length with h4 | h4
      · exact absurd (by omega) (hc (t - 300) h4)
      · exact h4
    simp [clientStep, List.getElem?_eq_none this]
  · split
    · rename_i h3 h2
      have : s.timers.length ≤ t - 200 := by
        rcases Nat.lt_or_ge (t - 200) s.timers.length with h4 | h4
        · exact absurd (by omega) (ht (t - 200) h4)
        · exact h4
      simp [timerStep, List.getElem?_eq_none this]
    · cases t with
      | zero => omega
      | succ i =>
        have : s.ld.posters.length ≤ i := by omega
        simp [LD.stepL, List.getElem?_eq_none this]

/-- `Lazy`, checking only the thread ids that exist -/
def lazyB (g : Tags) (c : LD.Config) : State → List Nat → Bool
  | _, [] => true
  | s, t :: ts =>
    (t != 1000 || (relevantTids s).all fun t' => t' == 1000 || (stepL g c s t').isNone) && lazyB g c (next g c s t) ts

theorem lazy_of_lazyB (g : Tags) (c : LD.Config) : ∀ (sched : List Nat) (s : State), lazyB g c s sched = true → Lazy g c s sched := by
  intro sched
  induction sched with
  | nil => intro s _; trivial
  | cons t ts ih =>
    intro s h
    simp only [lazyB, Bool.and_eq_true, Bool.or_eq_true, bne_iff_ne, ne_eq, List.all_eq_true, beq_iff_eq,
      Option.isNone_iff_eq_none] at h
    refine ⟨?_, ih _ h.2⟩
    intro ht t' ht'
    rcases h.1 with h1 | h1
    · exact absurd ht h1
    · by_cases hr : t' ∈ relevantTids s
      · rcases h1 t' hr with h2 | h2
        · exact absurd h2 ht'
        · exact h2
      · exact stepL_none_of_not_relevant g c s t' ht' hr

end Miros.Conc.AO
