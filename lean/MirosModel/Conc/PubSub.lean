import MirosModel.Conc.Fabric
import MirosModel.Hsm.Spec
/-!
# ActiveObject.subscribe / publish — the decision logic (activeobject.py 569-676)

`subscribe(sig, kind)`:
* thread running  → `if not self.subscribed(sig, kind): self._subscribe(sig, kind)`
* thread not running → `post_lifo(SUBSCRIBE_META_SIGNAL)`; when the object later runs, the event
  is offered to the chart, which (not knowing it) passes it outward to `top`, and
  `ActiveObject.top` calls `self._subscribe(...)`.
`_subscribe` is wrapped by `append_subscribe_to_spy`: it scribbles when `instrumented`, and (tag
`wrapperAlwaysCalls`) calls the wrapped function in every case or only when instrumented.
`subscribed()` (tag `subscribedAsksOwnQueue`) asks the fabric whether *this object's queue* is
registered, or merely whether *anybody* subscribed to the signal.
`publish` has the same shape with `_publish` → `fabric.publish`.
-/
namespace Miros.Conc.PS
open Miros.Conc.Fab

structure Tags where
  wrapperAlwaysCalls : Bool
  subscribedAsksOwnQueue : Bool
deriving DecidableEq, Repr

/-- the configuration a call is made in -/
structure Cfg where
  instrumented : Bool     -- the chart's states carry `spy_on` (otherwise start_at switches instrumentation off)
  running : Bool          -- the object's thread is running when the call is made
  ownThread : Bool        -- called from one of its own handlers (no influence on the logic)
deriving DecidableEq, Repr

/-- the wrapper around `_subscribe` / `_publish`: does the wrapped function run? -/
def wrapperRuns (t : Tags) (instrumented : Bool) : Bool := instrumented || t.wrapperAlwaysCalls

/-- `fabric.subscribed(sig, kind[, queue])` -/
def subscribedAnswer (t : Tags) (reg : Registry) (sig q : Nat) : Bool :=
  match reg.get sig with
  | none => false
  | some qs => if t.subscribedAsksOwnQueue then qs.contains q else true

/-- the registry after `subscribe` has taken effect (immediately when running, else when the queued
meta event has been dispatched to `top`); `instrumentedAtEffect` is the flag when `_subscribe` runs -/
def subscribeEffect (t : Tags) (cfg : Cfg) (reg : Registry) (sig q : Nat) : Registry :=
  if cfg.running then
    if subscribedAnswer t reg sig q then reg
    else if wrapperRuns t cfg.instrumented then reg.subscribe sig q else reg
  else
    -- meta event, handled by `top` once the thread runs (start_at has fixed `instrumented` by then)
    if wrapperRuns t cfg.instrumented then reg.subscribe sig q else reg

/-- does `publish(e)` reach `fabric.publish` (directly or through the meta event)? -/
def publishReaches (t : Tags) (cfg : Cfg) : Bool := wrapperRuns t cfg.instrumented

/-- a chart that does not know the meta signal passes it outward: nobody answers, it reaches `top` -/
theorem meta_reaches_top (c : Miros.Hsm.Chart) (n : Nat) (h : ∀ s, c.react s n = .pass) :
    ∀ cur, (Miros.Hsm.offers c n cur).2 = .ignored := by
  intro cur
  induction cur with
  | nil => simp [Miros.Hsm.offers]
  | cons a p ih => simp [Miros.Hsm.offers, h, ih]

end Miros.Conc.PS
