import MirosModel.Conc.LDLemmas
/-!
# Queue discipline of the `LockingDeque` model and refinement of an abstract deque

Which steps touch the deque and how; the sequence of placements and pops of any schedule, replayed
on an unbounded double-ended queue, reproduces the deque and the dispatch record as long as no
step overflowed.
-/
namespace Miros.Conc.LD
open Miros.Queue

/-- the poster program executing in a step of thread `t` (for the consumer: its inline program
while it is inside `dispatch`) -/
def actor (s : State) : Nat → Option Poster
  | 0 => if s.cpc = .h then some s.inline else none
  | i + 1 => s.posters[i]?

/-! ### what one poster primitive does to the deque (both algorithms) -/

theorem posterStep_dq (c : Config) (sh sh' : Shared) (p p' : Poster) (lbl : String)
    (k : Kind) (e : Ev) (r : List (Kind × Ev)) (hp : p.posts = (k, e) :: r)
    (h : posterStep c sh p = some (sh', p', lbl)) :
    ((p.pc = .a1 ∨ p.pc = .b2) → sh'.dq = (dqAppend c.cap sh.dq e).1 ∧
        sh'.displaced = sh.displaced ++ (dqAppend c.cap sh.dq e).2) ∧
    (p.pc = .l1 → sh'.dq = (dqAppendLeft c.cap sh.dq e).1 ∧
        sh'.displaced = sh.displaced ++ (dqAppendLeft c.cap sh.dq e).2) ∧
    (p.pc = .b1 → sh'.dq = dqRotate sh.dq ∧ sh'.displaced = sh.displaced) ∧
    (p.pc ≠ .a1 → p.pc ≠ .b2 → p.pc ≠ .l1 → p.pc ≠ .b1 → sh'.dq = sh.dq) := by
  obtain ⟨posts, pc, q⟩ := p
  simp only at hp
  subst hp
  cases pc <;> simp only [posterStep] at h
  all_goals (repeat' split at h)
  all_goals first
    | contradiction
    | (simp only [Option.some.injEq, Prod.mk.injEq] at h; obtain ⟨rfl, rfl, -⟩ := h; simp)

/-- under `tokenAfter` the rotate branch is entered only from `a0`, on observing a full deque -/
theorem posterStep_to_b1 (c : Config) (sh sh' : Shared) (p p' : Poster) (lbl : String)
    (halg : c.alg = .tokenAfter) (hpc : pcOk p) (h : posterStep c sh p = some (sh', p', lbl))
    (hb : p'.pc = .b1) : p.pc = .a0 ∧ c.cap ≤ sh.dq.length := by
  obtain ⟨posts, pc, q⟩ := p
  obtain ⟨h1, h2, h3, h4⟩ := hpc
  simp only at h1 h2 h3 h4
  cases posts with
  | nil => simp [posterStep] at h
  | cons x rest =>
    obtain ⟨k, e⟩ := x
    have np := nextPost_pc ⟨(k, e) :: rest, pc, q⟩
    cases pc <;> simp only [posterStep, halg] at h <;> try contradiction
    all_goals (try split at h)
    all_goals (simp only [Option.some.injEq, Prod.mk.injEq] at h; obtain ⟨rfl, rfl, -⟩ := h)
    all_goals first
      | (simp at hb; done)
      | (refine ⟨rfl, ?_⟩; (try simp only []); omega)
      | (rcases np with ⟨h, _⟩ | h | h <;> simp [h] at hb <;> done)

theorem a0_branch (c : Config) (sh sh' : Shared) (p p' : Poster) (lbl : String) (hp : p.pc = .a0)
    (h : posterStep c sh p = some (sh', p', lbl)) :
    sh' = sh ∧ (sh.dq.length < c.cap → p'.pc = .a1) ∧ (c.cap ≤ sh.dq.length → p'.pc = .b1) := by
  obtain ⟨posts, pc, q⟩ := p
  simp only at hp; subst hp
  cases posts with
  | nil => simp [posterStep] at h
  | cons x rest =>
    obtain ⟨k, e⟩ := x
    simp only [posterStep] at h
    split at h <;>
    · simp only [Option.some.injEq, Prod.mk.injEq] at h
      obtain ⟨rfl, rfl, -⟩ := h
      refine ⟨rfl, ?_, ?_⟩ <;> intro _ <;> first | rfl | omega

/-! ### every step, classified -/

theorem step_cases {c : Config} {s s' : State} {t : Nat} {lbl : String}
    (h : stepL c s t = some (s', lbl)) :
    (∃ p sh p', actor s t = some p ∧ posterStep c (shared s) p = some (sh, p', lbl) ∧ s'.dq = sh.dq ∧
        s'.displaced = sh.displaced ∧ s'.dispatched = s.dispatched) ∨
    (t = 0 ∧ s.cpc = .r1 ∧ s'.displaced = s.displaced ∧
      ((s.dq = [] ∧ s'.dq = [] ∧ s'.dispatched = s.dispatched) ∨
        ∃ e rest, s.dq = e :: rest ∧ s'.dq = rest ∧ s'.dispatched = s.dispatched ++ [e])) ∨
    (t = 0 ∧ s.cpc ≠ .r1 ∧ s.cpc ≠ .h ∧ s'.dq = s.dq ∧ s'.displaced = s.displaced ∧
      s'.dispatched = s.dispatched) := by
  cases t with
  | succ i =>
    obtain ⟨p, sh, p', hp, hs, rfl⟩ := stepL_poster h
    exact Or.inl ⟨p, sh, p', hp, hs, rfl, rfl, rfl⟩
  | zero =>
    simp only [stepL] at h
    cases hpc : s.cpc <;> simp only [consumerStep, hpc] at h
    case fin => simp at h
    case h =>
      left
      cases hps : posterStep c (shared s) s.inline with
      | none => simp [hps] at h
      | some r =>
        obtain ⟨sh, p, l⟩ := r
        simp only [hps] at h
        split at h <;>
        · simp only [Option.some.injEq, Prod.mk.injEq] at h
          obtain ⟨rfl, rfl⟩ := h
          exact ⟨s.inline, sh, p, by simp [actor, hpc], hps, rfl, rfl, rfl⟩
    case r1 =>
      right; left
      refine ⟨rfl, rfl, ?_⟩
      split at h
      · rename_i hdq
        simp only [Option.some.injEq, Prod.mk.injEq] at h
        obtain ⟨rfl, -⟩ := h
        exact ⟨rfl, Or.inl ⟨hdq, hdq, rfl⟩⟩
      · rename_i e rest hdq
        split at h <;>
        · simp only [Option.some.injEq, Prod.mk.injEq] at h
          obtain ⟨rfl, -⟩ := h
          exact ⟨rfl, Or.inr ⟨e, rest, hdq, rfl, rfl⟩⟩
    all_goals
      right; right
      refine ⟨rfl, by simp, by simp, ?_⟩
      first
      | (simp only [Option.some.injEq, Prod.mk.injEq] at h
         obtain ⟨rfl, -⟩ := h
         exact ⟨rfl, rfl, rfl⟩)
      | (split at h <;>
         · simp only [Option.some.injEq, Prod.mk.injEq] at h
           obtain ⟨rfl, -⟩ := h
           exact ⟨rfl, rfl, rfl⟩)
      | (split at h
         · simp only [Option.some.injEq, Prod.mk.injEq] at h
           obtain ⟨rfl, -⟩ := h
           exact ⟨rfl, rfl, rfl⟩
         · split at h <;>
           · simp only [Option.some.injEq, Prod.mk.injEq] at h
             obtain ⟨rfl, -⟩ := h
             exact ⟨rfl, rfl, rfl⟩)
      | (split at h
         · simp at h
         · simp only [Option.some.injEq, Prod.mk.injEq] at h
           obtain ⟨rfl, -⟩ := h
           exact ⟨rfl, rfl, rfl⟩)

/-! ### the abstract double-ended queue -/

/-- operations of an unbounded double-ended queue -/
inductive AbsOp
  | pushBack (e : Ev) | pushFront (e : Ev) | popFront
deriving DecidableEq, Repr

/-- abstract state: (deque contents, elements handed out so far) -/
def absStep (st : List Ev × List Ev) : AbsOp → List Ev × List Ev
  | .pushBack e => (st.1 ++ [e], st.2)
  | .pushFront e => (e :: st.1, st.2)
  | .popFront => (st.1.tail, st.2 ++ st.1.head?.toList)

def absReplay (ops : List AbsOp) (st : List Ev × List Ev) : List Ev × List Ev := ops.foldl absStep st

theorem absReplay_append (o1 o2 : List AbsOp) (st : List Ev × List Ev) :
    absReplay (o1 ++ o2) st = absReplay o2 (absReplay o1 st) := by
  simp [absReplay, List.foldl_append]

/-- the deque operation a poster primitive performs, if any -/
def posterOp (p : Poster) : List AbsOp :=
  match p.posts with
  | [] => []
  | (_, e) :: _ =>
    match p.pc with
    | .a1 | .b2 => [.pushBack e]
    | .l1 => [.pushFront e]
    | _ => []

/-- the deque operation performed by a step of thread `t` in state `s` -/
def stepOp (s : State) (t : Nat) : List AbsOp :=
  if t = 0 ∧ s.cpc = .r1 then [.popFront]
  else match actor s t with
    | some p => posterOp p
    | none => []

/-- the placements and pops of a schedule, in schedule order -/
def opsOf (c : Config) : State → List Nat → List AbsOp
  | _, [] => []
  | s, t :: ts =>
    match stepL c s t with
    | some (s', _) => stepOp s t ++ opsOf c s' ts
    | none => opsOf c s ts

/-- the step of thread `t` is the rotate of the overflow branch -/
def tookB1 (s : State) (t : Nat) : Prop := (actor s t).map (·.pc) = some .b1

instance (s : State) (t : Nat) : Decidable (tookB1 s t) := by unfold tookB1; infer_instance

/-- no step of the schedule rotated (overflow branch) or displaced an event -/
def NoOverflow (c : Config) : State → List Nat → Prop
  | _, [] => True
  | s, t :: ts =>
    match stepL c s t with
    | some (s', _) => ¬ tookB1 s t ∧ s'.displaced = s.displaced ∧ NoOverflow c s' ts
    | none => NoOverflow c s ts

/-- `NoOverflow` as a computable check -/
def noOverflowB (c : Config) : State → List Nat → Bool
  | _, [] => true
  | s, t :: ts =>
    match stepL c s t with
    | some (s', _) => decide (¬ tookB1 s t) && decide (s'.displaced = s.displaced) && noOverflowB c s' ts
    | none => noOverflowB c s ts

theorem noOverflowB_iff (c : Config) (s : State) (sched : List Nat) :
    noOverflowB c s sched = true ↔ NoOverflow c s sched := by
  induction sched generalizing s with
  | nil => simp [noOverflowB, NoOverflow]
  | cons t ts ih =>
    cases hs : stepL c s t with
    | none => simp [noOverflowB, NoOverflow, hs, ih]
    | some r => simp [noOverflowB, NoOverflow, hs, ih, and_assoc]

instance (c : Config) (s : State) (sched : List Nat) : Decidable (NoOverflow c s sched) :=
  decidable_of_iff _ (noOverflowB_iff c s sched)

theorem posterStep_abs (c : Config) (sh sh' : Shared) (p p' : Poster) (lbl : String) (d : List Ev)
    (hcap : 0 < c.cap) (h : posterStep c sh p = some (sh', p', lbl)) (hb : p.pc ≠ .b1)
    (hd : sh'.displaced = sh.displaced) : absReplay (posterOp p) (sh.dq, d) = (sh'.dq, d) := by
  cases hp : p.posts with
  | nil => simp [posterStep, hp] at h
  | cons x r =>
    obtain ⟨k, e⟩ := x
    obtain ⟨f1, f2, f3, f4⟩ := posterStep_dq c sh sh' p p' lbl k e r hp h
    by_cases h1 : p.pc = .a1 ∨ p.pc = .b2
    · obtain ⟨g1, g2⟩ := f1 h1
      rw [hd] at g2
      have hout : (dqAppend c.cap sh.dq e).2 = [] := by simpa using g2.symm
      have hdq : (dqAppend c.cap sh.dq e).1 = sh.dq ++ [e] := by
        unfold dqAppend at hout ⊢
        split
        · rfl
        · rename_i hf
          simp only [hf, if_false] at hout
          simp at hout
          have : sh.dq = [] := by
            cases hl : sh.dq with
            | nil => rfl
            | cons y t => rw [hl] at hout; omega
          simp [this] at hf; omega
      rcases h1 with h1 | h1 <;> simp [posterOp, hp, h1, absReplay, absStep, g1, hdq]
    · by_cases h2 : p.pc = .l1
      · obtain ⟨g1, g2⟩ := f2 h2
        rw [hd] at g2
        have hout : (dqAppendLeft c.cap sh.dq e).2 = [] := by simpa using g2.symm
        have hdq : (dqAppendLeft c.cap sh.dq e).1 = e :: sh.dq := by
          unfold dqAppendLeft at hout ⊢
          split
          · rfl
          · rename_i hf
            simp only [hf, if_false] at hout
            simp at hout
            omega
        simp [posterOp, hp, h2, absReplay, absStep, g1, hdq]
      · have h3 : p.pc ≠ .a1 := fun h => h1 (Or.inl h)
        have h4 : p.pc ≠ .b2 := fun h => h1 (Or.inr h)
        have := f4 h3 h4 h2 hb
        rw [this]
        cases hpc : p.pc <;> first
          | (exact absurd hpc h3) | (exact absurd hpc h4) | (exact absurd hpc h2) | (exact absurd hpc hb)
          | simp [posterOp, hp, hpc, absReplay]

/-- one clean step of the model is the abstract replay of its deque operation -/
theorem step_abs {c : Config} {s s' : State} {t : Nat} {lbl : String} (hcap : 0 < c.cap)
    (h : stepL c s t = some (s', lbl)) (hb : ¬ tookB1 s t) (hd : s'.displaced = s.displaced) :
    absReplay (stepOp s t) (s.dq, s.dispatched) = (s'.dq, s'.dispatched) := by
  rcases step_cases h with ⟨p, sh, p', ha, hs, h1, h2, h3⟩ | ⟨rfl, hpc, _, hh⟩ | ⟨rfl, hpc, hph, h1, _, h3⟩
  · have hne : ¬ (t = 0 ∧ s.cpc = .r1) := by
      rintro ⟨rfl, hpc⟩
      simp [actor, hpc] at ha
    have hb' : p.pc ≠ .b1 := by simpa [tookB1, ha] using hb
    have := posterStep_abs c (shared s) sh p p' lbl s.dispatched hcap hs hb' (by rw [← h2, hd]; rfl)
    simp only [stepOp, hne, if_false, ha, h1, h3]
    exact this
  · simp only [stepOp, hpc, and_self, if_true]
    rcases hh with ⟨e1, e2, e3⟩ | ⟨e, rest, e1, e2, e3⟩
    · simp [absReplay, absStep, e1, e2, e3]
    · simp [absReplay, absStep, e1, e2, e3]
  · have ha : actor s 0 = none := by simp [actor, hph]
    simp [stepOp, hpc, ha, absReplay, h1, h3]

/-- **refinement of the abstract deque**: replaying the placements and pops of a schedule without
overflow on the unbounded deque gives exactly the deque and the dispatch record of the model -/
theorem refines_deque_from (c : Config) (hcap : 0 < c.cap) (sched : List Nat) (s : State)
    (hno : NoOverflow c s sched) :
    absReplay (opsOf c s sched) (s.dq, s.dispatched) =
      (((sys c).run s sched).dq, ((sys c).run s sched).dispatched) := by
  induction sched generalizing s with
  | nil => simp [opsOf, absReplay, System.run]
  | cons t ts ih =>
    simp only [opsOf, NoOverflow, System.run, sys] at hno ⊢
    cases hs : stepL c s t with
    | none =>
      simp only [hs] at hno ⊢
      exact ih s hno
    | some r =>
      obtain ⟨s', lbl⟩ := r
      simp only [hs] at hno ⊢
      obtain ⟨hb, hd, hrest⟩ := hno
      rw [absReplay_append, step_abs hcap hs hb hd]
      exact ih s' hrest

end Miros.Conc.LD
