import MirosModel.Conc.AOArm
import MirosModel.Conc.SysLemmas
/-!
# Lemmas for `Miros.Conc.AOArm`: the inductive invariant and the fair stop schedule
-/
namespace Miros.Conc.AOArm

theorem mem_trackedIdx {l : List Src} {i : Nat} :
    i ∈ trackedIdx l ↔ ∃ x, l[i]? = some x ∧ x.tracked = true := by
  simp only [trackedIdx, List.mem_filter, List.mem_range, isTracked]
  constructor
  · rintro ⟨hi, h⟩
    rw [List.getElem?_eq_getElem hi] at h
    exact ⟨l[i], List.getElem?_eq_getElem hi, h⟩
  · rintro ⟨x, hx, ht⟩
    have hi : i < l.length := by
      rcases Nat.lt_or_ge i l.length with h | h
      · exact h
      · rw [List.getElem?_eq_none h] at hx; cases hx
    refine ⟨hi, ?_⟩
    rw [hx]; exact ht

theorem length_trackedIdx_le (l : List Src) : (trackedIdx l).length ≤ l.length := by
  have := List.length_filter_le (isTracked l) (List.range l.length)
  simpa [trackedIdx] using this

/-- the inductive invariant (repaired tag) -/
structure Inv (s : State) : Prop where
  ft : ∀ (i : Nat) (x : Src), s.srcs[i]? = some x → x.flag = true → x.tracked = true
  ret : s.stopReturned = true ↔ s.k = .done
  canc : ∀ snap, s.k = .cancel snap →
    s.c = .fin ∧ ∀ (i : Nat) (x : Src), s.srcs[i]? = some x → x.tracked = true → i ∈ snap
  done : s.k = .done →
    s.c = .fin ∧ ∀ (i : Nat) (x : Src), s.srcs[i]? = some x → x.flag = false ∧ x.tracked = false
  ghost : s.stepsAfterStop = 0 ∧ ∀ (i : Nat) (x : Src), s.srcs[i]? = some x → x.postsAfterStop = 0
  stopping : s.k.stopping = true → s.runFlag = false ∧ Ev.stop ∈ s.q
  app : s.k = .stopAppend → s.runFlag = false

theorem inv_init (cap : Nat) (arms : List (Nat × Nat)) (nPosts : Nat) : Inv (init cap arms nPosts) := by
  constructor <;> simp [init, KPc.stopping]

theorem inv_kStep {s s' : State} (h : Inv s) (hs : kStep ⟨true⟩ s = some s') : Inv s' := by
  obtain ⟨h1, h2, h3, h4, h5, h6, h7⟩ := h
  unfold kStep at hs
  split at hs
  all_goals first | (split at hs) | skip
  all_goals first | cases hs | skip
  all_goals constructor <;> grind [KPc.stopping, cancelSrc, mem_trackedIdx]

theorem inv_cStep {s s' : State} (h : Inv s) (hs : cStep s = some s') : Inv s' := by
  obtain ⟨h1, h2, h3, h4, h5, h6, h7⟩ := h
  unfold cStep at hs
  split at hs
  · split at hs <;> cases hs <;> constructor <;> grind [KPc.stopping]
  · split at hs
    · cases hs
    · cases hs; constructor <;> grind [KPc.stopping]
    · split at hs
      · cases hs; constructor <;> grind [KPc.stopping, bump]
      · split at hs <;> cases hs <;> constructor <;>
          grind [KPc.stopping, bump, newSrc]
    · cases hs; constructor <;> grind [KPc.stopping, bump]
  · cases hs

theorem inv_tStep {s s' : State} {i : Nat} (h : Inv s) (hs : tStep s i = some s') : Inv s' := by
  obtain ⟨h1, h2, h3, h4, h5, h6, h7⟩ := h
  unfold tStep at hs
  split at hs
  · cases hs
  · split at hs
    · cases hs; constructor <;> grind [KPc.stopping, fire]
    · cases hs

theorem wStep_some {s s' : State} (hs : wStep s = some s') :
    s.c = .wait ∧ s.q = [] ∧ s' = { s with c := .check } := by
  unfold wStep at hs
  split at hs
  · next h1 h2 => cases hs; exact ⟨h1, h2, rfl⟩
  · cases hs

theorem inv_wStep {s s' : State} (h : Inv s) (hs : wStep s = some s') : Inv s' := by
  obtain ⟨h1, h2, h3, h4, h5, h6, h7⟩ := h
  obtain ⟨hc, hq, rfl⟩ := wStep_some hs
  constructor <;> grind [KPc.stopping]

theorem inv_step {s s' : State} {t : Step} (h : Inv s) (hs : (sys ⟨true⟩).step s t = some s') :
    Inv s' := by
  cases t with
  | k => exact inv_kStep h hs
  | c => exact inv_cStep h hs
  | t i => exact inv_tStep h hs
  | w => exact inv_wStep h hs

theorem inv_run (sched : List Step) (s : State) (h : Inv s) : Inv ((sys ⟨true⟩).run s sched) :=
  (sys ⟨true⟩).inv_run Inv (fun _ _ _ h hs => inv_step h hs) sched s h

theorem inv_reach (cap : Nat) (arms : List (Nat × Nat)) (nPosts : Nat) (sched : List Step) :
    Inv ((sys ⟨true⟩).run (init cap arms nPosts) sched) :=
  inv_run sched _ (inv_init cap arms nPosts)

/-! ### after `stop()` has returned nothing moves -/

theorem quiescent_of_returned {s : State} (h : Inv s) (hr : s.stopReturned = true) (g : Tags) :
    (sys g).Quiescent s := by
  have hk := h.ret.mp hr
  obtain ⟨hc, hf⟩ := h.done hk
  intro t
  cases t with
  | k => simp [sys, step, kStep, hk]
  | c => simp [sys, step, cStep, hc]
  | t i =>
    simp only [sys, step, tStep]
    split
    · rfl
    · next x hx => simp [(hf i x hx).1]
  | w => simp [sys, step, wStep, hc]

theorem run_of_returned {s : State} (h : Inv s) (hr : s.stopReturned = true) (g : Tags)
    (sched : List Step) : (sys g).run s sched = s :=
  System.run_of_quiescent _ s (quiescent_of_returned h hr g) sched

/-! ### the fair schedule -/

theorem run_k_done (g : Tags) {s : State} (hk : s.k = .done) :
    ∀ m, (sys g).run s (List.replicate m .k) = s
  | 0 => rfl
  | m + 1 => by
    simp only [List.replicate_succ, System.run, sys, step, kStep, hk]
    exact run_k_done g hk m

theorem run_post (g : Tags) : ∀ (n : Nat) (s : State), s.k = .post n →
    ((sys g).run s (List.replicate (n + 3) .k)).k = .join ∧
    ((sys g).run s (List.replicate (n + 3) .k)).srcs = s.srcs
  | 0, s, h => by simp [List.replicate, System.run, sys, step, kStep, h]
  | n + 1, s, h => by
    rw [List.replicate_succ]
    simp only [System.run, sys, step, kStep, h]
    exact run_post g n _ rfl

theorem phase1 (g : Tags) (s : State) :
    ((sys g).run s (List.replicate (kLead s.k) .k)).k.stopping = true ∧
    ((sys g).run s (List.replicate (kLead s.k) .k)).srcs = s.srcs ∧
    snapLen ((sys g).run s (List.replicate (kLead s.k) .k)).k = snapLen s.k := by
  cases hk : s.k with
  | post n =>
    obtain ⟨h1, h2⟩ := run_post g n s hk
    simp only [kLead]
    rw [h1]
    exact ⟨rfl, h2, rfl⟩
  | stopClear => simp [kLead, List.replicate, System.run, sys, step, kStep, hk, KPc.stopping, snapLen]
  | stopAppend => simp [kLead, System.run, sys, step, kStep, hk, KPc.stopping, snapLen]
  | join => simp [kLead, System.run, hk, KPc.stopping]
  | cancel snap => simp [kLead, System.run, hk, KPc.stopping]
  | done => simp [kLead, System.run, hk, KPc.stopping]

theorem cStep_wait {s : State} (hc : s.c = .wait) (hq : Ev.stop ∈ s.q) (hrf : s.runFlag = false) :
    ∃ s', cStep s = some s' ∧ s'.c = .check ∧ s'.k = s.k ∧ s'.runFlag = false ∧
      s'.srcs.length ≤ s.srcs.length + 1 := by
  cases hq' : s.q with
  | nil => rw [hq'] at hq; cases hq
  | cons e rest =>
    cases e with
    | stop => simp [cStep, hc, hq']
    | tick i => simp [cStep, hc, hq', hrf]
    | arm =>
      cases ha : s.arms with
      | nil => simp [cStep, hc, hq', hrf, ha]
      | cons a as =>
        simp only [cStep, hc, hq', ha]
        split <;> simp [hrf]

theorem phase2 (g : Tags) {s : State} (h : Inv s) (hk : s.k.stopping = true) :
    ((sys g).run s [.c, .c]).c = .fin ∧ ((sys g).run s [.c, .c]).k = s.k ∧
    ((sys g).run s [.c, .c]).srcs.length ≤ s.srcs.length + 1 := by
  obtain ⟨hrf, hq⟩ := h.stopping hk
  cases hc : s.c with
  | check => simp [System.run, sys, step, cStep, hc, hrf]
  | fin => simp [System.run, sys, step, cStep, hc]
  | wait =>
    obtain ⟨s', e, h1, h2, h3, h4⟩ := cStep_wait hc hq hrf
    simp only [System.run, sys, step, e]
    simp [cStep, h1, h3, h2, h4]

theorem run_cancel (g : Tags) : ∀ (snap : List Nat) (s : State) (m : Nat), s.k = .cancel snap →
    snap.length + 1 ≤ m → ((sys g).run s (List.replicate m .k)).stopReturned = true
  | [], s, 0, _, hm => by simp at hm
  | [], s, m + 1, hk, _ => by
    simp only [List.replicate_succ, System.run, sys, step, kStep, hk]
    exact congrArg State.stopReturned
      (run_k_done g (s := { s with stopReturned := true, k := .done }) rfl m)
  | i :: r, s, 0, _, hm => by simp at hm
  | i :: r, s, m + 1, hk, hm => by
    simp only [List.replicate_succ, System.run, sys, step, kStep, hk]
    exact run_cancel g r _ m rfl (by simpa using hm)

theorem phase3 {s : State} (h : Inv s) (hc : s.c = .fin) (hk : s.k.stopping = true) (m : Nat)
    (hm : s.srcs.length + 2 + snapLen s.k ≤ m) :
    ((sys ⟨true⟩).run s (List.replicate m .k)).stopReturned = true := by
  cases hk' : s.k with
  | post n => simp [hk', KPc.stopping] at hk
  | stopClear => simp [hk', KPc.stopping] at hk
  | stopAppend => simp [hk', KPc.stopping] at hk
  | done => rw [run_k_done _ hk']; exact h.ret.mpr hk'
  | cancel snap =>
    refine run_cancel _ snap s m hk' ?_
    simp only [hk', snapLen] at hm
    omega
  | join =>
    obtain ⟨m', rfl⟩ : ∃ m', m = m' + 1 := ⟨m - 1, by simp only [hk', snapLen] at hm; omega⟩
    simp only [List.replicate_succ, System.run, sys, step, kStep, hk', hc, if_true]
    refine run_cancel _ _ _ m' rfl ?_
    have h1 := length_trackedIdx_le s.srcs
    simp only [hk', snapLen] at hm
    omega

theorem fairSched_length (s : State) : (fairSched s).length = stopMeasure s := by
  simp [fairSched, stopMeasure]
  omega

theorem fairSched_returns {s : State} (h : Inv s) :
    ((sys ⟨true⟩).run s (fairSched s)).stopReturned = true := by
  unfold fairSched
  rw [System.run_append, System.run_append]
  obtain ⟨a1, a2, a3⟩ := phase1 ⟨true⟩ s
  have i1 := inv_run (List.replicate (kLead s.k) .k) s h
  generalize (sys ⟨true⟩).run s (List.replicate (kLead s.k) .k) = s1 at a1 a2 a3 i1
  obtain ⟨b1, b2, b3⟩ := phase2 ⟨true⟩ i1 a1
  have i2 := inv_run [.c, .c] s1 i1
  generalize (sys ⟨true⟩).run s1 [.c, .c] = s2 at b1 b2 b3 i2
  refine phase3 i2 b1 (by rw [b2]; exact a1) _ ?_
  rw [b2, a3]
  rw [a2] at b3
  omega

end Miros.Conc.AOArm

/-! ### a generic progress principle: a helper thread that stays enabled until it is scheduled -/
namespace Miros.Conc
variable {σ τ : Type}

theorem System.run_cons_some (S : System σ τ) {s s' : σ} {t : τ} (l : List τ)
    (h : S.step s t = some s') : S.run s (t :: l) = S.run s' l := by simp [System.run, h]

theorem System.run_cons_none (S : System σ τ) {s : σ} {t : τ} (l : List τ)
    (h : S.step s t = none) : S.run s (t :: l) = S.run s l := by simp [System.run, h]

/-- `ρ` never increases; while `ρ ≠ 0` the thread `help s` is enabled and its step decreases `ρ`; steps
of other threads do not change who the helper is.  Then a block of schedule entries that contains the
current helper brings `ρ` down by at least one (or to 0). -/
theorem System.helper_block (S : System σ τ) (I : σ → Prop) (ρ : σ → Nat) (help : σ → τ)
    (hinv : ∀ s t s', I s → S.step s t = some s' → I s')
    (hmono : ∀ s t s', I s → S.step s t = some s' → ρ s' ≤ ρ s)
    (hdec : ∀ s, I s → ρ s ≠ 0 → ∃ s', S.step s (help s) = some s' ∧ ρ s' < ρ s)
    (hkeep : ∀ s t s', I s → ρ s' ≠ 0 → t ≠ help s → S.step s t = some s' → help s' = help s) :
    ∀ (b : List τ) (s : σ), I s → help s ∈ b → ρ (S.run s b) ≤ ρ s - 1
  | [], _, _, hb => by simp at hb
  | t :: b, s, hI, hb => by
    have hmono_run : ∀ (l : List τ) (s : σ), I s → ρ (S.run s l) ≤ ρ s := fun l s hs =>
      S.inv_run (fun s' => I s' ∧ ρ s' ≤ ρ s)
        (fun s1 t s2 h1 h2 => ⟨hinv s1 t s2 h1.1 h2, Nat.le_trans (hmono s1 t s2 h1.1 h2) h1.2⟩)
        l s ⟨hs, Nat.le_refl _⟩ |>.2
    by_cases h0 : ρ s = 0
    · have := hmono_run (t :: b) s hI
      omega
    · obtain ⟨sh, hsh, hlt⟩ := hdec s hI h0
      cases hst : S.step s t with
      | none =>
        rw [System.run_cons_none S b hst]
        have hne : t ≠ help s := by
          intro e; rw [e, hsh] at hst; cases hst
        have hb' : help s ∈ b := by
          rcases List.mem_cons.mp hb with e | e
          · exact absurd e.symm hne
          · exact e
        exact System.helper_block S I ρ help hinv hmono hdec hkeep b s hI hb'
      | some s' =>
        rw [System.run_cons_some S b hst]
        have hI' := hinv s t s' hI hst
        by_cases ht : t = help s
        · have e : sh = s' := by rw [ht, hsh] at hst; exact Option.some.inj hst
          rw [e] at hlt
          have := hmono_run b s' hI'
          omega
        · by_cases h0' : ρ s' = 0
          · have := hmono_run b s' hI'
            omega
          · have hk := hkeep s t s' hI h0' ht hst
            have hb' : help s' ∈ b := by
              rw [hk]
              rcases List.mem_cons.mp hb with e | e
              · exact absurd e.symm ht
              · exact e
            have h1 := System.helper_block S I ρ help hinv hmono hdec hkeep b s' hI' hb'
            have h2 := hmono s t s' hI hst
            omega

/-- enough blocks, each containing every possible helper, bring `ρ` to 0 -/
theorem System.helper_blocks (S : System σ τ) (I : σ → Prop) (ρ : σ → Nat) (help : σ → τ)
    (hinv : ∀ s t s', I s → S.step s t = some s' → I s')
    (hmono : ∀ s t s', I s → S.step s t = some s' → ρ s' ≤ ρ s)
    (hdec : ∀ s, I s → ρ s ≠ 0 → ∃ s', S.step s (help s) = some s' ∧ ρ s' < ρ s)
    (hkeep : ∀ s t s', I s → ρ s' ≠ 0 → t ≠ help s → S.step s t = some s' → help s' = help s) :
    ∀ (blocks : List (List τ)) (s : σ), I s → (∀ b ∈ blocks, ∀ s', help s' ∈ b) →
      ρ s ≤ blocks.length → ρ (S.run s blocks.flatten) = 0
  | [], s, _, _, h => by simp at h; simpa [System.run] using h
  | b :: bs, s, hI, hb, h => by
    simp only [List.flatten_cons, System.run_append]
    have h1 := System.helper_block S I ρ help hinv hmono hdec hkeep b s hI (hb b (by simp) s)
    apply System.helper_blocks S I ρ help hinv hmono hdec hkeep bs (S.run s b)
      (S.inv_run I hinv b s hI) (fun b' hb' => hb b' (by simp [hb']))
    simp at h
    omega

end Miros.Conc

namespace Miros.Conc.AOArm

theorem rank_eq_zero {s : State} : rank s = 0 ↔ s.k = .done := by
  unfold rank
  cases s.k <;> simp <;> omega

theorem helper_mem (s : State) : helper s = .k ∨ helper s = .c := by
  unfold helper
  split
  · split <;> simp
  · simp

theorem rank_kStep {s s' : State} (hs : kStep ⟨true⟩ s = some s') : rank s' < rank s := by
  have hl := length_trackedIdx_le s.srcs
  unfold kStep at hs
  split at hs
  all_goals first | (split at hs) | skip
  all_goals first | cases hs | skip
  all_goals simp_all [rank, cWork]
  all_goals first | omega | (cases s.c <;> simp <;> omega)

theorem rank_cStep {s s' : State} (h : Inv s) (hs : cStep s = some s') :
    rank s' ≤ rank s ∧ s'.k = s.k ∧ (s.k = .join → rank s' < rank s) := by
  obtain ⟨h1, h2, h3, h4, h5, h6, h7⟩ := h
  unfold cStep at hs
  split at hs
  · split at hs <;> cases hs <;> cases hk : s.k <;> simp_all [rank, cWork, KPc.stopping]
  · split at hs
    · cases hs
    · cases hs; cases hk : s.k <;> simp_all [rank, cWork, KPc.stopping]
    · split at hs
      · cases hs; cases hk : s.k <;> simp_all [rank, cWork, KPc.stopping]
      · split at hs <;> cases hs <;> cases hk : s.k <;> simp_all [rank, cWork, KPc.stopping] <;> omega
    · cases hs; cases hk : s.k <;> simp_all [rank, cWork, KPc.stopping]
  · cases hs

theorem rank_tStep {s s' : State} {i : Nat} (hs : tStep s i = some s') :
    rank s' = rank s ∧ s'.k = s.k ∧ s'.c = s.c := by
  unfold tStep at hs
  split at hs
  · cases hs
  · split at hs
    · cases hs; simp [rank]
    · cases hs

/-- a surplus wake-up moves the consumer from `wait` to `check`: closer to its exit, never further -/
theorem rank_wStep {s s' : State} (hs : wStep s = some s') :
    rank s' ≤ rank s ∧ helper s' = helper s := by
  obtain ⟨hc, _, rfl⟩ := wStep_some hs
  unfold rank helper
  cases hk : s.k <;> simp [cWork, hc]

theorem rank_mono {s s' : State} {t : Step} (h : Inv s) (hs : (sys ⟨true⟩).step s t = some s') :
    rank s' ≤ rank s := by
  cases t with
  | k => exact Nat.le_of_lt (rank_kStep hs)
  | c => exact (rank_cStep h hs).1
  | t i => exact Nat.le_of_eq (rank_tStep hs).1
  | w => exact (rank_wStep hs).1

theorem helper_dec {s : State} (h : Inv s) (h0 : rank s ≠ 0) :
    ∃ s', (sys ⟨true⟩).step s (helper s) = some s' ∧ rank s' < rank s := by
  have hnd : s.k ≠ .done := fun e => h0 (rank_eq_zero.mpr e)
  have key : ∀ t, helper s = t → (∃ s', (sys ⟨true⟩).step s t = some s') →
      ∃ s', (sys ⟨true⟩).step s (helper s) = some s' ∧ rank s' < rank s := by
    intro t ht ⟨s', hs'⟩
    refine ⟨s', ht ▸ hs', ?_⟩
    cases t with
    | k => exact rank_kStep hs'
    | c =>
      refine (rank_cStep h hs').2.2 ?_
      unfold helper at ht
      split at ht
      · assumption
      · cases ht
    | t i => rcases helper_mem s with e | e <;> rw [e] at ht <;> cases ht
    | w => rcases helper_mem s with e | e <;> rw [e] at ht <;> cases ht
  cases hk : s.k with
  | done => exact absurd hk hnd
  | post n =>
    refine key .k (by simp [helper, hk]) ?_
    cases n <;> simp [sys, step, kStep, hk]
  | stopClear => exact key .k (by simp [helper, hk]) (by simp [sys, step, kStep, hk])
  | stopAppend => exact key .k (by simp [helper, hk]) (by simp [sys, step, kStep, hk])
  | cancel snap =>
    refine key .k (by simp [helper, hk]) ?_
    cases snap <;> simp [sys, step, kStep, hk]
  | join =>
    obtain ⟨hrf, hq⟩ := h.stopping (by simp [hk, KPc.stopping])
    cases hc : s.c with
    | fin => exact key .k (by simp [helper, hk, hc]) (by simp [sys, step, kStep, hk, hc])
    | check => exact key .c (by simp [helper, hk, hc]) (by simp [sys, step, cStep, hc, hrf])
    | wait =>
      obtain ⟨s', e, _⟩ := cStep_wait hc hq hrf
      exact key .c (by simp [helper, hk, hc]) ⟨s', e⟩

theorem helper_keep {s s' : State} {t : Step} (h : Inv s) (hne : t ≠ helper s)
    (hs : (sys ⟨true⟩).step s t = some s') : helper s' = helper s := by
  cases t with
  | w => exact (rank_wStep hs).2
  | t i =>
    obtain ⟨_, hk, hc⟩ := rank_tStep hs
    simp [helper, hk, hc]
  | c =>
    have hk := (rank_cStep h hs).2.1
    have hk' : s.k ≠ .join := by
      intro e
      have hcf : s.c = .fin := by
        apply Classical.byContradiction
        intro hcf
        exact hne (by simp [helper, e, hcf])
      simp [sys, step, cStep, hcf] at hs
    unfold helper
    rw [hk]
    split
    · next e => exact absurd e hk'
    · rfl
  | k =>
    have hj : s.k = .join ∧ s.c ≠ .fin := by
      unfold helper at hne
      split at hne
      · next e =>
        refine ⟨e, fun hc => ?_⟩
        simp [hc] at hne
      · exact absurd rfl hne
    simp [sys, step, kStep, hj.1, hj.2] at hs

/-- any schedule made of at least `rank s` blocks, each containing a client and a consumer entry (and
any timer and surplus-wake-up entries, in any order), makes `stop()` return -/
theorem fair_blocks_return {s : State} (h : Inv s) (blocks : List (List Step))
    (hb : ∀ b ∈ blocks, Step.k ∈ b ∧ Step.c ∈ b) (hl : rank s ≤ blocks.length) :
    ((sys ⟨true⟩).run s blocks.flatten).stopReturned = true := by
  have h0 := System.helper_blocks (sys ⟨true⟩) Inv rank helper
    (fun _ _ _ hi hs => inv_step hi hs) (fun _ _ _ hi hs => rank_mono hi hs)
    (fun _ hi h0 => helper_dec hi h0) (fun _ _ _ hi _ hne hs => helper_keep hi hne hs)
    blocks s h
    (fun b hbm s' => by rcases helper_mem s' with e | e <;> rw [e] <;> simp [hb b hbm]) hl
  exact (inv_run blocks.flatten s h).ret.mpr (rank_eq_zero.mp h0)

end Miros.Conc.AOArm
