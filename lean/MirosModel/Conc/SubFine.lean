import MirosModel.Conc.Sys
/-!
# `ActiveFabricSource.subscribe` at the granularity of its registry accesses

One registry (`signal name ↦ list of queues`, e.g. the fifo one) and any number of threads, each
making a list of `subscribe(queue, signal)` calls.  One step = one access:

```
with self.subscription_lock:                  # acquire
    if signal_name in internal_queue:         # look     look-up
        registry = internal_queue[signal_name]
        if id(queue) not in map(id, registry):    # test    membership test on the list as it is NOW
            registry.append(queue)                # append
    else:
        internal_queue[signal_name] = [queue]     # create  a NEW list holding only this queue
                                              # release
```

`Tags.extent` says what the lock covers: `all` = the whole body (current source), `lookupOnly` = the
look-up and the creation only (a seeded change: `test` and `append` run after the release), `none` =
there is no lock (the state before the repair).

Ghost field: `State.done` (the calls that returned, in order of return).
-/
namespace Miros.Conc.SubFine

/-- what the lock covers -/
inductive Extent
  | all          -- the whole body (current source)
  | lookupOnly   -- look-up + create only
  | none         -- nothing (no lock)
deriving DecidableEq, Repr

structure Tags where
  extent : Extent
deriving DecidableEq, Repr

/-- signal ↦ queue ids in subscription order -/
abbrev Registry := List (Nat × List Nat)

/-- look-up: the first entry for the signal -/
def Registry.get (r : Registry) (sig : Nat) : Option (List Nat) :=
  (r.find? (fun x => x.1 = sig)).map (·.2)

/-- apply `f` to the signal's list; if there is no entry, create it from `f []` at the end -/
def Registry.modify (r : Registry) (sig : Nat) (f : List Nat → List Nat) : Registry :=
  if (r.get sig).isSome then r.map (fun x => if x.1 = sig then (x.1, f x.2) else x)
  else r ++ [(sig, f [])]

/-- `d[sig] = l`: replace the entry if present, else add it at the end -/
def Registry.set (r : Registry) (sig : Nat) (l : List Nat) : Registry := r.modify sig (fun _ => l)

/-- is queue `q` subscribed to `sig` -/
def Registry.has (r : Registry) (sig q : Nat) : Bool := decide (q ∈ (r.get sig).getD [])

structure Call where
  sig : Nat
  q : Nat
deriving DecidableEq, Repr

/-- program counter inside the current call -/
inductive Pc
  | idle                       -- between calls
  | acquire                    -- about to take the lock (skipped when extent = none)
  | look                       -- look the signal up
  | test                       -- found: membership test (reads the list now)
  | append                     -- test said "not there": append
  | create                     -- not found: create the entry [q]
  | release (thenTest : Bool)  -- about to release; `thenTest`: (lookupOnly) the call goes on at `test`
deriving DecidableEq, Repr

structure Thread where
  todo : List Call                   -- the calls still to make (the head is the current call)
  pc : Pc
  holds : Bool                       -- this thread holds the lock
deriving DecidableEq, Repr

structure State where
  reg : Registry
  threads : List Thread
  owner : Option Nat                 -- who holds the lock
  done : List Call                   -- ghost: the calls that returned, in order of return
deriving DecidableEq, Repr

/-- the index of the thread that moves -/
abbrev Step := Nat

def setPc (s : State) (i : Nat) (t : Thread) (pc : Pc) : State :=
  { s with threads := s.threads.set i { t with pc := pc } }

/-- "call over": log the call, drop it, back to `idle` -/
def callOver (s : State) (i : Nat) (t : Thread) (c : Call) : State :=
  { s with threads := s.threads.set i { t with todo := t.todo.tail, pc := .idle },
           done := s.done ++ [c] }

/-- after the last registry access of the call: `release` if the lock is held, else the call is over -/
def leave (s : State) (i : Nat) (t : Thread) (c : Call) : State :=
  if t.holds then setPc s i t (.release false) else callOver s i t c

def stepT (g : Tags) (s : State) (i : Nat) (t : Thread) : Option State :=
  match t.todo with
  | [] => none
  | c :: _ =>
    match t.pc with
    | .idle => some (setPc s i t (if g.extent = .none then .look else .acquire))
    | .acquire =>
      if s.owner.isSome then none
      else some { s with owner := some i,
                         threads := s.threads.set i { t with pc := .look, holds := true } }
    | .look =>
      match s.reg.get c.sig with
      | some _ => some (setPc s i t (if g.extent = .lookupOnly then .release true else .test))
      | none => some (setPc s i t .create)
    | .create => some (leave { s with reg := s.reg.set c.sig [c.q] } i t c)
    | .test => if s.reg.has c.sig c.q then some (leave s i t c) else some (setPc s i t .append)
    | .append => some (leave { s with reg := s.reg.modify c.sig (· ++ [c.q]) } i t c)
    | .release thenTest =>
      let s1 := { s with owner := none }
      let t1 := { t with holds := false }
      if thenTest then some (setPc s1 i t1 .test) else some (callOver s1 i t1 c)

/-- one step of thread `i` (`none` = blocked / nothing to do / no such thread) -/
def step (g : Tags) (s : State) (i : Step) : Option State :=
  match s.threads[i]? with
  | none => none
  | some t => stepT g s i t

def sys (g : Tags) : System State Step where
  step := step g

def init (reg : Registry) (progs : List (List Call)) : State :=
  { reg := reg, threads := progs.map fun p => ⟨p, .idle, false⟩, owner := none, done := [] }

/-- number of schedule entries that were skipped because the chosen thread was blocked -/
def blockedCount (g : Tags) : State → List Step → Nat
  | _, [] => 0
  | s, t :: ts =>
    match step g s t with
    | some s' => blockedCount g s' ts
    | none => blockedCount g s ts + 1

/-! ### call-level ("atomic") semantics -/

/-- the body of `_subscribe` executed without interruption -/
def subscribeAtomic (r : Registry) (c : Call) : Registry :=
  match r.get c.sig with
  | some _ => if r.has c.sig c.q then r else r.modify c.sig (· ++ [c.q])
  | none => r.set c.sig [c.q]

/-- the rest of the call `c` in progress, run without interruption -/
def finishPc (c : Call) (pc : Pc) (r : Registry) : Registry :=
  match pc with
  | .idle => r
  | .acquire => r
  | .look => subscribeAtomic r c
  | .test => if r.has c.sig c.q then r else r.modify c.sig (· ++ [c.q])
  | .append => r.modify c.sig (· ++ [c.q])
  | .create => r.set c.sig [c.q]
  | .release true => if r.has c.sig c.q then r else r.modify c.sig (· ++ [c.q])
  | .release false => r

/-- the current call of a thread (a default when there is none) -/
def Thread.cur (t : Thread) : Call := t.todo.headD ⟨0, 0⟩

/-- the registry once the call in progress (if any: the lock owner's) has been completed -/
def absReg (s : State) : Registry :=
  match s.owner with
  | none => s.reg
  | some i =>
    match s.threads[i]? with
    | some t => finishPc t.cur t.pc s.reg
    | none => s.reg

/-- is thread `i` about to take the lock for a call -/
def acquires (s : State) (i : Nat) : Option Call :=
  match s.threads[i]? with
  | some ⟨c :: _, .acquire, _⟩ => some c
  | _ => none

/-- the calls in the order in which they took the lock during a schedule, each with the thread that
made it -/
def acqLog (g : Tags) : State → List Step → List (Nat × Call)
  | _, [] => []
  | s, i :: ts =>
    match step g s i with
    | some s' =>
      match acquires s i with
      | some c => (i, c) :: acqLog g s' ts
      | none => acqLog g s' ts
    | none => acqLog g s ts

/-- run a sequence of calls atomically, one after the other -/
def runAtomic (r : Registry) (log : List (Nat × Call)) : Registry :=
  log.foldl (fun r p => subscribeAtomic r p.2) r

/-- the calls of a thread that have not taken the lock yet -/
def remaining : Option Thread → List Call
  | some ⟨todo, .idle, _⟩ => todo
  | some ⟨todo, .acquire, _⟩ => todo
  | some ⟨todo, _, _⟩ => todo.tail
  | none => []

/-- the calls of thread `i` in a log, in order -/
def callsOf (i : Nat) (log : List (Nat × Call)) : List Call := (log.filter (·.1 == i)).map (·.2)

/-- total number of calls in the programs -/
def totalCalls (progs : List (List Call)) : Nat := (progs.map List.length).sum

/-- number of calls that have not returned yet -/
def pendingCalls (ts : List Thread) : Nat := (ts.map fun t => t.todo.length).sum

end Miros.Conc.SubFine
