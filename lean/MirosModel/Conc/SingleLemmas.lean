import MirosModel.Conc.Small
import MirosModel.Conc.SysLemmas
/-!
# `SingletonDecorator.__call__` with the double-checked lock: inductive invariant
-/
namespace Miros.Conc.Single

/-- inside the `with self._lock:` block -/
def InCrit : Pc → Prop
  | .check2 | .construct | .store | .release => True
  | _ => False

instance : DecidablePred InCrit := fun p => by cases p <;> unfold InCrit <;> infer_instance

/-- what holds of thread `i` in state `s` -/
def ThreadOK (s : State) (i : Nat) (t : Thread) : Prop :=
  (InCrit t.pc → s.lock = some i) ∧
  (∀ o, t.mine = some o → o = 0) ∧
  (t.pc = .construct → s.instance_ = none ∧ s.nextObj = 0) ∧
  (t.pc = .store → t.mine = some 0 ∧ s.instance_ = none ∧ s.nextObj = 1) ∧
  (t.pc = .release ∨ t.pc = .read → s.instance_ = some 0) ∧
  (t.pc = .done → t.ret = some 0) ∧
  (∀ r, t.ret = some r → s.instance_ = some r)

/-- the inductive invariant of the locked variant -/
structure Inv (s : State) : Prop where
  nextObj_le : s.nextObj ≤ 1
  inst : ∀ o, s.instance_ = some o → o = 0 ∧ s.nextObj = 1
  noneInst : s.instance_ = none →
    s.nextObj = 0 ∨ ∃ j t, s.lock = some j ∧ s.threads[j]? = some t ∧ t.pc = .store
  owner : ∀ j, s.lock = some j → ∃ t, s.threads[j]? = some t ∧ InCrit t.pc
  thr : ∀ i t, s.threads[i]? = some t → ThreadOK s i t

theorem Inv.init (n : Nat) : Inv (init n) := by
  refine ⟨by simp [Single.init], by simp [Single.init], by simp [Single.init], by simp [Single.init], ?_⟩
  intro i t h
  simp only [Single.init, List.getElem?_replicate] at h
  split at h
  · cases h
    simp [ThreadOK, Single.init, InCrit]
  · cases h

theorem step_length {locked : Bool} {s s' : State} {i : Nat} (h : step locked s i = some s') :
    s'.threads.length = s.threads.length := by
  unfold step at h
  split at h
  · cases h
  · rename_i t ht
    split at h <;> (try split at h) <;> (try cases h) <;> simp

theorem Inv.step {s s' : State} {i : Nat} (hI : Inv s) (h : step true s i = some s') : Inv s' := by
  unfold Single.step at h
  split at h
  · cases h
  · rename_i t ht
    have hlt : i < s.threads.length := by
      have := List.getElem?_eq_some_iff.mp ht
      exact this.1
    have hT := hI.thr i t ht
    obtain ⟨h1, h2, h3, h4, h5⟩ := hI
    split at h <;> (try simp only [if_true] at h) <;> (try split at h) <;> (try cases h)
    all_goals
      refine ⟨?_, ?_, ?_, ?_, ?_⟩
    all_goals (try grind [InCrit, ThreadOK])
    all_goals (cases hi : s.instance_ <;> grind [InCrit, ThreadOK])

theorem Inv.run (n : Nat) (sched : List Nat) : Inv ((sys true).run (Single.init n) sched) :=
  (sys true).inv_run Inv (fun _ _ _ hI h => hI.step h) sched _ (Inv.init n)

theorem run_length (locked : Bool) (sched : List Nat) (s : State) :
    ((sys locked).run s sched).threads.length = s.threads.length :=
  (sys locked).inv_run (fun s' => s'.threads.length = s.threads.length)
    (fun _ _ _ hI h => (step_length h).trans hI) sched s rfl

/-- once set, `instance` is never changed by a step -/
theorem step_instance_stable {s s' : State} {i o : Nat} (hI : Inv s) (h : step true s i = some s')
    (ho : s.instance_ = some o) : s'.instance_ = some o := by
  unfold Single.step at h
  split at h
  · cases h
  · rename_i t ht
    have hT := hI.thr i t ht
    split at h <;> (try split at h) <;> (try cases h)
    all_goals grind [ThreadOK]

theorem run_instance_stable {o : Nat} (sched : List Nat) (s : State) (hI : Inv s)
    (ho : s.instance_ = some o) : ((sys true).run s sched).instance_ = some o :=
  ((sys true).inv_run (fun s' => Inv s' ∧ s'.instance_ = some o)
    (fun _ _ _ hI h => ⟨hI.1.step h, step_instance_stable hI.1 h hI.2⟩) sched s ⟨hI, ho⟩).2

/-- every thread that is not finished and not waiting for a held lock can move -/
theorem enabled {s : State} {i : Nat} {t : Thread} (ht : s.threads[i]? = some t)
    (hd : t.pc ≠ .done) (ha : t.pc = .acquire → s.lock = none) : step true s i ≠ none := by
  unfold Single.step
  simp only [ht]
  cases hp : t.pc <;> simp_all <;> split <;> simp

/-- no deadlock: in a quiescent state satisfying the invariant every thread has returned -/
theorem quiescent_done {s : State} (hI : Inv s) (hq : (sys true).Quiescent s) {i : Nat} {t : Thread}
    (ht : s.threads[i]? = some t) : t.pc = .done := by
  apply Classical.byContradiction
  intro hd
  have hacq : t.pc = .acquire := by
    apply Classical.byContradiction
    intro ha
    exact enabled ht hd (fun h => absurd h ha) (hq i)
  cases hl : s.lock with
  | none => exact enabled ht hd (fun _ => hl) (hq i)
  | some j =>
    obtain ⟨tj, htj, hc⟩ := hI.owner j hl
    refine enabled htj ?_ ?_ (hq j)
    · intro h; rw [h] at hc; exact hc
    · intro h; rw [h] at hc; exact hc.elim

end Miros.Conc.Single
