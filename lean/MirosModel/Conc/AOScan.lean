import MirosModel.Conc.AO
/-!
# The search loop of `cancel_event(s)`: `scan` in closed form
-/
namespace Miros.Conc.AO

theorem rot_concat (l : List Nat) (x : Nat) : rot (l ++ [x]) = x :: l := by
  simp [rot]

/-- `cancel_events`: looking at the `r.length` right-most entries (`r` lists them right to left) moves the
non-matching ones to the front, keeping their order, and collects the matching ones right to left -/
theorem scan_all_aux (hit : Nat → Bool) :
    ∀ (r front acc : List Nat),
      scan hit false r.length (front ++ r.reverse) acc
        = (acc ++ r.filter hit, (r.filter fun x => !hit x).reverse ++ front) := by
  intro r
  induction r with
  | nil => intro front acc; simp [scan]
  | cons x r ih =>
    intro front acc
    have h1 : front ++ (x :: r).reverse = (front ++ r.reverse) ++ [x] := by simp
    rw [h1, List.length_cons, scan]
    simp only [List.getLast?_concat, List.dropLast_concat, Bool.false_eq_true, if_false]
    cases hx : hit x with
    | true =>
      simp only [if_true]
      rw [ih]
      simp [hx]
    | false =>
      simp only [Bool.false_eq_true, if_false]
      rw [rot_concat]
      have := ih (x :: front) acc
      rw [List.cons_append] at this
      rw [this]
      simp [hx]

/-- `cancel_events`, whole queue: the matches right to left, and the others in their old order -/
theorem scan_all (hit : Nat → Bool) (order : List Nat) :
    scan hit false order.length order []
      = ((order.filter hit).reverse, order.filter fun x => !hit x) := by
  have := scan_all_aux hit order.reverse [] []
  simpa [List.filter_reverse] using this

/-- `cancel_event`: the search stops at the right-most match -/
theorem scan_first_aux (hit : Nat → Bool) :
    ∀ (r front acc : List Nat) (n : Nat), r.length ≤ n → (∀ y ∈ r, hit y = false) →
      ∀ (p : List Nat) (x : Nat), hit x = true →
      scan hit true (n + 1) (front ++ p ++ [x] ++ r.reverse) acc = (acc ++ [x], r.reverse ++ (front ++ p)) := by
  intro r
  induction r with
  | nil =>
    intro front acc n _ _ p x hx
    simp [scan, hx]
  | cons y r ih =>
    intro front acc n hn hr p x hx
    have hy : hit y = false := hr y (by simp)
    have h1 : front ++ p ++ [x] ++ (y :: r).reverse = (front ++ p ++ [x] ++ r.reverse) ++ [y] := by simp
    rw [h1, scan]
    simp only [List.getLast?_concat, hy, Bool.false_eq_true, if_false, rot_concat]
    cases n with
    | zero => simp at hn
    | succ n =>
      have := ih (y :: front) acc n (by simp at hn; omega) (fun z hz => hr z (by simp [hz])) p x hx
      simp only [List.cons_append] at this
      simp only [List.cons_append, List.append_assoc] at this ⊢
      rw [this]
      simp

theorem scan_first_none_aux (hit : Nat → Bool) :
    ∀ (r front acc : List Nat), (∀ y ∈ r, hit y = false) →
      scan hit true r.length (front ++ r.reverse) acc = (acc, r.reverse ++ front) := by
  intro r
  induction r with
  | nil => intro front acc _; simp [scan]
  | cons y r ih =>
    intro front acc hr
    have hy : hit y = false := hr y (by simp)
    have h1 : front ++ (y :: r).reverse = (front ++ r.reverse) ++ [y] := by simp
    rw [h1, List.length_cons, scan]
    simp only [List.getLast?_concat, hy, Bool.false_eq_true, if_false, rot_concat]
    have := ih (y :: front) acc (fun z hz => hr z (by simp [hz]))
    rw [List.cons_append] at this
    rw [this]
    simp

/-- `cancel_event`, no match: nothing selected, the queue is rotated all the way round -/
theorem scan_first_none (hit : Nat → Bool) (order : List Nat) (h : ∀ y ∈ order, hit y = false) :
    scan hit true order.length order [] = ([], order) := by
  have := scan_first_none_aux hit order.reverse [] [] (by simpa using h)
  simpa using this

/-- `cancel_event`, right-most match `x`: exactly `x` is selected; the entries to its right have been
rotated to the front -/
theorem scan_first_some (hit : Nat → Bool) (p suf : List Nat) (x : Nat) (hx : hit x = true)
    (hs : ∀ y ∈ suf, hit y = false) :
    scan hit true (p ++ x :: suf).length (p ++ x :: suf) [] = ([x], suf ++ p) := by
  have := scan_first_aux hit suf.reverse [] [] (p.length + suf.length) (by simp) (by simpa using hs) p x hx
  simp only [List.reverse_reverse, List.nil_append] at this
  have hl : (p ++ x :: suf).length = p.length + suf.length + 1 := by simp; omega
  rw [hl]
  have he : p ++ x :: suf = p ++ [x] ++ suf := by simp
  rw [he]
  exact this

/-- whatever the search does, entries are only moved between the queue and the selection -/
theorem scan_perm (hit : Nat → Bool) (first : Bool) :
    ∀ (n : Nat) (order acc : List Nat),
      ((scan hit first n order acc).1 ++ (scan hit first n order acc).2).Perm (acc ++ order) := by
  intro n
  induction n with
  | zero => intro order acc; simp [scan]
  | succ n ih =>
    intro order acc
    rcases List.eq_nil_or_concat order with rfl | ⟨l, x, rfl⟩
    · simp [scan]
    · rw [List.concat_eq_append, scan]
      simp only [List.getLast?_concat, List.dropLast_concat, rot_concat]
      split
      · have hp : (acc ++ x :: l).Perm (acc ++ (l ++ [x])) :=
          List.Perm.append_left acc (List.perm_append_singleton x l).symm
        split
        · simpa using hp
        · refine (ih l (acc ++ [x])).trans ?_
          simpa using hp
      · refine (ih (x :: l) acc).trans ?_
        refine List.Perm.append_left acc ?_
        exact (List.perm_append_singleton x l).symm

/-- the right-most match, if there is one -/
theorem exists_last_hit (hit : Nat → Bool) (order : List Nat) :
    (∀ y ∈ order, hit y = false) ∨
    ∃ p x suf, order = p ++ x :: suf ∧ hit x = true ∧ ∀ y ∈ suf, hit y = false := by
  induction order with
  | nil => left; simp
  | cons a l ih =>
    rcases ih with h | ⟨p, x, suf, rfl, hx, hs⟩
    · cases ha : hit a with
      | false => left; intro y hy; simp at hy; rcases hy with rfl | hy; exact ha; exact h y hy
      | true => right; exact ⟨[], a, l, rfl, ha, h⟩
    · right; exact ⟨a :: p, x, suf, rfl, hx, hs⟩

end Miros.Conc.AO
