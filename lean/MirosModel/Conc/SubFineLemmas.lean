import MirosModel.Conc.SubFine
import MirosModel.Conc.SysLemmas
import MirosModel.Conc.FabricLemmas
/-!
# `ActiveFabricSource.subscribe`, one step = one registry access: lemmas

* registry algebra (`get` / `modify` / `set` / `has`), well-formedness `WF`
* `subscribeAtomic` = `Fab.Registry.subscribe` (ties this model to the C06 theorems of the fabric model)
* `Inv` — the inductive invariant of the fully locked variant (`extent = all`), `step_all_shape`
* refinement: `absReg` / `acqLog` / `runAtomic`
* termination measure, quiescence
-/
namespace Miros.Conc.SubFine

/-! ### registry algebra -/

theorem get_nil (sig : Nat) : Registry.get [] sig = none := rfl

theorem get_cons (x : Nat × List Nat) (r : Registry) (sig : Nat) :
    Registry.get (x :: r) sig = if x.1 = sig then some x.2 else Registry.get r sig := by
  unfold Registry.get
  by_cases h : x.1 = sig <;> simp [h]

theorem get_eq_none_iff {r : Registry} {sig : Nat} : r.get sig = none ↔ sig ∉ r.map (·.1) := by
  induction r with
  | nil => simp [get_nil]
  | cons x r ih =>
    rw [get_cons]
    by_cases h : x.1 = sig
    · simp [h]
    · simp only [h, if_false, ih, List.map_cons, List.mem_cons, not_or]
      exact ⟨fun h' => ⟨fun e => h e.symm, h'⟩, fun h' => h'.2⟩

theorem get_isSome_iff {r : Registry} {sig : Nat} : (r.get sig).isSome ↔ sig ∈ r.map (·.1) := by
  have := @get_eq_none_iff r sig
  cases hg : r.get sig with
  | none => simp [hg] at this ⊢; simpa using this
  | some k => simp [hg] at this ⊢; simpa using this

theorem get_some_mem {r : Registry} {sig : Nat} {l : List Nat} (h : r.get sig = some l) :
    (sig, l) ∈ r := by
  induction r with
  | nil => simp [get_nil] at h
  | cons x r ih =>
    rw [get_cons] at h
    by_cases hx : x.1 = sig
    · simp only [hx, if_true, Option.some.injEq] at h
      have : x = (sig, l) := by rw [← hx, ← h]
      simp [this]
    · simp only [hx, if_false] at h
      exact List.mem_cons_of_mem _ (ih h)

/-- with distinct signals every entry is the one found by the look-up -/
theorem get_of_mem {r : Registry} (hn : (r.map (·.1)).Nodup) {x : Nat × List Nat} (hx : x ∈ r) :
    r.get x.1 = some x.2 := by
  induction r with
  | nil => simp at hx
  | cons y r ih =>
    rw [get_cons]
    simp only [List.map_cons, List.nodup_cons] at hn
    rcases List.mem_cons.mp hx with rfl | hx'
    · simp
    · have : y.1 ≠ x.1 := fun e => hn.1 (e ▸ List.mem_map_of_mem hx')
      simp only [this, if_false]
      exact ih hn.2 hx'

theorem get_map (r : Registry) (sig : Nat) (f : List Nat → List Nat) (s : Nat) :
    Registry.get (r.map (fun x => if x.1 = sig then (x.1, f x.2) else x)) s =
      if s = sig then (r.get s).map f else r.get s := by
  induction r with
  | nil => simp [get_nil]
  | cons x r ih =>
    obtain ⟨a, l⟩ := x
    simp only [List.map_cons, get_cons]
    by_cases ha : a = sig
    · subst ha
      by_cases hs : s = a
      · subst hs; simp
      · have : ¬ a = s := fun e => hs e.symm
        simp [this, hs, ih]
    · by_cases has : a = s
      · subst has; simp [ha]
      · simp [ha, has, ih]

theorem get_append_single (r : Registry) (sig : Nat) (l : List Nat) (s : Nat) :
    Registry.get (r ++ [(sig, l)]) s = (r.get s).or (if sig = s then some l else none) := by
  induction r with
  | nil => simp [get_cons, get_nil]
  | cons x r ih =>
    simp only [List.cons_append, get_cons]
    by_cases hx : x.1 = s
    · simp [hx]
    · simp only [hx, if_false]; exact ih

theorem get_modify (r : Registry) (sig : Nat) (f : List Nat → List Nat) (s : Nat) :
    (r.modify sig f).get s = if s = sig then some (f ((r.get sig).getD [])) else r.get s := by
  unfold Registry.modify
  cases hg : r.get sig with
  | some l =>
    simp only [Option.isSome_some, if_true, get_map, Option.getD_some]
    by_cases hs : s = sig
    · subst hs; simp [hg]
    · simp [hs]
  | none =>
    simp only [Option.isSome_none, Bool.false_eq_true, if_false, get_append_single, Option.getD_none]
    by_cases hs : s = sig
    · subst hs; simp [hg]
    · have : ¬ sig = s := fun e => hs e.symm
      simp [hs, this]

theorem get_set (r : Registry) (sig : Nat) (l : List Nat) (s : Nat) :
    (r.set sig l).get s = if s = sig then some l else r.get s := by
  unfold Registry.set; rw [get_modify]

theorem has_iff {r : Registry} {sig q : Nat} : r.has sig q = true ↔ q ∈ (r.get sig).getD [] := by
  simp [Registry.has]

theorem has_false_iff {r : Registry} {sig q : Nat} :
    r.has sig q = false ↔ q ∉ (r.get sig).getD [] := by
  simp [Registry.has]

theorem has_isSome {r : Registry} {sig q : Nat} (h : r.has sig q = true) : (r.get sig).isSome := by
  rw [has_iff] at h
  cases hg : r.get sig with
  | none => simp [hg] at h
  | some l => rfl

/-- appending a queue to a signal's list keeps every subscription and adds that one -/
theorem has_modify_append (r : Registry) (sig q s q' : Nat) :
    (r.modify sig (· ++ [q])).has s q' = (r.has s q' || (decide (s = sig) && decide (q' = q))) := by
  simp only [Registry.has, get_modify]
  by_cases hs : s = sig
  · subst hs; simp
  · simp [hs]

theorem has_set (r : Registry) (sig : Nat) (l : List Nat) (s q' : Nat) :
    (r.set sig l).has s q' = if s = sig then decide (q' ∈ l) else r.has s q' := by
  simp only [Registry.has, get_set]
  by_cases hs : s = sig
  · subst hs; simp
  · simp [hs]

theorem keys_modify (r : Registry) (sig : Nat) (f : List Nat → List Nat) :
    (r.modify sig f).map (·.1) =
      if (r.get sig).isSome then r.map (·.1) else r.map (·.1) ++ [sig] := by
  unfold Registry.modify
  by_cases h : (r.get sig).isSome
  · simp only [h, if_true, List.map_map]
    apply List.map_congr_left
    intro x _
    by_cases hx : x.1 = sig <;> simp [hx]
  · simp [h]

/-- well-formed registry: signals distinct, every list duplicate-free -/
def WF (r : Registry) : Prop := (r.map (·.1)).Nodup ∧ ∀ x ∈ r, x.2.Nodup

theorem WF_nil : WF [] := by simp [WF]

theorem WF.nodup_get {r : Registry} (h : WF r) {sig : Nat} {l : List Nat} (hg : r.get sig = some l) :
    l.Nodup := h.2 _ (get_some_mem hg)

theorem WF.modify {r : Registry} (h : WF r) (sig : Nat) (f : List Nat → List Nat)
    (hf : (f ((r.get sig).getD [])).Nodup) : WF (r.modify sig f) := by
  constructor
  · rw [keys_modify]
    by_cases hs : (r.get sig).isSome
    · simp only [hs, if_true]; exact h.1
    · rw [if_neg hs, List.nodup_append]
      refine ⟨h.1, by simp, ?_⟩
      intro a ha b hb
      simp only [List.mem_singleton] at hb
      subst hb
      intro hab; subst hab
      exact hs (get_isSome_iff.mpr ha)
  · intro x hx
    unfold Registry.modify at hx
    by_cases hs : (r.get sig).isSome
    · simp only [hs, if_true, List.mem_map] at hx
      obtain ⟨y, hy, rfl⟩ := hx
      by_cases hys : y.1 = sig
      · simp only [hys, if_true]
        have := get_of_mem h.1 hy
        rw [hys] at this
        rw [this] at hf
        exact hf
      · simp only [hys, if_false]; exact h.2 y hy
    · rw [if_neg hs, List.mem_append, List.mem_singleton] at hx
      rcases hx with hx | rfl
      · exact h.2 x hx
      · have : r.get sig = none := by
          cases hg : r.get sig with
          | none => rfl
          | some l => simp [hg] at hs
        rw [this] at hf
        exact hf

/-! ### the atomic call -/

theorem subscribeAtomic_of_has {r : Registry} {c : Call} (h : r.has c.sig c.q = true) :
    subscribeAtomic r c = r := by
  unfold subscribeAtomic
  cases hg : r.get c.sig with
  | none => have := has_isSome h; simp [hg] at this
  | some l => simp [h]

/-- after the call the queue is subscribed, and nothing that was subscribed is lost -/
theorem has_subscribeAtomic (r : Registry) (c : Call) (s q : Nat) :
    (subscribeAtomic r c).has s q = (r.has s q || (decide (s = c.sig) && decide (q = c.q))) := by
  unfold subscribeAtomic
  cases hg : r.get c.sig with
  | none =>
    simp only [has_set]
    by_cases hs : s = c.sig
    · subst hs; simp [Registry.has, hg]
    · simp [hs]
  | some l =>
    simp only []
    by_cases hh : r.has c.sig c.q = true
    · simp only [hh, if_true]
      by_cases hs : s = c.sig
      · by_cases hq : q = c.q
        · subst hs hq; simp [hh]
        · simp [hq]
      · simp [hs]
    · rw [if_neg hh]
      exact has_modify_append r c.sig c.q s q

theorem WF.subscribeAtomic {r : Registry} (h : WF r) (c : Call) : WF (subscribeAtomic r c) := by
  unfold SubFine.subscribeAtomic
  cases hg : r.get c.sig with
  | none => exact h.modify _ _ (by simp)
  | some l =>
    simp only []
    by_cases hh : r.has c.sig c.q = true
    · simp only [hh, if_true]; exact h
    · rw [if_neg hh]
      apply h.modify
      simp only [hg, Option.getD_some]
      have hn := h.nodup_get hg
      have : c.q ∉ l := by
        have := has_false_iff.mp (by simpa using hh : r.has c.sig c.q = false)
        simpa [hg] using this
      rw [List.nodup_append]
      exact ⟨hn, by simp, by intro a ha b hb; simp at hb; subst hb; intro e; subst e; exact this ha⟩

/-- **tie to the fabric model**: the body of `_subscribe`, run without interruption, is
`Registry.subscribe` of `MirosModel/Conc/Fabric.lean` (up to argument order) -/
theorem subscribeAtomic_eq_fab (r : Registry) (c : Call) :
    subscribeAtomic r c = Fab.Registry.subscribe r c.sig c.q := by
  unfold subscribeAtomic Fab.Registry.subscribe
  have hget : Fab.Registry.get r c.sig = Registry.get r c.sig := rfl
  rw [hget]
  cases hg : Registry.get r c.sig with
  | none => simp [Registry.set, Registry.modify, hg]
  | some l =>
    simp only [Registry.has, hg, Option.getD_some, Registry.modify, Option.isSome_some, if_true]
    by_cases hq : c.q ∈ l <;> simp [hq]

theorem WF_iff_fab (r : Registry) : WF r ↔ Fab.Registry.WF r := Iff.rfl

theorem runAtomic_cons (r : Registry) (p : Nat × Call) (log : List (Nat × Call)) :
    runAtomic r (p :: log) = runAtomic (subscribeAtomic r p.2) log := rfl

theorem runAtomic_append (r : Registry) (l1 l2 : List (Nat × Call)) :
    runAtomic r (l1 ++ l2) = runAtomic (runAtomic r l1) l2 := by
  simp [runAtomic, List.foldl_append]

theorem WF.runAtomic {r : Registry} (h : WF r) (log : List (Nat × Call)) : WF (runAtomic r log) := by
  induction log generalizing r with
  | nil => exact h
  | cons p log ih => rw [runAtomic_cons]; exact ih (h.subscribeAtomic p.2)

theorem has_runAtomic_mono {r : Registry} {s q : Nat} (h : r.has s q = true)
    (log : List (Nat × Call)) : (runAtomic r log).has s q = true := by
  induction log generalizing r with
  | nil => exact h
  | cons p log ih =>
    rw [runAtomic_cons]
    apply ih
    rw [has_subscribeAtomic, h]; rfl

/-- a call whose queue is already subscribed can be dropped from any serial order -/
theorem runAtomic_filter_of_has {r : Registry} {c : Call} (h : r.has c.sig c.q = true)
    (log : List (Nat × Call)) :
    runAtomic r log = runAtomic r (log.filter (fun p => p.2 ≠ c)) := by
  induction log generalizing r with
  | nil => rfl
  | cons p log ih =>
    by_cases hp : p.2 = c
    · have : (p :: log).filter (fun p => p.2 ≠ c) = log.filter (fun p => p.2 ≠ c) := by
        simp [hp]
      rw [this, runAtomic_cons, hp, subscribeAtomic_of_has h]
      exact ih h
    · have : (p :: log).filter (fun p => p.2 ≠ c) = p :: log.filter (fun p => p.2 ≠ c) := by
        simp [hp]
      rw [this, runAtomic_cons, runAtomic_cons]
      apply ih
      rw [has_subscribeAtomic, h]; rfl

/-! ### the invariant of the fully locked variant (`extent = all`) -/

/-- what the program counter of a thread says about the lock and the registry -/
def PcOK (r : Registry) (t : Thread) : Prop :=
  match t.pc with
  | .idle => t.holds = false
  | .acquire => t.holds = false ∧ t.todo ≠ []
  | .look => t.holds = true ∧ t.todo ≠ []
  | .test => t.holds = true ∧ t.todo ≠ [] ∧ (r.get t.cur.sig).isSome = true
  | .append => t.holds = true ∧ t.todo ≠ [] ∧ (r.get t.cur.sig).isSome = true ∧
      r.has t.cur.sig t.cur.q = false
  | .create => t.holds = true ∧ t.todo ≠ [] ∧ r.get t.cur.sig = none
  | .release b => t.holds = true ∧ t.todo ≠ [] ∧ b = false ∧ r.has t.cur.sig t.cur.q = true

/-- lock discipline: a thread inside the body holds the lock, the holder is the owner, the facts the
holder has read from the registry are still true (nobody else writes) -/
structure Inv (s : State) : Prop where
  thr : ∀ j t, s.threads[j]? = some t → PcOK s.reg t ∧ (t.holds = true → s.owner = some j)
  held : ∀ j, s.owner = some j → ∃ t, s.threads[j]? = some t ∧ t.holds = true

theorem inv_init (reg : Registry) (progs : List (List Call)) : Inv (init reg progs) := by
  constructor
  · intro j t ht
    simp only [init, List.getElem?_map, Option.map_eq_some_iff] at ht
    obtain ⟨p, _, rfl⟩ := ht
    simp [PcOK]
  · intro j hj; simp [init] at hj

theorem PcOK.of_not_holds {r r' : Registry} {t : Thread} (h : PcOK r t) (hh : t.holds = false) :
    PcOK r' t := by
  obtain ⟨todo, pc, holds⟩ := t
  simp only at hh; subst hh
  cases pc <;> simp_all [PcOK]

theorem getElem?_set_self' {l : List Thread} {i : Nat} {t tn : Thread} (h : l[i]? = some t) :
    (l.set i tn)[i]? = some tn := by
  have := (List.getElem?_eq_some_iff.mp h).1
  simp [this]

theorem getElem?_set_ne' {l : List Thread} {i j : Nat} {tn : Thread} (h : i ≠ j) :
    (l.set i tn)[j]? = l[j]? := by
  simp [h]

theorem Inv.rebuild {s s' : State} {i : Nat} {t tn : Thread} (h : Inv s)
    (hi : s.threads[i]? = some t) (hthreads : s'.threads = s.threads.set i tn)
    (hpc : PcOK s'.reg tn)
    (hcase : (s'.reg = s.reg ∧ s'.owner = s.owner ∧ tn.holds = t.holds) ∨
      ((t.holds = true ∨ s.owner = none) ∧ s'.owner = if tn.holds then some i else none)) :
    Inv s' := by
  have hti := getElem?_set_self' (tn := tn) hi
  rcases hcase with ⟨hreg, hown, hholds⟩ | ⟨hex, hown⟩
  · constructor
    · intro j t' ht'
      rw [hthreads] at ht'
      by_cases hji : i = j
      · subst hji
        rw [hti] at ht'; cases ht'
        refine ⟨hpc, fun hh => ?_⟩
        rw [hown]; exact (h.thr i t hi).2 (hholds ▸ hh)
      · rw [getElem?_set_ne' hji] at ht'
        rw [hreg, hown]; exact h.thr j t' ht'
    · intro j hj
      rw [hown] at hj
      obtain ⟨t', ht', hh'⟩ := h.held j hj
      rw [hthreads]
      by_cases hji : i = j
      · subst hji
        rw [hi] at ht'; cases ht'
        exact ⟨tn, hti, hholds ▸ hh'⟩
      · rw [getElem?_set_ne' hji]; exact ⟨t', ht', hh'⟩
  · have hothers : ∀ j t', i ≠ j → s.threads[j]? = some t' → t'.holds = false := by
      intro j t' hji ht'
      cases hh : t'.holds with
      | false => rfl
      | true =>
        have hoj := (h.thr j t' ht').2 hh
        rcases hex with hth | hno
        · have hoi := (h.thr i t hi).2 hth
          rw [hoi] at hoj; cases hoj; exact absurd rfl hji
        · rw [hno] at hoj; cases hoj
    constructor
    · intro j t' ht'
      rw [hthreads] at ht'
      by_cases hji : i = j
      · subst hji
        rw [hti] at ht'; cases ht'
        refine ⟨hpc, fun hh => ?_⟩
        rw [hown, hh]; rfl
      · rw [getElem?_set_ne' hji] at ht'
        have hf := hothers j t' hji ht'
        exact ⟨(h.thr j t' ht').1.of_not_holds hf, fun hh => by rw [hf] at hh; cases hh⟩
    · intro j hj
      rw [hown] at hj
      cases hh : tn.holds with
      | false => rw [hh] at hj; cases hj
      | true =>
        rw [hh] at hj
        simp only [if_true, Option.some.injEq] at hj
        subst hj
        rw [hthreads]; exact ⟨tn, hti, hh⟩

/-- the nine kinds of step of the fully locked variant, with what the invariant says about each -/
def Shape (s s' : State) (i : Nat) (t : Thread) (c : Call) : Prop :=
  (t.pc = .idle ∧ t.holds = false ∧ s' = setPc s i t .acquire) ∨
  (t.pc = .acquire ∧ t.holds = false ∧ s.owner = none ∧
    s' = { s with owner := some i,
                  threads := s.threads.set i { t with pc := .look, holds := true } }) ∨
  (t.pc = .look ∧ t.holds = true ∧ s.owner = some i ∧ (s.reg.get c.sig).isSome = true ∧
    s' = setPc s i t .test) ∨
  (t.pc = .look ∧ t.holds = true ∧ s.owner = some i ∧ s.reg.get c.sig = none ∧
    s' = setPc s i t .create) ∨
  (t.pc = .create ∧ t.holds = true ∧ s.owner = some i ∧ s.reg.get c.sig = none ∧
    s' = setPc { s with reg := s.reg.set c.sig [c.q] } i t (.release false)) ∨
  (t.pc = .test ∧ t.holds = true ∧ s.owner = some i ∧ s.reg.has c.sig c.q = true ∧
    s' = setPc s i t (.release false)) ∨
  (t.pc = .test ∧ t.holds = true ∧ s.owner = some i ∧ (s.reg.get c.sig).isSome = true ∧
    s.reg.has c.sig c.q = false ∧ s' = setPc s i t .append) ∨
  (t.pc = .append ∧ t.holds = true ∧ s.owner = some i ∧ (s.reg.get c.sig).isSome = true ∧
    s.reg.has c.sig c.q = false ∧
    s' = setPc { s with reg := s.reg.modify c.sig (· ++ [c.q]) } i t (.release false)) ∨
  (t.pc = .release false ∧ t.holds = true ∧ s.owner = some i ∧ s.reg.has c.sig c.q = true ∧
    s' = callOver { s with owner := none } i { t with holds := false } c)

theorem step_all_shape {s s' : State} {i : Nat} (h : Inv s) (hs : step ⟨.all⟩ s i = some s') :
    ∃ t c rest, s.threads[i]? = some t ∧ t.todo = c :: rest ∧ Shape s s' i t c := by
  unfold step at hs
  cases hi : s.threads[i]? with
  | none => simp [hi] at hs
  | some t =>
    simp only [hi] at hs
    obtain ⟨hpc, hown⟩ := h.thr i t hi
    obtain ⟨todo, pc, holds⟩ := t
    cases todo with
    | nil => simp [stepT] at hs
    | cons c rest =>
      refine ⟨_, c, rest, rfl, rfl, ?_⟩
      simp only at hown
      cases pc with
      | idle =>
        simp only [PcOK] at hpc
        simp [stepT] at hs
        exact Or.inl ⟨rfl, hpc, hs.symm⟩
      | acquire =>
        simp only [PcOK] at hpc
        simp only [stepT] at hs
        cases ho : s.owner with
        | some k => simp [ho] at hs
        | none =>
          simp [ho] at hs
          exact Or.inr (Or.inl ⟨rfl, hpc.1, ho, by rw [← hs]⟩)
      | look =>
        simp only [PcOK] at hpc
        simp only [stepT] at hs
        cases hg : s.reg.get c.sig with
        | some l =>
          simp [hg] at hs
          exact Or.inr (Or.inr (Or.inl ⟨rfl, hpc.1, hown hpc.1, by rw [hg]; rfl, hs.symm⟩))
        | none =>
          simp [hg] at hs
          exact Or.inr (Or.inr (Or.inr (Or.inl ⟨rfl, hpc.1, hown hpc.1, hg, hs.symm⟩)))
      | create =>
        simp only [PcOK, Thread.cur, List.headD_cons] at hpc
        obtain ⟨hh, _, hg⟩ := hpc
        subst hh
        simp [stepT, leave] at hs
        exact Or.inr (Or.inr (Or.inr (Or.inr (Or.inl ⟨rfl, rfl, hown rfl, hg, hs.symm⟩))))
      | test =>
        simp only [PcOK, Thread.cur, List.headD_cons] at hpc
        obtain ⟨hh, _, hg⟩ := hpc
        subst hh
        simp only [stepT] at hs
        cases hhas : s.reg.has c.sig c.q with
        | true =>
          simp [hhas, leave] at hs
          exact Or.inr (Or.inr (Or.inr (Or.inr (Or.inr (Or.inl
            ⟨rfl, rfl, hown rfl, hhas, hs.symm⟩)))))
        | false =>
          simp [hhas] at hs
          exact Or.inr (Or.inr (Or.inr (Or.inr (Or.inr (Or.inr (Or.inl
            ⟨rfl, rfl, hown rfl, hg, hhas, hs.symm⟩))))))
      | append =>
        simp only [PcOK, Thread.cur, List.headD_cons] at hpc
        obtain ⟨hh, _, hg, hn⟩ := hpc
        subst hh
        simp [stepT, leave] at hs
        exact Or.inr (Or.inr (Or.inr (Or.inr (Or.inr (Or.inr (Or.inr (Or.inl
          ⟨rfl, rfl, hown rfl, hg, hn, hs.symm⟩)))))))
      | release b =>
        simp only [PcOK, Thread.cur, List.headD_cons] at hpc
        obtain ⟨hh, _, hb, hhas⟩ := hpc
        subst hb hh
        simp [stepT] at hs
        exact Or.inr (Or.inr (Or.inr (Or.inr (Or.inr (Or.inr (Or.inr (Or.inr
          ⟨rfl, rfl, hown rfl, hhas, hs.symm⟩)))))))

theorem inv_step {s s' : State} {i : Nat} (h : Inv s) (hs : step ⟨.all⟩ s i = some s') : Inv s' := by
  obtain ⟨t, c, rest, hi, htodo, hsh⟩ := step_all_shape h hs
  obtain ⟨todo, pc, holds⟩ := t
  simp only at htodo; subst htodo
  rcases hsh with ⟨hp, hh, rfl⟩ | ⟨hp, hh, ho, rfl⟩ | ⟨hp, hh, ho, hg, rfl⟩ | ⟨hp, hh, ho, hg, rfl⟩ |
    ⟨hp, hh, ho, hg, rfl⟩ | ⟨hp, hh, ho, hg, rfl⟩ | ⟨hp, hh, ho, hg, hn, rfl⟩ |
    ⟨hp, hh, ho, hg, hn, rfl⟩ | ⟨hp, hh, ho, hg, rfl⟩ <;> simp only at hp hh <;> subst hp hh
  · exact h.rebuild hi rfl (by simp [PcOK]) (Or.inl ⟨rfl, rfl, rfl⟩)
  · exact h.rebuild hi rfl (by simp [PcOK]) (Or.inr ⟨Or.inr ho, rfl⟩)
  · exact h.rebuild hi rfl (by simp [PcOK, Thread.cur, setPc, hg]) (Or.inl ⟨rfl, rfl, rfl⟩)
  · exact h.rebuild hi rfl (by simp [PcOK, Thread.cur, setPc, hg]) (Or.inl ⟨rfl, rfl, rfl⟩)
  · exact h.rebuild hi rfl (by simp [PcOK, Thread.cur, setPc, has_set]) (Or.inr ⟨Or.inl rfl, by simp [setPc, ho]⟩)
  · exact h.rebuild hi rfl (by simp [PcOK, Thread.cur, setPc, hg]) (Or.inl ⟨rfl, rfl, rfl⟩)
  · exact h.rebuild hi rfl (by simp [PcOK, Thread.cur, setPc, hg, hn]) (Or.inl ⟨rfl, rfl, rfl⟩)
  · exact h.rebuild hi rfl (by simp [PcOK, Thread.cur, setPc, has_modify_append])
      (Or.inr ⟨Or.inl rfl, by simp [setPc, ho]⟩)
  · exact h.rebuild hi rfl (by simp [PcOK]) (Or.inr ⟨Or.inl rfl, by simp [callOver]⟩)

theorem inv_run (s : State) (h : Inv s) (sched : List Step) : Inv ((sys ⟨.all⟩).run s sched) :=
  (sys ⟨.all⟩).inv_run Inv (fun _ _ _ hI hs => inv_step hI hs) sched s h

theorem inv_reach (reg : Registry) (progs : List (List Call)) (sched : List Step) :
    Inv ((sys ⟨.all⟩).run (init reg progs) sched) := inv_run _ (inv_init reg progs) sched

/-! ### what a step does to the registry and to the log of returned calls -/

/-- a step of thread `i` (current call `c`) leaves the registry alone, or appends `c.q` — which is not
there — to the existing list of `c.sig`, or creates the missing entry of `c.sig` -/
theorem step_reg {s s' : State} {i : Nat} (h : Inv s) (hs : step ⟨.all⟩ s i = some s') :
    ∃ t c rest, s.threads[i]? = some t ∧ t.todo = c :: rest ∧
      (s'.reg = s.reg ∨
       ((s.reg.get c.sig).isSome = true ∧ s.reg.has c.sig c.q = false ∧
          s'.reg = s.reg.modify c.sig (· ++ [c.q])) ∨
       (s.reg.get c.sig = none ∧ s'.reg = s.reg.set c.sig [c.q])) := by
  obtain ⟨t, c, rest, hi, htodo, hsh⟩ := step_all_shape h hs
  refine ⟨t, c, rest, hi, htodo, ?_⟩
  rcases hsh with ⟨_, _, rfl⟩ | ⟨_, _, _, rfl⟩ | ⟨_, _, _, _, rfl⟩ | ⟨_, _, _, _, rfl⟩ |
    ⟨_, _, _, hg, rfl⟩ | ⟨_, _, _, _, rfl⟩ | ⟨_, _, _, _, _, rfl⟩ | ⟨_, _, _, hg, hn, rfl⟩ |
    ⟨_, _, _, _, rfl⟩
  · exact Or.inl rfl
  · exact Or.inl rfl
  · exact Or.inl rfl
  · exact Or.inl rfl
  · exact Or.inr (Or.inr ⟨hg, rfl⟩)
  · exact Or.inl rfl
  · exact Or.inl rfl
  · exact Or.inr (Or.inl ⟨hg, hn, rfl⟩)
  · exact Or.inl rfl

/-- a subscription, once in the registry, stays -/
theorem has_step_mono {s s' : State} {i : Nat} (h : Inv s) (hs : step ⟨.all⟩ s i = some s')
    {sig q : Nat} (hh : s.reg.has sig q = true) : s'.reg.has sig q = true := by
  obtain ⟨t, c, rest, _, _, hr | ⟨_, _, hr⟩ | ⟨hg, hr⟩⟩ := step_reg h hs
  · rw [hr]; exact hh
  · rw [hr, has_modify_append, hh]; rfl
  · rw [hr, has_set]
    by_cases hsig : sig = c.sig
    · subst hsig
      have := has_isSome hh
      rw [hg] at this; cases this
    · simp [hsig, hh]

theorem has_run_mono (sched : List Step) : ∀ {s : State}, Inv s → ∀ {sig q : Nat},
    s.reg.has sig q = true → ((sys ⟨.all⟩).run s sched).reg.has sig q = true := by
  induction sched with
  | nil => intro s _ sig q hh; exact hh
  | cons i ts ih =>
    intro s h sig q hh
    unfold System.run
    rw [show (sys ⟨.all⟩).step s i = step ⟨.all⟩ s i from rfl]
    cases hs : step ⟨.all⟩ s i with
    | none => exact ih h hh
    | some s' => exact ih (inv_step h hs) (has_step_mono h hs hh)

theorem wf_step {s s' : State} {i : Nat} (h : Inv s) (hs : step ⟨.all⟩ s i = some s')
    (hw : WF s.reg) : WF s'.reg := by
  obtain ⟨t, c, rest, _, _, hr | ⟨hg, hn, hr⟩ | ⟨hg, hr⟩⟩ := step_reg h hs
  · rw [hr]; exact hw
  · rw [hr]
    apply hw.modify
    cases hgl : s.reg.get c.sig with
    | none => simp
    | some l =>
      simp only [Option.getD_some]
      have hnl : c.q ∉ l := by
        have := has_false_iff.mp hn
        simpa [hgl] using this
      rw [List.nodup_append]
      exact ⟨hw.nodup_get hgl, by simp,
        by intro a ha b hb; simp at hb; subst hb; intro e; subst e; exact hnl ha⟩
  · rw [hr]
    exact hw.modify _ _ (by simp)

theorem wf_run (sched : List Step) : ∀ {s : State}, Inv s → WF s.reg →
    WF ((sys ⟨.all⟩).run s sched).reg := by
  induction sched with
  | nil => intro s _ hw; exact hw
  | cons i ts ih =>
    intro s h hw
    unfold System.run
    rw [show (sys ⟨.all⟩).step s i = step ⟨.all⟩ s i from rfl]
    cases hs : step ⟨.all⟩ s i with
    | none => exact ih h hw
    | some s' => exact ih (inv_step h hs) (wf_step h hs hw)

/-- a step of a thread whose current call's queue is already subscribed does not touch the registry -/
theorem step_reg_of_has {s s' : State} {i : Nat} {t : Thread} {c : Call} {rest : List Call}
    (h : Inv s) (hs : step ⟨.all⟩ s i = some s') (hi : s.threads[i]? = some t)
    (htodo : t.todo = c :: rest) (hh : s.reg.has c.sig c.q = true) : s'.reg = s.reg := by
  obtain ⟨t', c', rest', hi', htodo', hr | ⟨_, hn, _⟩ | ⟨hg, _⟩⟩ := step_reg h hs
  · exact hr
  · rw [hi] at hi'; cases hi'
    rw [htodo] at htodo'; cases htodo'
    rw [hh] at hn; cases hn
  · rw [hi] at hi'; cases hi'
    rw [htodo] at htodo'; cases htodo'
    have := has_isSome hh
    rw [hg] at this; cases this

/-- every call that has returned is in the registry -/
def DoneOK (s : State) : Prop := ∀ c ∈ s.done, s.reg.has c.sig c.q = true

/-- a step logs nothing, or logs the current call of the stepping thread, whose queue is subscribed -/
theorem step_done {s s' : State} {i : Nat} (h : Inv s) (hs : step ⟨.all⟩ s i = some s') :
    s'.done = s.done ∨
    ∃ t c rest, s.threads[i]? = some t ∧ t.todo = c :: rest ∧ t.pc = .release false ∧
      s'.done = s.done ++ [c] ∧ s'.reg = s.reg ∧ s.reg.has c.sig c.q = true ∧
      s'.threads = s.threads.set i ⟨rest, .idle, false⟩ ∧ s'.owner = none := by
  obtain ⟨t, c, rest, hi, htodo, hsh⟩ := step_all_shape h hs
  rcases hsh with ⟨_, _, rfl⟩ | ⟨_, _, _, rfl⟩ | ⟨_, _, _, _, rfl⟩ | ⟨_, _, _, _, rfl⟩ |
    ⟨_, _, _, hg, rfl⟩ | ⟨_, _, _, _, rfl⟩ | ⟨_, _, _, _, _, rfl⟩ | ⟨_, _, _, hg, hn, rfl⟩ |
    ⟨hp, _, _, hhas, rfl⟩
  · exact Or.inl rfl
  · exact Or.inl rfl
  · exact Or.inl rfl
  · exact Or.inl rfl
  · exact Or.inl rfl
  · exact Or.inl rfl
  · exact Or.inl rfl
  · exact Or.inl rfl
  · exact Or.inr ⟨t, c, rest, hi, htodo, hp, rfl, rfl, hhas, by simp [callOver, htodo], rfl⟩

theorem doneOK_step {s s' : State} {i : Nat} (h : Inv s) (hs : step ⟨.all⟩ s i = some s')
    (hd : DoneOK s) : DoneOK s' := by
  intro c hc
  rcases step_done h hs with hdn | ⟨t, c', rest, _, _, _, hdn, hr, hhas, _, _⟩
  · rw [hdn] at hc
    exact has_step_mono h hs (hd c hc)
  · rw [hdn, List.mem_append, List.mem_singleton] at hc
    rcases hc with hc | rfl
    · exact has_step_mono h hs (hd c hc)
    · rw [hr]; exact hhas

theorem doneOK_run (sched : List Step) : ∀ {s : State}, Inv s → DoneOK s →
    DoneOK ((sys ⟨.all⟩).run s sched) := by
  induction sched with
  | nil => intro s _ hd; exact hd
  | cons i ts ih =>
    intro s h hd
    unfold System.run
    rw [show (sys ⟨.all⟩).step s i = step ⟨.all⟩ s i from rfl]
    cases hs : step ⟨.all⟩ s i with
    | none => exact ih h hd
    | some s' => exact ih (inv_step h hs) (doneOK_step h hs hd)

/-! ### refinement: any interleaving = the calls run atomically in lock-acquisition order -/

theorem absReg_free {s : State} (h : s.owner = none) : absReg s = s.reg := by
  simp [absReg, h]

theorem absReg_owner {s : State} {i : Nat} {t : Thread} (ho : s.owner = some i)
    (hi : s.threads[i]? = some t) : absReg s = finishPc t.cur t.pc s.reg := by
  simp [absReg, ho, hi]

theorem absReg_setPc {s : State} {i : Nat} {t : Thread} (pc : Pc) (ho : s.owner = some i)
    (hi : s.threads[i]? = some t) : absReg (setPc s i t pc) = finishPc t.cur pc s.reg := by
  have := getElem?_set_self' (tn := { t with pc := pc }) hi
  simp [absReg, setPc, ho, this, Thread.cur]

/-- one step changes the completed registry only when it takes the lock: then by the whole call -/
theorem absReg_step {s s' : State} {i : Nat} (h : Inv s) (hs : step ⟨.all⟩ s i = some s') :
    absReg s' = match acquires s i with
      | some c => subscribeAtomic (absReg s) c
      | none => absReg s := by
  obtain ⟨t, c, rest, hi, htodo, hsh⟩ := step_all_shape h hs
  obtain ⟨todo, pc, holds⟩ := t
  simp only at htodo; subst htodo
  rcases hsh with ⟨hp, hh, rfl⟩ | ⟨hp, hh, ho, rfl⟩ | ⟨hp, hh, ho, hg, rfl⟩ | ⟨hp, hh, ho, hg, rfl⟩ |
    ⟨hp, hh, ho, hg, rfl⟩ | ⟨hp, hh, ho, hg, rfl⟩ | ⟨hp, hh, ho, hg, hn, rfl⟩ |
    ⟨hp, hh, ho, hg, hn, rfl⟩ | ⟨hp, hh, ho, hg, rfl⟩ <;> simp only at hp hh <;> subst hp hh
  · have hacq : acquires s i = none := by simp [acquires, hi]
    rw [hacq]
    cases ho : s.owner with
    | none => rw [absReg_free ho, absReg_free (by simpa [setPc] using ho)]; rfl
    | some j =>
      obtain ⟨tj, htj, hhj⟩ := h.held j ho
      have hji : i ≠ j := by
        intro e; subst e
        rw [hi] at htj; cases htj; cases hhj
      have htj' : (setPc s i ⟨c :: rest, .idle, false⟩ .acquire).threads[j]? = some tj := by
        simp only [setPc]; rw [getElem?_set_ne' hji]; exact htj
      rw [absReg_owner ho htj, absReg_owner (by simpa [setPc] using ho) htj']
      rfl
  · have hacq : acquires s i = some c := by simp [acquires, hi]
    rw [hacq, absReg_free ho]
    have hti := getElem?_set_self' (tn := ⟨c :: rest, .look, true⟩) hi
    simp [absReg, hti, finishPc, Thread.cur]
  · have hacq : acquires s i = none := by simp [acquires, hi]
    rw [hacq, absReg_owner ho hi, absReg_setPc _ ho hi]
    cases hgl : s.reg.get c.sig with
    | none => simp [hgl] at hg
    | some l => simp [finishPc, Thread.cur, subscribeAtomic, hgl]
  · have hacq : acquires s i = none := by simp [acquires, hi]
    rw [hacq, absReg_owner ho hi, absReg_setPc _ ho hi]
    simp [finishPc, Thread.cur, subscribeAtomic, hg]
  · have hacq : acquires s i = none := by simp [acquires, hi]
    rw [hacq, absReg_owner ho hi,
      absReg_setPc (s := { s with reg := s.reg.set c.sig [c.q] }) _ ho hi]
    simp [finishPc, Thread.cur]
  · have hacq : acquires s i = none := by simp [acquires, hi]
    rw [hacq, absReg_owner ho hi, absReg_setPc _ ho hi]
    simp [finishPc, Thread.cur, hg]
  · have hacq : acquires s i = none := by simp [acquires, hi]
    rw [hacq, absReg_owner ho hi, absReg_setPc _ ho hi]
    simp [finishPc, Thread.cur, hn]
  · have hacq : acquires s i = none := by simp [acquires, hi]
    rw [hacq, absReg_owner ho hi,
      absReg_setPc (s := { s with reg := s.reg.modify c.sig (· ++ [c.q]) }) _ ho hi]
    simp [finishPc, Thread.cur]
  · have hacq : acquires s i = none := by simp [acquires, hi]
    rw [hacq, absReg_owner ho hi, absReg_free (by simp [callOver])]
    simp [finishPc, callOver]

/-- **refinement.** the registry of the state reached by any schedule (with the call in progress, if
any, completed) is the result of running the calls atomically in the order in which they took the lock -/
theorem refines_run (sched : List Step) : ∀ (s : State), Inv s →
    absReg ((sys ⟨.all⟩).run s sched) = runAtomic (absReg s) (acqLog ⟨.all⟩ s sched) := by
  induction sched with
  | nil => intro s _; rfl
  | cons i ts ih =>
    intro s h
    unfold System.run acqLog
    rw [show (sys ⟨.all⟩).step s i = step ⟨.all⟩ s i from rfl]
    cases hs : step ⟨.all⟩ s i with
    | none => exact ih s h
    | some s' =>
      simp only []
      rw [ih s' (inv_step h hs)]
      have hab := absReg_step h hs
      cases hsc : acquires s i with
      | none => rw [hsc] at hab; simp only []; rw [hab]
      | some c => rw [hsc] at hab; simp only []; rw [runAtomic_cons, hab]

/-- a schedule between two lock-free states has the effect of the calls that took the lock during it,
run atomically in that order -/
theorem refines_free {s : State} (h : Inv s) (sched : List Step) (hfree : s.owner = none)
    (hdone : ((sys ⟨.all⟩).run s sched).owner = none) :
    ((sys ⟨.all⟩).run s sched).reg = runAtomic s.reg (acqLog ⟨.all⟩ s sched) := by
  have := refines_run sched s h
  rw [absReg_free hdone, absReg_free hfree] at this
  exact this

/-! ### the log is an interleaving of the programs -/

theorem callsOf_cons (i j : Nat) (c : Call) (log : List (Nat × Call)) :
    callsOf i ((j, c) :: log) = (if j = i then [c] else []) ++ callsOf i log := by
  unfold callsOf
  by_cases h : j = i
  · simp [h]
  · simp [h]

theorem remaining_step {s s' : State} {i j : Nat} (h : Inv s) (hs : step ⟨.all⟩ s j = some s') :
    remaining s.threads[i]? =
      (if j = i then (match acquires s j with | some c => [c] | none => []) else []) ++
        remaining s'.threads[i]? := by
  obtain ⟨t, c, rest, hj, htodo, hsh⟩ := step_all_shape h hs
  obtain ⟨todo, pc, holds⟩ := t
  simp only at htodo; subst htodo
  by_cases hji : j = i
  · subst hji
    simp only [if_true]
    rcases hsh with ⟨hp, hh, rfl⟩ | ⟨hp, hh, ho, rfl⟩ | ⟨hp, hh, ho, hg, rfl⟩ |
      ⟨hp, hh, ho, hg, rfl⟩ | ⟨hp, hh, ho, hg, rfl⟩ | ⟨hp, hh, ho, hg, rfl⟩ |
      ⟨hp, hh, ho, hg, hn, rfl⟩ | ⟨hp, hh, ho, hg, hn, rfl⟩ | ⟨hp, hh, ho, hg, rfl⟩ <;>
      simp only at hp hh <;> subst hp hh
    · have hacq : acquires s j = none := by simp [acquires, hj]
      have := getElem?_set_self' (tn := ⟨c :: rest, .acquire, false⟩) hj
      simp [hacq, setPc, this, hj, remaining]
    · have hacq : acquires s j = some c := by simp [acquires, hj]
      have := getElem?_set_self' (tn := ⟨c :: rest, .look, true⟩) hj
      simp [hacq, this, hj, remaining]
    · have hacq : acquires s j = none := by simp [acquires, hj]
      have := getElem?_set_self' (tn := ⟨c :: rest, .test, true⟩) hj
      simp [hacq, setPc, this, hj, remaining]
    · have hacq : acquires s j = none := by simp [acquires, hj]
      have := getElem?_set_self' (tn := ⟨c :: rest, .create, true⟩) hj
      simp [hacq, setPc, this, hj, remaining]
    · have hacq : acquires s j = none := by simp [acquires, hj]
      have := getElem?_set_self' (tn := ⟨c :: rest, .release false, true⟩) hj
      simp [hacq, setPc, this, hj, remaining]
    · have hacq : acquires s j = none := by simp [acquires, hj]
      have := getElem?_set_self' (tn := ⟨c :: rest, .release false, true⟩) hj
      simp [hacq, setPc, this, hj, remaining]
    · have hacq : acquires s j = none := by simp [acquires, hj]
      have := getElem?_set_self' (tn := ⟨c :: rest, .append, true⟩) hj
      simp [hacq, setPc, this, hj, remaining]
    · have hacq : acquires s j = none := by simp [acquires, hj]
      have := getElem?_set_self' (tn := ⟨c :: rest, .release false, true⟩) hj
      simp [hacq, setPc, this, hj, remaining]
    · have hacq : acquires s j = none := by simp [acquires, hj]
      have := getElem?_set_self' (tn := ⟨rest, .idle, false⟩) hj
      simp [hacq, callOver, this, hj, remaining]
  · have : s'.threads[i]? = s.threads[i]? := by
      rcases hsh with ⟨_, _, rfl⟩ | ⟨_, _, _, rfl⟩ | ⟨_, _, _, _, rfl⟩ | ⟨_, _, _, _, rfl⟩ |
        ⟨_, _, _, _, rfl⟩ | ⟨_, _, _, _, rfl⟩ | ⟨_, _, _, _, _, rfl⟩ | ⟨_, _, _, _, _, rfl⟩ |
        ⟨_, _, _, _, rfl⟩ <;> simp only [setPc, callOver] <;> exact getElem?_set_ne' hji
    rw [this]; simp [hji]

/-- per thread, the calls that took the lock during a schedule followed by the calls that have not
taken it yet are the calls that had not taken it before: the log is an interleaving of the programs -/
theorem log_interleaves (i : Nat) (sched : List Step) : ∀ (s : State), Inv s →
    callsOf i (acqLog ⟨.all⟩ s sched) ++ remaining ((sys ⟨.all⟩).run s sched).threads[i]? =
      remaining s.threads[i]? := by
  induction sched with
  | nil => intro s _; simp [acqLog, callsOf, System.run]
  | cons j ts ih =>
    intro s h
    unfold System.run acqLog
    rw [show (sys ⟨.all⟩).step s j = step ⟨.all⟩ s j from rfl]
    cases hs : step ⟨.all⟩ s j with
    | none => exact ih s h
    | some s' =>
      simp only []
      rw [remaining_step (i := i) h hs, ← ih s' (inv_step h hs)]
      cases hsc : acquires s j with
      | none => simp
      | some c => simp only []; rw [callsOf_cons]; simp

/-! ### termination measure, quiescence, counting -/

def pcRank : Pc → Nat
  | .idle => 0 | .acquire => 5 | .look => 4 | .test => 3 | .create => 3 | .append => 2
  | .release _ => 1

/-- number of steps a thread can still make (a call takes at most 6) -/
def rank (t : Thread) : Nat :=
  match t.pc with
  | .idle => 6 * t.todo.length
  | pc => 6 * (t.todo.length - 1) + pcRank pc

def measure (s : State) : Nat := (s.threads.map rank).sum

theorem sum_map_set_lt {α : Type} (f : α → Nat) : ∀ (l : List α) (i : Nat) (a b : α),
    l[i]? = some a → f b < f a → ((l.set i b).map f).sum < (l.map f).sum
  | [], i, a, b, h, _ => by simp at h
  | x :: l, 0, a, b, h, hlt => by
    simp only [List.getElem?_cons_zero, Option.some.injEq] at h
    subst h
    simp only [List.set_cons_zero, List.map_cons, List.sum_cons]
    omega
  | x :: l, i + 1, a, b, h, hlt => by
    simp only [List.getElem?_cons_succ] at h
    have := sum_map_set_lt f l i a b h hlt
    simp only [List.set_cons_succ, List.map_cons, List.sum_cons]
    omega

theorem sum_map_set_eq {α : Type} (f : α → Nat) : ∀ (l : List α) (i : Nat) (a b : α),
    l[i]? = some a → ((l.set i b).map f).sum + f a = (l.map f).sum + f b
  | [], i, a, b, h => by simp at h
  | x :: l, 0, a, b, h => by
    simp only [List.getElem?_cons_zero, Option.some.injEq] at h
    subst h
    simp only [List.set_cons_zero, List.map_cons, List.sum_cons]
    omega
  | x :: l, i + 1, a, b, h => by
    simp only [List.getElem?_cons_succ] at h
    have := sum_map_set_eq f l i a b h
    simp only [List.set_cons_succ, List.map_cons, List.sum_cons]
    omega

theorem step_measure {s s' : State} {i : Nat} (h : Inv s) (hs : step ⟨.all⟩ s i = some s') :
    measure s' < measure s := by
  obtain ⟨t, c, rest, hi, htodo, hsh⟩ := step_all_shape h hs
  obtain ⟨todo, pc, holds⟩ := t
  simp only at htodo; subst htodo
  unfold measure
  rcases hsh with ⟨hp, hh, rfl⟩ | ⟨hp, hh, ho, rfl⟩ | ⟨hp, hh, ho, hg, rfl⟩ |
    ⟨hp, hh, ho, hg, rfl⟩ | ⟨hp, hh, ho, hg, rfl⟩ | ⟨hp, hh, ho, hg, rfl⟩ |
    ⟨hp, hh, ho, hg, hn, rfl⟩ | ⟨hp, hh, ho, hg, hn, rfl⟩ | ⟨hp, hh, ho, hg, rfl⟩ <;>
    simp only at hp hh <;> subst hp hh <;> simp only [setPc, callOver] <;>
    refine sum_map_set_lt rank _ i _ _ hi ?_ <;> simp [rank, pcRank] <;> omega

theorem measure_init (reg : Registry) (progs : List (List Call)) :
    measure (init reg progs) = 6 * totalCalls progs := by
  unfold measure init totalCalls
  simp only [List.map_map]
  induction progs with
  | nil => rfl
  | cons p ps ih => simp only [List.map_cons, List.sum_cons, ih, Function.comp, rank]; omega

/-- a thread with a call to make that is not waiting for a taken lock can move -/
theorem stepT_isSome {g : Tags} {s : State} {i : Nat} {t : Thread} (hne : t.todo ≠ [])
    (hen : t.pc = .acquire → s.owner = none) : (stepT g s i t).isSome = true := by
  obtain ⟨todo, pc, holds⟩ := t
  cases todo with
  | nil => exact absurd rfl hne
  | cons c rest =>
    cases pc with
    | idle => simp [stepT]
    | acquire => simp [stepT, hen rfl]
    | look => simp only [stepT]; split <;> rfl
    | test => simp only [stepT]; split <;> rfl
    | append => simp [stepT]
    | create => simp [stepT]
    | release b => simp only [stepT]; split <;> rfl

/-- **no deadlock.** in a state of the locked variant in which no thread can move, the lock is free and
every thread is between calls with nothing left to do -/
theorem quiescent_idle {s : State} (h : Inv s) (hq : (sys ⟨.all⟩).Quiescent s) :
    s.owner = none ∧
    ∀ (j : Nat) (t : Thread), s.threads[j]? = some t →
      t.pc = .idle ∧ t.todo = [] ∧ t.holds = false := by
  have hstep : ∀ (j : Nat) (t : Thread), s.threads[j]? = some t → stepT ⟨.all⟩ s j t = none := by
    intro j t ht
    have := hq j
    simpa [sys, step, ht] using this
  have hown : s.owner = none := by
    cases ho : s.owner with
    | none => rfl
    | some j =>
      obtain ⟨t, ht, hh⟩ := h.held j ho
      have hpc := (h.thr j t ht).1
      have hne : t.todo ≠ [] ∧ t.pc ≠ .acquire := by
        obtain ⟨todo, pc, holds⟩ := t
        simp only at hh; subst hh
        cases pc <;> simp_all [PcOK]
      have := stepT_isSome (g := ⟨.all⟩) (s := s) (i := j) hne.1 (fun e => absurd e hne.2)
      rw [hstep j t ht] at this; cases this
  refine ⟨hown, ?_⟩
  intro j t ht
  have hpc := (h.thr j t ht).1
  have htodo : t.todo = [] := by
    apply Classical.byContradiction
    intro hne
    have := stepT_isSome (g := ⟨.all⟩) (s := s) (i := j) hne (fun _ => hown)
    rw [hstep j t ht] at this; cases this
  obtain ⟨todo, pc, holds⟩ := t
  simp only at htodo; subst htodo
  cases pc <;> simp_all [PcOK]

/-- a state in which every thread is between calls with nothing left to do is quiescent (any tag) -/
theorem quiescent_of_idle {g : Tags} {s : State}
    (h : ∀ t ∈ s.threads, t.todo = []) : (sys g).Quiescent s := by
  intro i
  show step g s i = none
  unfold step
  cases ht : s.threads[i]? with
  | none => rfl
  | some t =>
    have := h t (List.mem_of_getElem? ht)
    simp [stepT, this]

theorem pendingCalls_set {l : List Thread} {i : Nat} {t : Thread} (tn : Thread)
    (h : l[i]? = some t) :
    pendingCalls (l.set i tn) = pendingCalls l + tn.todo.length - t.todo.length ∧
      t.todo.length ≤ pendingCalls l := by
  have h1 := sum_map_set_eq (fun t : Thread => t.todo.length) l i t tn h
  have h2 := sum_map_set_eq (fun t : Thread => t.todo.length) l i t ⟨[], .idle, false⟩ h
  simp only [List.length_nil] at h2
  unfold pendingCalls
  omega

/-- every call is either logged as returned or still to be made (or in progress) -/
theorem count_step {s s' : State} {i : Nat} (h : Inv s) (hs : step ⟨.all⟩ s i = some s') :
    s'.done.length + pendingCalls s'.threads = s.done.length + pendingCalls s.threads := by
  obtain ⟨t, c, rest, hi, htodo, hsh⟩ := step_all_shape h hs
  obtain ⟨todo, pc, holds⟩ := t
  simp only at htodo; subst htodo
  have h2 := (pendingCalls_set ⟨c :: rest, pc, holds⟩ hi).2
  rcases hsh with ⟨hp, hh, rfl⟩ | ⟨hp, hh, ho, rfl⟩ | ⟨hp, hh, ho, hg, rfl⟩ |
    ⟨hp, hh, ho, hg, rfl⟩ | ⟨hp, hh, ho, hg, rfl⟩ | ⟨hp, hh, ho, hg, rfl⟩ |
    ⟨hp, hh, ho, hg, hn, rfl⟩ | ⟨hp, hh, ho, hg, hn, rfl⟩ | ⟨hp, hh, ho, hg, rfl⟩ <;>
    simp only at hp hh <;> subst hp hh <;> simp only [setPc, callOver] <;>
    rw [(pendingCalls_set _ hi).1] <;>
    simp only [List.length_append, List.length_cons, List.length_nil, List.tail_cons] at h2 ⊢ <;>
    omega

theorem count_run (sched : List Step) : ∀ (s : State), Inv s →
    ((sys ⟨.all⟩).run s sched).done.length + pendingCalls ((sys ⟨.all⟩).run s sched).threads =
      s.done.length + pendingCalls s.threads := by
  induction sched with
  | nil => intro s _; rfl
  | cons i ts ih =>
    intro s h
    unfold System.run
    rw [show (sys ⟨.all⟩).step s i = step ⟨.all⟩ s i from rfl]
    cases hs : step ⟨.all⟩ s i with
    | none => exact ih s h
    | some s' => simp only []; rw [ih s' (inv_step h hs), count_step h hs]

theorem pendingCalls_init (reg : Registry) (progs : List (List Call)) :
    pendingCalls (init reg progs).threads = totalCalls progs := by
  simp [pendingCalls, totalCalls, init, List.map_map, Function.comp_def]

/-- a step never adds or removes a thread (any tag) -/
theorem step_length {g : Tags} {s s' : State} {i : Nat} (hs : step g s i = some s') :
    s'.threads.length = s.threads.length := by
  unfold step at hs
  cases hi : s.threads[i]? with
  | none => simp [hi] at hs
  | some t =>
    simp only [hi] at hs
    obtain ⟨todo, pc, holds⟩ := t
    cases todo with
    | nil => simp [stepT] at hs
    | cons c rest =>
      cases pc <;> simp only [stepT] at hs <;> (try split at hs) <;> (try cases hs) <;>
        simp only [leave, setPc, callOver] <;> (try split) <;> simp

theorem run_length (g : Tags) (sched : List Step) : ∀ (s : State),
    ((sys g).run s sched).threads.length = s.threads.length := by
  induction sched with
  | nil => intro s; rfl
  | cons i ts ih =>
    intro s
    unfold System.run
    rw [show (sys g).step s i = step g s i from rfl]
    cases hs : step g s i with
    | none => exact ih s
    | some s' => simp only []; rw [ih s', step_length hs]

theorem pendingCalls_zero {ts : List Thread} (h : ∀ t ∈ ts, t.todo = []) : pendingCalls ts = 0 := by
  unfold pendingCalls
  induction ts with
  | nil => rfl
  | cons t ts ih =>
    simp only [List.map_cons, List.sum_cons]
    rw [ih (fun t' ht' => h t' (List.mem_cons_of_mem _ ht')), h t (List.mem_cons_self ..)]
    rfl

end Miros.Conc.SubFine
