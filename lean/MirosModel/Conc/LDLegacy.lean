import MirosModel.Conc.LockingDeque
import MirosModel.Conc.SysLemmas
/-!
# The earlier posting algorithm (`legacy`) livelocks: a concrete lasso

One poster, one fifo post, the consumer.  After the event has been dispatched the poster is
still in its repair loop `while qsize() != len(deque): put(token)`: it sees its own surplus token
(`qsize = 1 ≠ 0 = len`), puts another one, the consumer takes the token, finds the deque empty and
goes back to waiting — and the system is back in exactly the same state.
-/
namespace Miros.Conc.LD
open Miros.Queue

deriving instance DecidableEq for Poster
deriving instance DecidableEq for State

/-- equality of all fields of two states -/
def sameState (a b : State) : Bool := decide (a = b)

theorem sameState_eq {a b : State} (h : sameState a b = true) : a = b := by
  simpa [sameState] using h

def legacyCfg : Config :=
  { alg := .legacy, cap := 2, refl := false, selfPosts := fun _ => [], stopSig := 8 }

def legacyProgs : List (List (Kind × Ev)) := [[(.fifo, ⟨20, 1⟩)]]

/-- schedule leading from the initial state to the lasso state -/
def lassoPrefix : List Nat :=
  [0, 1, 1, 0, 0, 0, 0, 0, 1, 1, 1, 1, 1, 1, 0, 0, 0, 0, 0, 1, 1, 0, 0, 0, 1, 1]

/-- the loop: consumer `get` (wasted: the deque is empty), …, back to `wait`; poster `len`
(`qsize = 1 ≠ 0 = len`), `put`, `qsize` -/
def lassoLoop : List Nat := [0, 0, 0, 0, 0, 1, 1, 1]

def lassoState : State := (sys legacyCfg).run (init legacyCfg legacyProgs) lassoPrefix

theorem lasso_prefix_enabled :
    (sys legacyCfg).effective (init legacyCfg legacyProgs) lassoPrefix = lassoPrefix.length := by
  decide

theorem lasso_returns : sameState ((sys legacyCfg).run lassoState lassoLoop) lassoState = true := by
  decide

theorem lasso_enabled : (sys legacyCfg).effective lassoState lassoLoop = lassoLoop.length := by
  decide

theorem lasso_poster_unfinished :
    (lassoState.posters.map fun p => (p.posts, p.pc)) = [([(.fifo, ⟨20, 1⟩)], .s2)] ∧
    lassoState.dq = [] ∧ lassoState.dispatched = [⟨20, 1⟩] ∧ lassoState.cpc = .w := by
  decide

end Miros.Conc.LD
