import MirosModel.Conc.Sys
/-!
# `SingletonDecorator.__call__` with initialisers that can fail, several requests per thread

```
def __call__(self, *args, **kwargs):
    if self.instance is None:                 # check      (lock-free fast path)
      with self._lock:                        # acquire
        if self.instance is None:             # check2
          self.instance = self.klass(*args, **kwargs)   # alloc (`__new__`), initRun (`__init__`), store
    return self.instance                      # read
```

One step = one access to the shared `instance` / lock (plus the two halves of the constructor call:
`__new__` = `alloc`, `__init__` = `initRun`).  A thread makes a list of requests, one after the other;
each request carries a flag `ok`: does the constructor accept the arguments of THIS request, or does
the initialiser raise.  If it raises, the `with` releases the lock, `instance` stays `None` and the
exception leaves `__call__` (outcome `Out.raised`).

`Tags.publishEarly = false` is the current source (the object is stored only after the constructor has
returned).  `publishEarly = true` is a seeded change: `obj = __new__(); self.instance = obj;
try: obj.__init__() except: self.instance = None; raise` — the object is visible to the lock-free
fast path of the other threads before its initialiser has finished.

Ghost fields `inited` / `failed` log the objects whose initialiser completed / raised.
Re-entrant requests made by an initialiser (the lock is an `RLock`) are not modelled.
-/
namespace Miros.Conc.SingleInit

structure Tags where
  publishEarly : Bool          -- false = current source (store after the constructor returned)
deriving DecidableEq, Repr

inductive Pc
  | check | acquire | check2
  | alloc                 -- `__new__`: a new object number (nextObj), remembered in `mine`
  | storeEarly            -- publishEarly only: `self.instance = mine` before the initialiser
  | initRun               -- the initialiser runs: succeeds or raises according to the request's `ok` flag
  | store                 -- not publishEarly: `self.instance = mine` (after a successful initialiser)
  | rollback              -- publishEarly only, after a raising initialiser: `self.instance = None`
  | release (raised : Bool)   -- leaving the `with`
  | read | idle           -- idle = between requests (the next request starts at `check`)
deriving DecidableEq, Repr

structure Req where
  ok : Bool               -- does the constructor accept THIS request's arguments?
deriving DecidableEq, Repr

/-- outcome of one finished request -/
inductive Out
  | obj (o : Nat)         -- returned object `o`
  | raised                -- the constructor's exception left `__call__`
  | none                  -- returned `None` (only possible with publishEarly: rolled back between check and read)
deriving DecidableEq, Repr

structure Thread where
  todo : List Req         -- head = the current request; removed when the request finishes
  pc : Pc
  mine : Option Nat       -- the object this thread allocated for the current request
  outs : List Out         -- outcomes of the finished requests, oldest first
deriving DecidableEq, Repr

structure State where
  instance_ : Option Nat
  lock : Option Nat       -- owner thread index
  nextObj : Nat
  threads : List Thread
  inited : List Nat       -- ghost: objects whose initialiser has completed successfully
  failed : List Nat       -- ghost: objects whose initialiser raised
deriving DecidableEq, Repr

abbrev Step := Nat

/-- the `ok` flag of the current request (`true` if there is none: not reachable) -/
def curOk (t : Thread) : Bool :=
  match t.todo with
  | r :: _ => r.ok
  | [] => true

/-- the current request is over with outcome `o` -/
def finish (t : Thread) (o : Out) : Thread :=
  { todo := t.todo.tail, pc := .idle, mine := none, outs := t.outs ++ [o] }

/-- what `return self.instance` yields -/
def readOut : Option Nat → Out
  | some o => .obj o
  | none => .none

def step (g : Tags) (s : State) (i : Step) : Option State :=
  match s.threads[i]? with
  | none => none
  | some t =>
    let put (t' : Thread) (s' : State) : State := { s' with threads := s'.threads.set i t' }
    match t.pc with
    | .idle => if t.todo.isEmpty then none else some (put { t with pc := .check } s)
    | .check =>
      if s.instance_.isNone then some (put { t with pc := .acquire } s)
      else some (put { t with pc := .read } s)
    | .acquire =>
      if s.lock.isSome then none else some (put { t with pc := .check2 } { s with lock := some i })
    | .check2 =>
      if s.instance_.isNone then some (put { t with pc := .alloc } s)
      else some (put { t with pc := .release false } s)
    | .alloc =>
      some (put { t with pc := if g.publishEarly then .storeEarly else .initRun, mine := some s.nextObj }
        { s with nextObj := s.nextObj + 1 })
    | .storeEarly => some (put { t with pc := .initRun } { s with instance_ := t.mine })
    | .initRun =>
      if curOk t then
        some (put { t with pc := if g.publishEarly then .release false else .store }
          { s with inited := s.inited ++ t.mine.toList })
      else
        some (put { t with pc := if g.publishEarly then .rollback else .release true }
          { s with failed := s.failed ++ t.mine.toList })
    | .store => some (put { t with pc := .release false } { s with instance_ := t.mine })
    | .rollback => some (put { t with pc := .release true } { s with instance_ := none })
    | .release r =>
      some (put (if r then finish t .raised else { t with pc := .read }) { s with lock := none })
    | .read => some (put (finish t (readOut s.instance_)) s)

def sys (g : Tags) : System State Step where
  step := step g

def init (progs : List (List Req)) : State :=
  { instance_ := none, lock := none, nextObj := 0, inited := [], failed := [],
    threads := progs.map fun p => ⟨p, .idle, none, []⟩ }

/-- number of schedule entries that were skipped because the chosen thread could not move -/
def blockedCount (g : Tags) : State → List Step → Nat
  | _, [] => 0
  | s, t :: ts =>
    match step g s t with
    | some s' => blockedCount g s' ts
    | none => blockedCount g s ts + 1

end Miros.Conc.SingleInit
