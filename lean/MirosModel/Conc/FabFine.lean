import MirosModel.Conc.Sys
/-!
# Fine-grained fabric delivery: a (redundant) `subscribe` racing a delivery loop

Models `ActiveFabricSource._subscribe` and the loop of `thread_runner_fifo/lifo`
(`/repo/miros/activeobject.py`) for ONE signal and ONE kind:

```
item = queue.get()
for q in subscriptions[item.event.signal_name]:   # Python list iterator: index into the SAME list object
    q.append(item.event)                          # other threads may run between two appends
queue.task_done()
```

The registry is one Python list of queue ids.  The list iterator keeps an index; every `next()`
returns `lst[idx]` (and increments) if `idx < len(lst)` for the CURRENT length, else the loop ends.
`subscribe` mutates that same list object:
* `subscribeKeepsOthers = true` (current code): a queue already in the list is left alone, otherwise
  it is appended;
* `subscribeKeepsOthers = false` (bad variant): the list is rewritten in place,
  `registry[:] = [x for x in registry if x is not q]; registry.append(q)`.

All publications have the same priority, so the fabric queue is FIFO.
-/
namespace Miros.Conc.FabFine

structure Tags where
  subscribeKeepsOthers : Bool
  deriving DecidableEq, Repr

/-- program counter of the delivery thread: about to `get` / about to `q.append(uid)` with the list
iterator index at `next` / about to `task_done` -/
inductive DPc where
  | idle
  | app (uid q next : Nat)
  | done
  deriving DecidableEq, Repr

/-- uids received by queue `q`, oldest first (a queue absent from the list has received nothing) -/
def lookup : List (Nat × List Nat) → Nat → List Nat
  | [], _ => []
  | (k, v) :: r, q => if k = q then v else lookup r q

/-- set the uids received by queue `q` -/
def update : List (Nat × List Nat) → Nat → List Nat → List (Nat × List Nat)
  | [], q, v => [(q, v)]
  | (k, w) :: r, q, v => if k = q then (k, v) :: r else (k, w) :: update r q v

structure State where
  /-- registry list (queue ids in order) -/
  reg : List Nat
  /-- published uids not yet taken, oldest first -/
  fq : List Nat
  /-- queue id ↦ uids received, oldest first -/
  items : List (Nat × List Nat)
  d : DPc
  nextUid : Nat
  /-- GHOST: (uid, registry at the moment of publish), in publication order -/
  pubLog : List (Nat × List Nat)
  deriving DecidableEq, Repr

inductive Step where
  | subscribe (q : Nat)
  | publish
  | deliver
  deriving DecidableEq, Repr

def init : State := { reg := [], fq := [], items := [], d := .idle, nextUid := 0, pubLog := [] }

/-- the registry after `subscribe q` -/
def subscribeReg (t : Tags) (reg : List Nat) (q : Nat) : List Nat :=
  if t.subscribeKeepsOthers then (if q ∈ reg then reg else reg ++ [q])
  else (reg.filter (· ≠ q)) ++ [q]

/-- the next program counter of the delivery loop for uid `u`: `next()` of the list iterator with
index `n` over the CURRENT registry list -/
def nextPc (reg : List Nat) (u n : Nat) : DPc :=
  match reg[n]? with
  | none => .done
  | some q => .app u q (n + 1)

/-- one atomic step; `none` = the thread is blocked (only `deliver` with `d = idle` and `fq = []`) -/
def step (t : Tags) (s : State) : Step → Option State
  | .subscribe q => some { s with reg := subscribeReg t s.reg q }
  | .publish =>
    some { s with fq := s.fq ++ [s.nextUid], pubLog := s.pubLog ++ [(s.nextUid, s.reg)],
                  nextUid := s.nextUid + 1 }
  | .deliver =>
    match s.d with
    | .idle =>
      match s.fq with
      | [] => none
      | u :: r => some { s with fq := r, d := nextPc s.reg u 0 }
    | .app u q n =>
      some { s with items := update s.items q (lookup s.items q ++ [u]), d := nextPc s.reg u n }
    | .done => some { s with d := .idle }

def sys (t : Tags) : System State Step := ⟨step t⟩

/-- run a schedule; a blocked step is skipped (state unchanged) -/
def run (t : Tags) : State → List Step → State
  | s, [] => s
  | s, x :: xs =>
    match step t s x with
    | some s' => run t s' xs
    | none => run t s xs

/-- number of steps of the schedule that were blocked (skipped) -/
def blocked (t : Tags) : State → List Step → Nat
  | _, [] => 0
  | s, x :: xs =>
    match step t s x with
    | some s' => blocked t s' xs
    | none => blocked t s xs + 1

/-- how often queue `q` has received uid `u` -/
def cnt (s : State) (q u : Nat) : Nat := (lookup s.items q).count u

/-- the delivery thread is idle and nothing is waiting in the fabric queue -/
def Quiescent (s : State) : Prop := s.d = .idle ∧ s.fq = []

instance (s : State) : Decidable (Quiescent s) := by unfold Quiescent; infer_instance

end Miros.Conc.FabFine
