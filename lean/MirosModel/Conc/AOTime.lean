import MirosModel.Conc.AOCancel
import MirosModel.Conc.AOPost
/-!
# Timed sources: how often and when they post
-/
namespace Miros.Conc.AO
open Miros.Queue Miros.Conc.LD

/-! ### one placement per activation -/

/-- inside a post the source's program is the post of its one event; before the placement step the
placements are one behind the activations, afterwards (and outside a post) they are level -/
def PostInv (tm : Timer) : Prop :=
  (tm.pc = .p → tm.post.posts = [(tm.kind, evOf tm)] ∧
    ((prePc tm.kind tm.post.pc = true ∧ tm.placedAt.length + 1 = tm.activated) ∨
     (postPc tm.post.pc = true ∧ tm.placedAt.length = tm.activated))) ∧
  (tm.pc ≠ .p → tm.placedAt.length = tm.activated)

theorem evOf_congr {tm tm' : Timer} (h1 : tm'.name = tm.name) (h2 : tm'.id = tm.id) : evOf tm' = evOf tm := by
  simp [evOf, h1, h2]

theorem PostInv.lstep {c : LD.Config} (ha : c.alg = .tokenAfter) {s : State}
    {tm tm' : Timer} {ld' : LD.State} {lbl : String} (h : PostInv tm) (hs : LStep c s tm tm' ld' lbl) :
    PostInv tm' := by
  obtain ⟨h1, h2⟩ := h
  cases hs with
  | bSleep hpc => simp_all [PostInv]
  | bGo hpc => simp_all [PostInv]
  | bEnd hpc => simp_all [PostInv]
  | s hpc => simp_all [PostInv]
  | kEnd hpc => simp_all [PostInv]
  | kGo hpc hlk hf =>
    have := h2 (by rw [hpc]; simp)
    refine ⟨fun _ => ⟨by simp [evOf], Or.inl ⟨?_, ?_⟩⟩, by simp⟩
    · simp only [ha]; exact prePc_start tm.kind
    · simp only; omega
  | pMid hpc sh p' lbl hp hne =>
    obtain ⟨hposts, hd⟩ := h1 hpc
    have hsp := posterStep_single ha hposts hp
    refine ⟨fun _ => ?_, fun hn => absurd hpc hn⟩
    simp only [postUpd]
    rcases hd with ⟨hpre, hlen⟩ | ⟨hpost, hlen⟩
    · rcases hsp.1 hpre with ⟨hl, hp', hpc'⟩ | ⟨hl, hp', hpc'⟩
      · exact ⟨by simpa [evOf] using hp', Or.inl ⟨hpc', by simp [hl]; exact hlen⟩⟩
      · exact ⟨by simpa [evOf] using hp', Or.inr ⟨by rw [hpc']; rfl, by simp [hl]; exact hlen⟩⟩
    · obtain ⟨hl, hp'⟩ := hsp.2 hpost
      rcases hp' with hp' | ⟨hp', hpc'⟩
      · exact absurd hp' hne
      · exact ⟨by simpa [evOf] using hp', Or.inr ⟨hpc', by simp [hl]; exact hlen⟩⟩
  | pEndExhausted hpc sh p' lbl hp hne hx =>
    obtain ⟨hposts, hd⟩ := h1 hpc
    have hsp := posterStep_single ha hposts hp
    refine ⟨fun hn => by simp at hn, fun _ => ?_⟩
    rcases hd with ⟨hpre, hlen⟩ | ⟨hpost, hlen⟩
    · rcases hsp.1 hpre with ⟨hl, hp', hpc'⟩ | ⟨hl, hp', hpc'⟩ <;> rw [hne] at hp' <;> simp at hp'
    · simp [postUpd, (hsp.2 hpost).1, hlen]
  | pEndSleep hpc sh p' lbl hp hne hx =>
    obtain ⟨hposts, hd⟩ := h1 hpc
    have hsp := posterStep_single ha hposts hp
    refine ⟨fun hn => by simp at hn, fun _ => ?_⟩
    rcases hd with ⟨hpre, hlen⟩ | ⟨hpost, hlen⟩
    · rcases hsp.1 hpre with ⟨hl, hp', hpc'⟩ | ⟨hl, hp', hpc'⟩ <;> rw [hne] at hp' <;> simp at hp'
    · simp [postUpd, (hsp.2 hpost).1, hlen]
  | pEndGo hpc sh p' lbl hp hne hx =>
    obtain ⟨hposts, hd⟩ := h1 hpc
    have hsp := posterStep_single ha hposts hp
    refine ⟨fun hn => by simp at hn, fun _ => ?_⟩
    rcases hd with ⟨hpre, hlen⟩ | ⟨hpost, hlen⟩
    · rcases hsp.1 hpre with ⟨hl, hp', hpc'⟩ | ⟨hl, hp', hpc'⟩ <;> rw [hne] at hp' <;> simp at hp'
    · simp [postUpd, (hsp.2 hpost).1, hlen]
  | pEndCancelled hpc sh p' lbl hp hne hx =>
    obtain ⟨hposts, hd⟩ := h1 hpc
    have hsp := posterStep_single ha hposts hp
    refine ⟨fun hn => by simp at hn, fun _ => ?_⟩
    rcases hd with ⟨hpre, hlen⟩ | ⟨hpost, hlen⟩
    · rcases hsp.1 hpre with ⟨hl, hp', hpc'⟩ | ⟨hl, hp', hpc'⟩ <;> rw [hne] at hp' <;> simp at hp'
    · simp [postUpd, (hsp.2 hpost).1, hlen]

/-- the step that ends a post is never the placement step -/
theorem PostInv.end_not_placement {c : LD.Config} (ha : c.alg = .tokenAfter) {tm : Timer} (h : PostInv tm)
    (hpc : tm.pc = .p) {sh sh' : Shared} {p' : Poster} {lbl : String}
    (hp : posterStep c sh tm.post = some (sh', p', lbl)) (hne : p'.posts = []) :
    isPlacement lbl = false ∧ tm.placedAt.length = tm.activated := by
  obtain ⟨hposts, hd⟩ := h.1 hpc
  have hsp := posterStep_single ha hposts hp
  rcases hd with ⟨hpre, hlen⟩ | ⟨hpost, hlen⟩
  · rcases hsp.1 hpre with ⟨hl, hp', hpc'⟩ | ⟨hl, hp', hpc'⟩ <;> rw [hne] at hp' <;> simp at hp'
  · exact ⟨(hsp.2 hpost).1, hlen⟩

theorem PostInv.fresh (now i : Nat) (k : Kind) (sg p t : Nat) (d : Bool) : PostInv (freshTimer now i k sg p t d) := by
  simp [PostInv, freshTimer]

theorem PostInv.cancel {tm : Timer} (h : PostInv tm) : PostInv (cancelled tm) := h

/-! ### never more than `total` activations -/

def CountInv (tm : Timer) : Prop :=
  tm.total ≠ 0 → tm.activated ≤ tm.total ∧ (tm.pc ≠ .p → tm.flag = true → tm.activated < tm.total)

theorem CountInv.lstep {c : LD.Config} {s : State}
    {tm tm' : Timer} {ld' : LD.State} {lbl : String} (h : CountInv tm) (hs : LStep c s tm tm' ld' lbl) :
    CountInv tm' := by
  unfold CountInv at h ⊢
  cases hs <;> simp_all [postUpd] <;> omega

theorem CountInv.fresh (now i : Nat) (k : Kind) (sg p t : Nat) (d : Bool) : CountInv (freshTimer now i k sg p t d) := by
  simp [CountInv, freshTimer]; omega

theorem CountInv.cancel {tm : Timer} (h : CountInv tm) : CountInv (cancelled tm) := by
  unfold CountInv at h ⊢
  simp_all [cancelled]


/-! ### never early -/

/-- the earliest admissible instant of placement number `k` (from 0): `createdAt + (k + [deferred]) * period` -/
def lbv (cr per : Nat) (d0 : Bool) (k : Nat) : Nat := cr + (k + (if d0 then 1 else 0)) * per

theorem lbv_succ (cr per : Nat) (d0 : Bool) (k : Nat) : lbv cr per d0 (k + 1) = lbv cr per d0 k + per := by
  simp only [lbv]
  rw [show k + 1 + (if d0 = true then 1 else 0) = (k + (if d0 = true then 1 else 0)) + 1 by omega, Nat.succ_mul]
  omega

theorem lbv_zero_true (cr per : Nat) : lbv cr per true 0 = cr + per := by simp [lbv]
theorem lbv_zero_false (cr per : Nat) : lbv cr per false 0 = cr := by simp [lbv]

/-- every entry is at least its bound and at most `now` -/
def Bounded (pl : List Nat) (f : Nat → Nat) (now : Nat) : Prop := ∀ k t, pl[k]? = some t → f k ≤ t ∧ t ≤ now

/-- consecutive entries are at least `p` apart -/
def Spaced (pl : List Nat) (p : Nat) : Prop := ∀ k a b, pl[k]? = some a → pl[k + 1]? = some b → a + p ≤ b

theorem Bounded.nil (f : Nat → Nat) (now : Nat) : Bounded [] f now := by intro k t h; simp at h

theorem Bounded.mono {pl : List Nat} {f : Nat → Nat} {now now' : Nat} (h : Bounded pl f now) (hn : now ≤ now') :
    Bounded pl f now' := fun k t hk => ⟨(h k t hk).1, Nat.le_trans (h k t hk).2 hn⟩

theorem Bounded.mem_le {pl : List Nat} {f : Nat → Nat} {now : Nat} (h : Bounded pl f now) {t : Nat} (ht : t ∈ pl) :
    t ≤ now := by
  obtain ⟨k, hk⟩ := List.mem_iff_getElem?.mp ht
  exact (h k t hk).2

theorem getElem?_concat_cases {pl : List Nat} {x : Nat} {k t : Nat} (h : (pl ++ [x])[k]? = some t) :
    (k < pl.length ∧ pl[k]? = some t) ∨ (k = pl.length ∧ t = x) := by
  rcases Nat.lt_trichotomy k pl.length with hk | hk | hk
  · left; rw [List.getElem?_append_left hk] at h; exact ⟨hk, h⟩
  · right; subst hk; simp at h; exact ⟨rfl, h.symm⟩
  · rw [List.getElem?_eq_none (by simp; omega)] at h; simp at h

theorem Bounded.append {pl : List Nat} {f : Nat → Nat} {now : Nat} (h : Bounded pl f now) (hf : f pl.length ≤ now) :
    Bounded (pl ++ [now]) f now := by
  intro k t hk
  rcases getElem?_concat_cases hk with ⟨_, h1⟩ | ⟨rfl, rfl⟩
  · exact h k t h1
  · exact ⟨hf, Nat.le_refl _⟩

theorem Spaced.nil (p : Nat) : Spaced [] p := by intro k a b h; simp at h

theorem Spaced.append {pl : List Nat} {p x : Nat} (h : Spaced pl p) (hx : ∀ t ∈ pl, t + p ≤ x) : Spaced (pl ++ [x]) p := by
  intro k a b ha hb
  rcases getElem?_concat_cases hb with ⟨hk, h1⟩ | ⟨hk, rfl⟩
  · have hk' : k < pl.length := by omega
    rw [List.getElem?_append_left hk'] at ha
    exact h k a b ha h1
  · have hk' : k < pl.length := by omega
    rw [List.getElem?_append_left hk'] at ha
    exact hx a (List.mem_of_getElem? ha)

/-- the timing facts of a source at clock value `now` -/
def TimeInv (now : Nat) (tm : Timer) : Prop :=
  tm.createdAt ≤ now ∧
  Bounded tm.placedAt (lbv tm.createdAt tm.period tm.deferred0) now ∧
  Spaced tm.placedAt tm.period ∧
  (tm.pc = .b → tm.activated = 0 ∧ tm.deferred = tm.deferred0 ∧ tm.placedAt = []) ∧
  (tm.pc = .s → tm.deferred = true ∧ lbv tm.createdAt tm.period tm.deferred0 tm.activated ≤ tm.wake ∧
      ∀ t ∈ tm.placedAt, t + tm.period ≤ tm.wake) ∧
  (tm.pc = .k → tm.deferred = true ∧ lbv tm.createdAt tm.period tm.deferred0 tm.activated ≤ now ∧
      ∀ t ∈ tm.placedAt, t + tm.period ≤ now) ∧
  (tm.pc = .p → tm.deferred = true ∧ (∃ n, tm.activated = n + 1 ∧ lbv tm.createdAt tm.period tm.deferred0 n ≤ now) ∧
      (tm.placedAt.length + 1 = tm.activated → ∀ t ∈ tm.placedAt, t + tm.period ≤ now))

theorem TimeInv.mono {now now' : Nat} {tm : Timer} (h : TimeInv now tm) (hn : now ≤ now') : TimeInv now' tm := by
  obtain ⟨h1, h2, h3, h4, h5, h6, h7⟩ := h
  refine ⟨by omega, h2.mono hn, h3, h4, h5, ?_, ?_⟩
  · intro hk
    obtain ⟨a, b, c⟩ := h6 hk
    exact ⟨a, by omega, fun t ht => by have := c t ht; omega⟩
  · intro hp
    obtain ⟨a, ⟨n, b1, b2⟩, c⟩ := h7 hp
    exact ⟨a, ⟨n, b1, by omega⟩, fun hl t ht => by have := c hl t ht; omega⟩

theorem TimeInv.fresh (now i : Nat) (k : Kind) (sg p t : Nat) (d : Bool) : TimeInv now (freshTimer now i k sg p t d) := by
  simp [TimeInv, freshTimer, Bounded.nil, Spaced.nil]

theorem TimeInv.cancel {now : Nat} {tm : Timer} (h : TimeInv now tm) : TimeInv now (cancelled tm) := h

theorem TimeInv.lstep {c : LD.Config} (ha : c.alg = .tokenAfter) {s : State}
    {tm tm' : Timer} {ld' : LD.State} {lbl : String} (hpi : PostInv tm) (h : TimeInv s.now tm)
    (hs : LStep c s tm tm' ld' lbl) : TimeInv s.now tm' := by
  obtain ⟨h1, h2, h3, h4, h5, h6, h7⟩ := h
  cases hs with
  | bSleep hpc hf hd =>
    obtain ⟨a, b, c⟩ := h4 hpc
    have hd0 : tm.deferred0 = true := by rw [← b]; exact hd
    refine ⟨h1, h2, h3, by simp, ?_, by simp, by simp⟩
    intro _
    refine ⟨hd, ?_, ?_⟩
    · simp only [a, hd0, lbv_zero_true]; omega
    · simp [c]
  | bGo hpc hf hd =>
    obtain ⟨a, b, c⟩ := h4 hpc
    have hd0 : tm.deferred0 = false := by rw [← b]; exact hd
    refine ⟨h1, h2, h3, by simp, by simp, ?_, by simp⟩
    intro _
    refine ⟨rfl, ?_, ?_⟩
    · simp only [a, hd0, lbv_zero_false]; exact h1
    · simp [c]
  | bEnd hpc hf => exact ⟨h1, h2, h3, by simp, by simp, by simp, by simp⟩
  | s hpc hw =>
    obtain ⟨a, b, c⟩ := h5 hpc
    refine ⟨h1, h2, h3, by simp, by simp, ?_, by simp⟩
    intro _
    exact ⟨a, by simp only; omega, fun t ht => by have := c t ht; simp only; omega⟩
  | kGo hpc hlk hf =>
    obtain ⟨a, b, c⟩ := h6 hpc
    refine ⟨h1, h2, h3, by simp, by simp, by simp, ?_⟩
    intro _
    exact ⟨a, ⟨tm.activated, rfl, b⟩, fun _ => c⟩
  | kEnd hpc hlk hf => exact ⟨h1, h2, h3, by simp, by simp, by simp, by simp⟩
  | pMid hpc sh p' lbl hp hne =>
    obtain ⟨a, ⟨n, b1, b2⟩, c⟩ := h7 hpc
    obtain ⟨hposts, hd⟩ := hpi.1 hpc
    have hsp := posterStep_single ha hposts hp
    by_cases hl : isPlacement lbl = true
    · -- the placement step
      have hlen : tm.placedAt.length + 1 = tm.activated := by
        rcases hd with ⟨_, hlen⟩ | ⟨hpost, _⟩
        · exact hlen
        · rw [(hsp.2 hpost).1] at hl; simp at hl
      have hn : tm.placedAt.length = n := by omega
      simp only [postUpd, hl, if_true]
      refine ⟨h1, h2.append (by rw [hn]; exact b2), h3.append (c hlen), by simp [hpc], by simp [hpc], by simp [hpc], ?_⟩
      intro _
      refine ⟨a, ⟨n, b1, b2⟩, ?_⟩
      intro hx
      simp at hx
      omega
    · simp only [postUpd, hl]
      exact ⟨h1, h2, h3, by simp [hpc], by simp [hpc], by simp [hpc], fun _ => ⟨a, ⟨n, b1, b2⟩, c⟩⟩
  | pEndExhausted hpc sh p' lbl hp hne hx =>
    have := hpi.end_not_placement ha hpc hp hne
    simp only [postUpd, this.1]
    exact ⟨h1, h2, h3, by simp, by simp, by simp, by simp⟩
  | pEndCancelled hpc sh p' lbl hp hne hx hf =>
    have := hpi.end_not_placement ha hpc hp hne
    simp only [postUpd, this.1]
    exact ⟨h1, h2, h3, by simp, by simp, by simp, by simp⟩
  | pEndGo hpc sh p' lbl hp hne hx hf hd =>
    have := (h7 hpc).1
    rw [hd] at this; simp at this
  | pEndSleep hpc sh p' lbl hp hne hx hf hd =>
    have hnp := hpi.end_not_placement ha hpc hp hne
    obtain ⟨a, ⟨n, b1, b2⟩, c⟩ := h7 hpc
    simp only [postUpd, hnp.1]
    refine ⟨h1, h2, h3, by simp, ?_, by simp, by simp⟩
    intro _
    refine ⟨a, ?_, ?_⟩
    · simp only [b1, lbv_succ]; omega
    · intro t ht
      have := h2.mem_le ht
      simp only; omega


/-! ### the three together, in every reachable state -/

def TmInv (now : Nat) (tm : Timer) : Prop := PostInv tm ∧ CountInv tm ∧ TimeInv now tm

def TInv (s : State) : Prop := ∀ (i : Nat) (tm : Timer), s.timers[i]? = some tm → TmInv s.now tm

theorem TInv.step {g : Tags} {c : LD.Config} (hl : g.cancelLocked = true) (hb : g.checkBeforeStart = true)
    (ha : c.alg = .tokenAfter) {s s' : State} {tid : Nat} {lbl : String} (hT : TInv s)
    (h : stepL g c s tid = some (s', lbl)) : TInv s' :=
  timers_inv_step hl hb (fun now _ tm => TmInv now tm)
    (fun _ _ _ _ hn h => ⟨h.1, h.2.1, h.2.2.mono hn⟩)
    (fun now i k sg p t d => ⟨PostInv.fresh now i k sg p t d, CountInv.fresh now i k sg p t d, TimeInv.fresh now i k sg p t d⟩)
    (fun _ _ _ h _ => ⟨h.1.cancel, h.2.1.cancel, h.2.2.cancel⟩)
    (fun _ _ _ _ _ _ h hs => ⟨h.1.lstep ha hs, h.2.1.lstep hs, h.2.2.lstep ha h.1 hs⟩) h hT

theorem TInv.init (c : LD.Config) (progs : List (List (Kind × Ev))) (clients : List (List Call)) (maxTimers : Nat) :
    TInv (init c progs clients maxTimers) := by
  intro i tm h; simp [AO.init] at h

theorem TInv.run {g : Tags} {c : LD.Config} (hl : g.cancelLocked = true) (hb : g.checkBeforeStart = true)
    (ha : c.alg = .tokenAfter) (sched : List Nat) (s : State) (hT : TInv s) : TInv ((sys g c).run s sched) := by
  refine (sys g c).inv_run TInv ?_ sched s hT
  intro s t s' hT hs
  obtain ⟨lbl, hst⟩ := sys_step_iff.mp hs
  exact hT.step hl hb ha hst

/-- the clock never goes back -/
theorem now_mono_run {g : Tags} {c : LD.Config} (hl : g.cancelLocked = true) (hb : g.checkBeforeStart = true)
    (sched : List Nat) (s : State) : s.now ≤ ((sys g c).run s sched).now := by
  refine (sys g c).inv_run (fun s' => s.now ≤ s'.now) ?_ sched s (Nat.le_refl _)
  intro s1 t s2 h1 hs
  obtain ⟨lbl, hst⟩ := sys_step_iff.mp hs
  exact Nat.le_trans h1 (step_timer hl hb hst).1

/-! ### clients that only make timed posts: nothing is ever cancelled -/

def isTimed : Call → Bool
  | .timed .. => true
  | _ => false

/-- every client is between calls and has only timed posts left -/
def OnlyTimed (s : State) : Prop := ∀ (j : Nat) (cl : Client), s.clients[j]? = some cl → cl.pc = .call ∧ ∀ call ∈ cl.calls, isTimed call = true

theorem OnlyTimed.init (c : LD.Config) (progs : List (List (Kind × Ev))) (clients : List (List Call)) (maxTimers : Nat)
    (h : ∀ p ∈ clients, ∀ call ∈ p, isTimed call = true) : OnlyTimed (init c progs clients maxTimers) := by
  intro j cl hcl
  simp only [AO.init, List.getElem?_map] at hcl
  cases hp : clients[j]? with
  | none => rw [hp] at hcl; simp at hcl
  | some p =>
    rw [hp] at hcl
    simp only [Option.map_some, Option.some.injEq] at hcl
    subst hcl
    exact ⟨rfl, h p (List.mem_of_getElem? hp)⟩

theorem OnlyTimed.step {g : Tags} {c : LD.Config} (hl : g.cancelLocked = true) (hb : g.checkBeforeStart = true)
    {s s' : State} {tid : Nat} {lbl : String} (hO : OnlyTimed s) (h : stepL g c s tid = some (s', lbl)) :
    OnlyTimed s' := by
  intro j cl' hcl'
  rcases step_client_frame hl hb h j with hsame | ⟨_, _, cl, cl'', ld', timers', order', hcl, hcl'', hs, _⟩
  · rw [hsame] at hcl'; exact hO j cl' hcl'
  · rw [hcl'] at hcl''; cases hcl''
    obtain ⟨hpc, hcalls⟩ := hO j cl hcl
    cases hs with
    | timedOk kind sig period total deferred rest hpc' hc =>
      refine ⟨rfl, fun call hm => hcalls call ?_⟩
      simp only [finishCall, hc, List.tail_cons] at hm
      rw [hc]; exact List.mem_cons_of_mem _ hm
    | timedRejected kind sig period total deferred rest hpc' hc =>
      refine ⟨rfl, fun call hm => hcalls call ?_⟩
      simp only [finishCall, hc, List.tail_cons] at hm
      rw [hc]; exact List.mem_cons_of_mem _ hm
    | cancelEvent id same rest hpc' hc => have := hcalls (.cancelEvent id same) (by rw [hc]; simp); simp [isTimed] at this
    | cancelEvents id same rest hpc' hc => have := hcalls (.cancelEvents id same) (by rw [hc]; simp); simp [isTimed] at this
    | stop rest hpc' hc => have := hcalls .stop (by rw [hc]; simp); simp [isTimed] at this
    | lockNil call rest hpc' => rw [hpc] at hpc'; cases hpc'
    | lockCons call rest i pend tm hpc' => rw [hpc] at hpc'; cases hpc'
    | stopPost call rest sh p' lbl hpc' => rw [hpc] at hpc'; cases hpc'
    | stopJoin call rest hpc' => rw [hpc] at hpc'; cases hpc'

/-- the run flag is cleared only by the source itself, when its count is exhausted; a finished source has it clear -/
def FlagInv (tm : Timer) : Prop :=
  (tm.flag = false → tm.total ≠ 0 ∧ tm.activated ≥ tm.total) ∧ (tm.pc = .fin → tm.flag = false)

theorem FlagInv.lstep {c : LD.Config} {s : State}
    {tm tm' : Timer} {ld' : LD.State} {lbl : String} (h : FlagInv tm) (hs : LStep c s tm tm' ld' lbl) :
    FlagInv tm' := by
  unfold FlagInv at h ⊢
  cases hs <;> simp_all [postUpd]

/-- `OnlyTimed` and `FlagInv` of every timer -/
def NoCancel (s : State) : Prop := OnlyTimed s ∧ ∀ (i : Nat) (tm : Timer), s.timers[i]? = some tm → FlagInv tm

theorem NoCancel.step {g : Tags} {c : LD.Config} (hl : g.cancelLocked = true) (hb : g.checkBeforeStart = true)
    {s s' : State} {tid : Nat} {lbl : String} (hN : NoCancel s) (h : stepL g c s tid = some (s', lbl)) :
    NoCancel s' := by
  refine ⟨hN.1.step hl hb h, ?_⟩
  intro i tm' h'
  obtain ⟨_, _, _, hc⟩ := step_timer hl hb h
  rcases hc i tm' h' with ⟨h1, _⟩ | ⟨_, _, _, tm, ld', h1, hs⟩ | ⟨_, _, _, tm, _, _, _, j, cl, pend, _, hcl, hpc⟩ |
      ⟨_, _, _, _, _, k, sg, p, t, d, rfl⟩
  · exact hN.2 i tm' h1
  · exact (hN.2 i tm h1).lstep (hs.locked hl)
  · have := (hN.1 j cl hcl).1
    rw [hpc] at this; cases this
  · simp [FlagInv, freshTimer]

theorem NoCancel.run {g : Tags} {c : LD.Config} (hl : g.cancelLocked = true) (hb : g.checkBeforeStart = true)
    (sched : List Nat) (s : State) (hN : NoCancel s) : NoCancel ((sys g c).run s sched) := by
  refine (sys g c).inv_run NoCancel ?_ sched s hN
  intro s t s' hN hs
  obtain ⟨lbl, hst⟩ := sys_step_iff.mp hs
  exact hN.step hl hb hst

end Miros.Conc.AO
