import MirosModel.Conc.Sys
/-!
# Interleaving semantics: schedules compose; a terminating system can always be run to quiescence
-/
namespace Miros.Conc

variable {σ τ : Type}

theorem System.run_append (S : System σ τ) : ∀ (a b : List τ) (s : σ),
    S.run s (a ++ b) = S.run (S.run s a) b
  | [], b, s => rfl
  | t :: a, b, s => by
    simp only [List.cons_append, System.run]
    cases S.step s t with
    | none => exact System.run_append S a b s
    | some s' => exact System.run_append S a b s'

theorem System.effective_append (S : System σ τ) : ∀ (a b : List τ) (s : σ),
    S.effective s (a ++ b) = S.effective s a + S.effective (S.run s a) b
  | [], b, s => by simp [System.effective, System.run]
  | t :: a, b, s => by
    simp only [List.cons_append, System.run, System.effective]
    cases S.step s t with
    | none => exact System.effective_append S a b s
    | some s' => simp only []; rw [System.effective_append S a b s']; omega

/-- a schedule that returns to its starting state can be repeated for ever: the number of
effective steps is unbounded -/
theorem System.lasso_unbounded (S : System σ τ) (s : σ) (loop : List τ)
    (hback : S.run s loop = s) (n : Nat) :
    S.run s ((List.replicate n loop).flatten) = s ∧
    S.effective s ((List.replicate n loop).flatten) = n * S.effective s loop := by
  induction n with
  | zero => simp [System.run, System.effective]
  | succ n ih =>
    simp only [List.replicate_succ, List.flatten_cons]
    rw [System.run_append, System.effective_append, hback, ih.1, ih.2, Nat.succ_mul]
    exact ⟨rfl, by omega⟩

/-- if every enabled step from an invariant state decreases a measure, every invariant state can
be run to a quiescent state -/
theorem System.reaches_quiescence (S : System σ τ) (I : σ → Prop) (μ : σ → Nat)
    (hinv : ∀ s t s', I s → S.step s t = some s' → I s')
    (hdec : ∀ s t s', I s → S.step s t = some s' → μ s' < μ s) :
    ∀ (n : Nat) (s : σ), μ s ≤ n → I s → ∃ sched, S.Quiescent (S.run s sched) := by
  intro n
  induction n with
  | zero =>
    intro s hn hI
    refine ⟨[], fun t => ?_⟩
    cases h : S.step s t with
    | none => exact h
    | some s' => have := hdec s t s' hI h; omega
  | succ n ih =>
    intro s hn hI
    by_cases hq : S.Quiescent s
    · exact ⟨[], hq⟩
    · have : ∃ t, S.step s t ≠ none := by
        apply Classical.byContradiction
        intro h
        exact hq fun t => Classical.byContradiction fun ht => h ⟨t, ht⟩
      obtain ⟨t, ht⟩ := this
      cases h : S.step s t with
      | none => exact absurd h ht
      | some s' =>
        have h1 := hdec s t s' hI h
        obtain ⟨sched, hs⟩ := ih s' (by omega) (hinv s t s' hI h)
        refine ⟨t :: sched, ?_⟩
        simp only [System.run, h]
        exact hs

/-- a quiescent state does not move -/
theorem System.run_of_quiescent (S : System σ τ) (s : σ) (hq : S.Quiescent s) :
    ∀ sched, S.run s sched = s
  | [] => rfl
  | t :: ts => by
    simp only [System.run, hq t]
    exact System.run_of_quiescent S s hq ts

/-- a schedule containing an enabled thread makes at least one effective step -/
theorem System.effective_pos (S : System σ τ) : ∀ (l : List τ) (s : σ),
    (∃ t ∈ l, S.step s t ≠ none) → 1 ≤ S.effective s l
  | [], s, h => by obtain ⟨t, ht, _⟩ := h; simp at ht
  | t0 :: l, s, h => by
    simp only [System.effective]
    cases h0 : S.step s t0 with
    | some s' => simp
    | none =>
      obtain ⟨t, ht, hen⟩ := h
      rcases List.mem_cons.mp ht with rfl | ht'
      · exact absurd h0 hen
      · exact System.effective_pos S l s ⟨t, ht', hen⟩

theorem System.measure_run (S : System σ τ) (I : σ → Prop) (μ : σ → Nat)
    (hinv : ∀ s t s', I s → S.step s t = some s' → I s')
    (hdec : ∀ s t s', I s → S.step s t = some s' → μ s' < μ s) :
    ∀ (l : List τ) (s : σ), I s → μ (S.run s l) + S.effective s l ≤ μ s
  | [], s, _ => by simp [System.run, System.effective]
  | t :: l, s, hI => by
    simp only [System.run, System.effective]
    cases h : S.step s t with
    | none => exact System.measure_run S I μ hinv hdec l s hI
    | some s' =>
      have h1 := System.measure_run S I μ hinv hdec l s' (hinv s t s' hI h)
      have h2 := hdec s t s' hI h
      simp only []
      omega

/-- **fair schedules reach quiescence.**  If a schedule consists of more than `μ s` blocks each
of which gives every thread that can ever be enabled a turn, it ends in a quiescent state. -/
theorem System.fair_blocks_quiescent (S : System σ τ) (I : σ → Prop) (μ : σ → Nat) (en : τ → Prop)
    (hinv : ∀ s t s', I s → S.step s t = some s' → I s')
    (hdec : ∀ s t s', I s → S.step s t = some s' → μ s' < μ s)
    (hen : ∀ s t, I s → S.step s t ≠ none → en t) :
    ∀ (blocks : List (List τ)) (s : σ), I s → (∀ b ∈ blocks, ∀ t, en t → t ∈ b) →
      μ s < blocks.length → S.Quiescent (S.run s blocks.flatten)
  | [], s, _, _, h => by simp at h
  | b :: bs, s, hI, hb, h => by
    by_cases hq : S.Quiescent s
    · rw [System.run_of_quiescent S s hq]; exact hq
    · have : ∃ t, S.step s t ≠ none := by
        apply Classical.byContradiction
        intro h
        exact hq fun t => Classical.byContradiction fun ht => h ⟨t, ht⟩
      obtain ⟨t, ht⟩ := this
      have htb : t ∈ b := hb b (by simp) t (hen s t hI ht)
      have h1 := System.effective_pos S b s ⟨t, htb, ht⟩
      have h2 := System.measure_run S I μ hinv hdec b s hI
      simp only [List.flatten_cons, System.run_append]
      apply System.fair_blocks_quiescent S I μ en hinv hdec hen bs (S.run s b)
        (S.inv_run I hinv b s hI) (fun b' hb' => hb b' (by simp [hb']))
      simp at h; omega

end Miros.Conc
