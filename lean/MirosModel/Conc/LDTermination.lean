import MirosModel.Conc.LDStep
import MirosModel.Conc.SysLemmas
/-!
# `tokenAfter`: the invariant is inductive and every enabled step decreases the measure
-/
namespace Miros.Conc.LD
open Miros.Queue

/-! ### sums over the program list -/

theorem sum_set {α : Type} (f : α → Nat) : ∀ (l : List α) (i : Nat) (p p' : α), l[i]? = some p →
    ((l.set i p').map f).sum + f p = (l.map f).sum + f p'
  | [], i, p, p', h => by simp at h
  | a :: l, 0, p, p', h => by simp at h; subst h; simp; omega
  | a :: l, i + 1, p, p', h => by
    simp at h; have := sum_set f l i p p' h
    simp only [List.set_cons_succ, List.map_cons, List.sum_cons]; omega

theorem sum_set_mono {α : Type} (f g : α → Nat) (hfg : ∀ q, f q ≤ g q) :
    ∀ (l : List α) (i : Nat) (p p' : α), l[i]? = some p →
    ((l.set i p').map f).sum + g p ≤ (l.map g).sum + f p'
  | [], i, p, p', h => by simp at h
  | a :: l, 0, p, p', h => by
    simp at h; subst h
    have : ∀ l : List α, (l.map f).sum ≤ (l.map g).sum := by
      intro l; induction l with
      | nil => simp
      | cons b l ih => have := hfg b; simp; omega
    have := this l; simp; omega
  | a :: l, i + 1, p, p', h => by
    simp at h; have := sum_set_mono f g hfg l i p p' h; have := hfg a
    simp only [List.set_cons_succ, List.map_cons, List.sum_cons]; omega

theorem sum_map_mono {α : Type} (f g : α → Nat) (hfg : ∀ q, f q ≤ g q) (l : List α) :
    (l.map f).sum ≤ (l.map g).sum := by
  induction l with
  | nil => simp
  | cons b l ih => have := hfg b; simp; omega

theorem sum_map_le_mul {α : Type} (f : α → Nat) (B : Nat) (hf : ∀ q, f q ≤ B) (l : List α) :
    (l.map f).sum ≤ l.length * B := by
  induction l with
  | nil => simp
  | cons b l ih => have := hf b; simp [Nat.add_mul]; omega

/-! ### quantities of a single posting program -/

theorem lamP_le (L tok cap : Nat) (h : L ≤ cap) (p : Poster) : lamP L tok p ≤ 3 * cap + 5 := by
  unfold lamP
  split
  · omega
  · split <;> (try split) <;> omega

theorem lamP_mono_tok (L tok tok' : Nat) (h : tok ≤ tok') (p : Poster) :
    lamP L tok' p ≤ lamP L tok p := by
  unfold lamP
  split
  · omega
  · split <;> (try split) <;> (try split) <;> omega

theorem lamP_mono_len (L L' tok : Nat) (h : L' ≤ L) (p : Poster) :
    lamP L' tok p ≤ lamP L tok p := by
  unfold lamP
  split
  · omega
  · split <;> (try split) <;> (try split) <;> omega

theorem ncom_mono (cpc : CPc) (L L' : Nat) (h : L ≤ L') : ncom cpc L' ≤ ncom cpc L := by
  unfold ncom committed
  cases cpc <;> simp <;> (try split) <;> (try split) <;> omega

section nextPost
variable {c : Config} {p : Poster} {x : Kind × Ev} {rest : List (Kind × Ev)}

theorem nextPost_posts (alg : Alg) (h : p.posts = x :: rest) : (nextPost alg p).posts = rest := by
  unfold nextPost; rw [h]; simp only
  split
  · simp [*]
  · simp [*]

theorem nextPost_pc (h : p.posts = x :: rest) :
    (nextPost .tokenAfter p).pc = .a0 ∨ (nextPost .tokenAfter p).pc = .l1 := by
  unfold nextPost; rw [h]; simp only
  split
  · simp
  · rename_i k _ _; cases k <;> simp [startPc]

theorem uP_nextPost (wt : Nat → Nat) (h : p.posts = x :: rest) :
    uP wt (nextPost .tokenAfter p) = wsum wt rest := by
  have h1 := nextPost_posts .tokenAfter h
  have h2 := nextPost_pc h
  unfold uP; rw [h1]
  cases rest with
  | nil => simp [wsum]
  | cons y r => rcases h2 with h2 | h2 <;> simp [h2, placed, wsum]

theorem rP_nextPost (h : p.posts = x :: rest) :
    rP (nextPost .tokenAfter p) ≤ 5 * rest.length + 4 := by
  have h1 := nextPost_posts .tokenAfter h
  have h2 := nextPost_pc h
  unfold rP; rw [h1]
  cases rest with
  | nil => simp
  | cons y r => rcases h2 with h2 | h2 <;> simp [h2, slP] <;> omega

theorem lamP_nextPost (L tok : Nat) (h : p.posts = x :: rest) :
    lamP L tok (nextPost .tokenAfter p) = 0 := by
  have h2 := nextPost_pc h
  unfold lamP; split
  · rfl
  · rcases h2 with h2 | h2 <;> simp [h2]

theorem atS0_nextPost (h : p.posts = x :: rest) : atS0 (nextPost .tokenAfter p) = 0 := by
  have h2 := nextPost_pc h
  unfold atS0; rcases h2 with h2 | h2 <;> simp [h2]

theorem goodP_nextPost (h : p.posts = x :: rest) (hg : goodP c p) :
    goodP c (nextPost .tokenAfter p) := by
  have h1 := nextPost_posts .tokenAfter h
  have h2 := nextPost_pc h
  refine ⟨fun _ => ?_, ?_⟩
  · rcases h2 with h2 | h2 <;> simp [h2, taPc]
  · intro y hy; rw [h1] at hy; exact hg.2 y (by rw [h]; simp [hy])

end nextPost

/-! ### the effect of one poster primitive -/

/-- everything the invariant and the measure need to know about one poster primitive -/
structure PEffect (c : Config) (wt : Nat → Nat) (cpc : CPc) (sh : Shared) (p : Poster)
    (sh' : Shared) (p' : Poster) : Prop where
  len_ge : sh.dq.length ≤ sh'.dq.length
  len_cap : sh'.dq.length ≤ c.cap
  tok_ge : sh.tok ≤ sh'.tok
  tok_le : sh'.tok ≤ sh.tok + 1
  good : goodP c p'
  noStop : ∀ e ∈ sh'.dq, e.sig ≠ c.stopSig
  wake : sh'.dq.length ≤ sh'.tok ∨
    sh'.dq.length + sh.tok + atS0 p ≤ sh.dq.length + sh'.tok + atS0 p'
  meas : (uP wt p' + rP p' + dqW wt sh'.dq + ncom cpc sh'.dq.length <
            uP wt p + rP p + dqW wt sh.dq + ncom cpc sh.dq.length) ∨
         (sh'.dq = sh.dq ∧ uP wt p' = uP wt p ∧ rP p' = rP p ∧ p'.posts ≠ [] ∧
            lamP sh'.dq.length sh'.tok p' + 1 ≤ lamP sh.dq.length sh.tok p)

theorem PStep.effect {c : Config} (halg : c.alg = .tokenAfter) (wt : Nat → Nat)
    (cpc : CPc) {sh sh' : Shared} {p p' : Poster} (hlen : sh.dq.length ≤ c.cap)
    (hns : ∀ e ∈ sh.dq, e.sig ≠ c.stopSig) (hg : goodP c p) (h : PStep c sh p sh' p') :
    PEffect c wt cpc sh p sh' p' := by
  cases h with
  | adv x rest pc' hp hpc hc =>
    refine ⟨Nat.le_refl _, hlen, Nat.le_refl _, by omega, ?_, hns, .inr ?_, .inl ?_⟩
    · refine ⟨fun _ => ?_, hg.2⟩
      rcases hc with ⟨rfl, _⟩ | ⟨rfl, _⟩ <;> rfl
    · rcases hc with ⟨rfl, _⟩ | ⟨rfl, _⟩ <;> simp [atS0, hpc]
    · rcases hc with ⟨rfl, _⟩ | ⟨rfl, _⟩ <;> simp [uP, rP, hp, hpc, placed, slP]
  | rot x rest hp hpc =>
    have hl := dqRotate_length sh.dq
    refine ⟨by simp [hl], by simp [hl]; exact hlen, Nat.le_refl _, by simp, ?_, ?_, .inr ?_, .inl ?_⟩
    · exact ⟨fun _ => rfl, hg.2⟩
    · intro e he; exact hns e (mem_dqRotate he)
    · simp [atS0, hpc, hl]
    · simp [uP, rP, hp, hpc, placed, slP, hl, dqW_dqRotate]
  | place x rest r hp hc =>
    have hx : x.2.sig ≠ c.stopSig := hg.2 x (by rw [hp]; simp)
    have hl : r.1.length = if sh.dq.length < c.cap then sh.dq.length + 1 else sh.dq.length := by
      rcases hc with ⟨_, rfl⟩ | ⟨_, rfl⟩
      · exact dqAppend_length _ _ _
      · exact dqAppendLeft_length _ _ _ hlen
    have hw : dqW wt r.1 ≤ dqW wt sh.dq + wt x.2.sig := by
      rcases hc with ⟨_, rfl⟩ | ⟨_, rfl⟩
      · exact dqW_dqAppend _ _ _ _
      · exact dqW_dqAppendLeft _ _ _ _
    have hm : ∀ e ∈ r.1, e ∈ sh.dq ∨ e = x.2 := by
      intro e he
      rcases hc with ⟨_, rfl⟩ | ⟨_, rfl⟩
      · exact mem_dqAppend he
      · exact mem_dqAppendLeft he
    have hnp : placed p.pc = false := by
      rcases hc with ⟨h | h, _⟩ | ⟨h, _⟩ <;> simp [h, placed]
    have hsl : slP p.pc = 2 := by
      rcases hc with ⟨h | h, _⟩ | ⟨h, _⟩ <;> simp [h, slP]
    have hs0 : atS0 p = 0 := by
      rcases hc with ⟨h | h, _⟩ | ⟨h, _⟩ <;> simp [h, atS0]
    have hnc := ncom_mono cpc sh.dq.length r.1.length (by rw [hl]; split <;> omega)
    refine ⟨?_, ?_, Nat.le_refl _, by simp, ?_, ?_, .inr ?_, .inl ?_⟩
    · simp only [hl]; split <;> omega
    · simp only [hl]; split <;> omega
    · exact ⟨fun _ => rfl, hg.2⟩
    · intro e he
      rcases hm e he with h | h
      · exact hns e h
      · rw [h]; exact hx
    · simp only [hl, hs0]; simp [atS0, hp]; split <;> omega
    · simp [uP, rP, hp, hnp, hsl, show placed PPc.s0 = true from rfl,
        show slP PPc.s0 = 1 from rfl] at hnc ⊢; omega
  | put x rest hp hpc hlt =>
    refine ⟨Nat.le_refl _, hlen, by simp, by simp, ⟨fun _ => rfl, hg.2⟩, hns, .inr ?_, ?_⟩
    · rcases hpc with h | h <;> simp [atS0, h, hp] <;> omega
    · rcases hpc with h | h
      · left; simp [uP, rP, hp, h, placed, slP]
      · right
        refine ⟨rfl, by simp [uP, hp, h, placed], by simp [rP, hp, h, slP], by simp [hp], ?_⟩
        simp [lamP, hp, h]; split <;> omega
  | exit x rest hp hc =>
    rw [halg]
    have hpl : placed p.pc = true := by
      rcases hc with ⟨h, _⟩ | ⟨h, _⟩ | ⟨h, _⟩ <;> simp [h, placed]
    refine ⟨Nat.le_refl _, hlen, Nat.le_refl _, by omega, goodP_nextPost hp hg, hns, ?_, .inl ?_⟩
    · rcases hc with ⟨h, hf⟩ | ⟨h, _⟩ | ⟨h, _⟩
      · left; omega
      · right; simp [atS0, h]
      · right; simp [atS0, h]
    · have h1 := uP_nextPost wt hp
      have h2 := rP_nextPost hp
      simp [uP, rP, hp, hpl] at h1 h2 ⊢; omega
  | read x rest hp hpc =>
    refine ⟨Nat.le_refl _, hlen, Nat.le_refl _, by omega, ⟨fun _ => rfl, hg.2⟩, hns, .inr ?_, .inr ?_⟩
    · simp [atS0, hpc]
    · refine ⟨rfl, by simp [uP, hp, hpc, placed], by simp [rP, hp, hpc, slP], by simp [hp], ?_⟩
      simp [lamP, hp, hpc]; split <;> split <;> omega
  | again x rest hp hpc hq =>
    refine ⟨Nat.le_refl _, hlen, Nat.le_refl _, by omega, ⟨fun _ => rfl, hg.2⟩, hns, .inr ?_, .inr ?_⟩
    · simp [atS0, hpc]
    · refine ⟨rfl, by simp [uP, hp, hpc, placed], by simp [rP, hp, hpc, slP], by simp [hp], ?_⟩
      simp [lamP, hp, hpc, hq]

/-! ### assembling the measure -/

theorem mu_lt_of (c : Config) (wt : Nat → Nat) (s s' : State) (hW : muW c s' = muW c s)
    (h : (muU wt s' + muR s' < muU wt s + muR s ∧ muLam s' ≤ lamMax c s ∧ muT s' ≤ muT s + 12) ∨
         (muU wt s' + muR s' ≤ muU wt s + muR s ∧ 13 * muLam s' + muT s' < 13 * muLam s + muT s)) :
    mu c wt s' < mu c wt s := by
  unfold mu; rw [hW]
  have hWd : muW c s = 13 * lamMax c s + 13 := rfl
  rcases h with ⟨h1, h2, h3⟩ | ⟨h1, h2⟩
  · have := Nat.mul_le_mul_left (muW c s) (show muU wt s' + muR s' + 1 ≤ muU wt s + muR s from h1)
    rw [Nat.mul_succ] at this
    omega
  · have := Nat.mul_le_mul_left (muW c s) h1
    omega

theorem allP_length (s : State) : (allP s).length = s.posters.length + 1 := by simp [allP]

theorem muLam_le (c : Config) (s : State) (h : s.dq.length ≤ c.cap) : muLam s ≤ lamMax c s := by
  unfold muLam sumP lamMax
  rw [← allP_length]
  exact sum_map_le_mul _ _ (lamP_le _ _ _ h) _

theorem lamP_zero (tok tok' : Nat) (p : Poster) : lamP 0 tok p = lamP 0 tok' p := by
  unfold lamP; simp

/-! ### a poster primitive executed in slot `j` of the program list -/

theorem slot_step {c : Config} (wt : Nat → Nat) (halg : c.alg = .tokenAfter)
    {s s' : State} {p p' : Poster} {sh' : Shared} {j : Nat}
    (hI : Inv c s) (hj : (allP s)[j]? = some p) (hall : allP s' = (allP s).set j p')
    (hdq : s'.dq = sh'.dq) (htok : s'.tok = sh'.tok)
    (hfab : s'.fabFlag = s.fabFlag) (hrun : s'.runFlag = s.runFlag)
    (hstep : PStep c (shared s) p sh' p')
    (hcpc : (s'.cpc = s.cpc ∧ (j = 0 → p'.posts ≠ [])) ∨
            (j = 0 ∧ p'.posts = [] ∧ s'.cpc = afterDispatch c))
    (hj0 : j = 0 → s.cpc = .h) :
    Inv c s' ∧ mu c wt s' < mu c wt s := by
  have hp : goodP c p := hI.progs p (List.mem_of_getElem? hj)
  have E := hstep.effect halg wt s.cpc hI.lenCap hI.dqNoStop hp
  have hlen' : s'.posters.length = s.posters.length := by
    have := congrArg List.length hall
    simpa [allP] using this
  have hsum : ∀ f : Poster → Nat, sumP f s' + f p = sumP f s + f p' := by
    intro f; unfold sumP; rw [hall]; exact sum_set f _ _ _ _ hj
  have hholds : holds s'.cpc = holds s.cpc := by
    rcases hcpc with ⟨h, _⟩ | ⟨h0, _, h⟩
    · rw [h]
    · rw [h, hj0 h0]; unfold afterDispatch; split <;> rfl
  have hncom : ∀ L, ncom s'.cpc L = ncom s.cpc L := by
    intro L
    rcases hcpc with ⟨h, _⟩ | ⟨h0, _, h⟩
    · rw [h]
    · rw [h, hj0 h0]; unfold afterDispatch; split <;> rfl
  have hrank : rankC s'.cpc ≤ rankC s.cpc := by
    rcases hcpc with ⟨h, _⟩ | ⟨h0, _, h⟩
    · rw [h]; exact Nat.le_refl _
    · rw [h, hj0 h0]; unfold afterDispatch; split <;> decide
  have hsl : (shared s).dq = s.dq := rfl
  have hst : (shared s).tok = s.tok := rfl
  obtain ⟨Elen_ge, Elen_cap, Etok_ge, Etok_le, Egood, EnoStop, Ewake, Emeas⟩ := E
  simp only [hsl, hst] at Elen_ge Etok_ge Etok_le Ewake Emeas
  have hInv : Inv c s' := by
    refine ⟨by rw [hdq]; exact Elen_cap, by rw [hfab]; exact hI.fab, by rw [hrun]; exact hI.run,
      ?_, by rw [hdq]; exact EnoStop, ?_, ?_, ?_, ?_, ?_⟩
    · rcases hcpc with ⟨h, _⟩ | ⟨_, _, h⟩
      · rw [h]; exact hI.notFin
      · rw [h]; unfold afterDispatch; split <;> simp
    · intro q hq; rw [hall] at hq
      rcases List.mem_or_eq_of_mem_set hq with h | h
      · exact hI.progs q h
      · rw [h]; exact Egood
    · intro hc
      rcases hcpc with ⟨h, _⟩ | ⟨h0, _, h⟩
      · rw [h] at hc
        have := hI.popNe hc
        have h1 : s.dq.length ≠ 0 := by simpa using this
        have h2 := Elen_ge
        intro h3; rw [hdq] at h3
        have h4 : sh'.dq.length = 0 := by rw [h3]; rfl
        omega
      · rw [h] at hc; unfold afterDispatch at hc; split at hc <;> simp at hc
    · intro hc
      cases j with
      | zero =>
        simp [allP] at hall
        rcases hcpc with ⟨h, h2⟩ | ⟨_, h2, _⟩
        · rw [h] at hc; exact absurd (hj0 rfl) hc
        · rw [hall.1]; exact h2
      | succ i =>
        simp [allP] at hall
        rcases hcpc with ⟨h, _⟩ | ⟨h, _⟩
        · rw [hall.1]; rw [h] at hc; exact hI.inlIdle hc
        · simp at h
    · intro hc
      cases j with
      | zero =>
        simp [allP] at hall
        rcases hcpc with ⟨_, h2⟩ | ⟨_, _, h⟩
        · rw [hall.1]; exact h2 rfl
        · rw [h] at hc; unfold afterDispatch at hc; split at hc <;> simp at hc
      | succ i =>
        simp [allP] at hall
        rcases hcpc with ⟨h, _⟩ | ⟨h, _⟩
        · rw [hall.1]; rw [h] at hc; exact hI.inlBusy hc
        · simp at h
    · have h1 := hsum atS0
      have h2 := hI.wake
      rw [hdq, htok, hholds]
      rcases Ewake with h | h <;> omega
  refine ⟨hInv, mu_lt_of c wt s s' ?_ ?_⟩
  · unfold muW lamMax; rw [hlen']
  · have hu := hsum (uP wt)
    have hr := hsum rP
    rcases Emeas with hm | ⟨hm1, hm2, hm3, hm4, hm5⟩
    · left
      refine ⟨?_, ?_, ?_⟩
      · unfold muU muR; rw [hdq, hncom]; omega
      · have := muLam_le c s' hInv.lenCap
        unfold lamMax at this ⊢; rw [hlen'] at this; exact this
      · unfold muT; rw [htok]; have := Etok_le; omega
    · right
      have hc : s'.cpc = s.cpc := by
        rcases hcpc with ⟨h, _⟩ | ⟨_, h, _⟩
        · exact h
        · exact absurd h hm4
      refine ⟨?_, ?_⟩
      · unfold muU muR; rw [hdq, hncom, hm1]; omega
      · have hmono := sum_set_mono (lamP s.dq.length sh'.tok) (lamP s.dq.length s.tok)
          (lamP_mono_tok _ _ _ Etok_ge) (allP s) j p p' hj
        rw [← hall] at hmono
        unfold muLam muT sumP
        rw [hdq, htok, hm1, hc]
        rw [hm1] at hm5
        have := Etok_le
        omega

/-! ### consumer steps that only move the consumer's pc (and possibly take a token) -/

theorem simple_step {c : Config} (wt : Nat → Nat) {s s' : State} (hI : Inv c s)
    (hall : allP s' = allP s) (hdq : s'.dq = s.dq)
    (hfab : s'.fabFlag = s.fabFlag) (hrun : s'.runFlag = s.runFlag)
    (hnh : s.cpc ≠ .h) (hnh' : s'.cpc ≠ .h) (hnf : s'.cpc ≠ .fin)
    (hpop : (s'.cpc = .p ∨ s'.cpc = .r0 ∨ s'.cpc = .r1) → s.dq ≠ [])
    (hwake : s.dq.length = 0 ∨ s.tok + holds s.cpc ≤ s'.tok + holds s'.cpc)
    (hmeas : (ncom s'.cpc s.dq.length < ncom s.cpc s.dq.length ∧
                12 * s'.tok + rankC s'.cpc ≤ 12 * s.tok + rankC s.cpc + 12) ∨
             (ncom s'.cpc s.dq.length ≤ ncom s.cpc s.dq.length ∧
                (s'.tok = s.tok ∨ s.dq.length = 0) ∧
                12 * s'.tok + rankC s'.cpc < 12 * s.tok + rankC s.cpc)) :
    Inv c s' ∧ mu c wt s' < mu c wt s := by
  have hall' := hall
  simp only [allP, List.cons.injEq] at hall'
  have hsum : ∀ f : Poster → Nat, sumP f s' = sumP f s := by intro f; unfold sumP; rw [hall]
  have hInv : Inv c s' := by
    refine ⟨by rw [hdq]; exact hI.lenCap, by rw [hfab]; exact hI.fab, by rw [hrun]; exact hI.run,
      hnf, by rw [hdq]; exact hI.dqNoStop, by rw [hall]; exact hI.progs, by rw [hdq]; exact hpop,
      fun _ => by rw [hall'.1]; exact hI.inlIdle hnh, fun h => absurd h hnh', ?_⟩
    have := hI.wake
    rw [hdq, hsum]; omega
  refine ⟨hInv, mu_lt_of c wt s s' ?_ ?_⟩
  · unfold muW lamMax; rw [hall'.2]
  · rcases hmeas with ⟨h1, h2⟩ | ⟨h1, h2, h3⟩
    · left
      refine ⟨?_, ?_, ?_⟩
      · unfold muU muR; rw [hdq, hsum, hsum]; omega
      · have := muLam_le c s' hInv.lenCap
        unfold lamMax at this ⊢; rw [hall'.2] at this; exact this
      · unfold muT; omega
    · right
      refine ⟨?_, ?_⟩
      · unfold muU muR; rw [hdq, hsum, hsum]; omega
      · have : muLam s' = muLam s := by
          unfold muLam; rw [hdq, hsum]
          rcases h2 with h2 | h2
          · rw [h2]
          · rw [h2]; unfold sumP; congr 2; funext q; exact lamP_zero _ _ _
        unfold muT; omega

/-! ### the program created for the handlers' own posts -/

def inlPosts (first : Nat) (l : List (Kind × Nat)) : List (Kind × Ev) :=
  (List.range l.length).zip l |>.map fun (i, (k, sg)) => (k, (⟨sg, first + i⟩ : Ev))

theorem mkInline_eq (c : Config) (first : Nat) (l : List (Kind × Nat)) :
    mkInline c first l = match inlPosts first l with
      | [] => ⟨[], .a0, 0⟩
      | (k, _) :: _ => ⟨inlPosts first l, startPc c.alg k, 0⟩ := rfl

theorem inlPosts_length (first : Nat) (l : List (Kind × Nat)) :
    (inlPosts first l).length = l.length := by simp [inlPosts]

theorem inlPosts_sig (first : Nat) (l : List (Kind × Nat)) :
    (inlPosts first l).map (fun x => x.2.sig) = l.map (·.2) := by
  apply List.ext_getElem
  · simp [inlPosts]
  · intro i h1 h2; simp [inlPosts]

theorem mkInline_posts (c : Config) (first : Nat) (l : List (Kind × Nat)) :
    (mkInline c first l).posts = inlPosts first l := by
  rw [mkInline_eq]; split <;> simp [*]

theorem mkInline_pc {c : Config} (halg : c.alg = .tokenAfter) (first : Nat) (l : List (Kind × Nat)) :
    (mkInline c first l).pc = .a0 ∨ (mkInline c first l).pc = .l1 := by
  rw [mkInline_eq]; split
  · simp
  · rename_i k _ _ _; rw [halg]; cases k <;> simp [startPc]

theorem uP_unplaced (wt : Nat → Nat) (p : Poster) (h : placed p.pc = false) :
    uP wt p = wsum wt p.posts := by
  unfold uP; cases p.posts <;> simp [h, wsum]

theorem sum_map_add_const (f : Kind × Nat → Nat) (k : Nat) (l : List (Kind × Nat)) :
    (l.map fun x => f x + k).sum = (l.map f).sum + k * l.length := by
  induction l with
  | nil => simp
  | cons a l ih => simp [ih, Nat.mul_succ]; omega

/-- the weight of an event exceeds the weights (and posting work) of the events its handler posts -/
def WtOk (c : Config) (wt : Nat → Nat) : Prop :=
  ∀ sg, 6 + ((c.selfPosts sg).map fun x => wt x.2 + 5).sum ≤ wt sg

/-- the handlers never post STOP -/
def SelfNoStop (c : Config) : Prop := ∀ sg, ∀ x ∈ c.selfPosts sg, x.2 ≠ c.stopSig

theorem mkInline_good {c : Config} (halg : c.alg = .tokenAfter) (first : Nat) (l : List (Kind × Nat))
    (hl : ∀ x ∈ l, x.2 ≠ c.stopSig) : goodP c (mkInline c first l) := by
  refine ⟨fun _ => ?_, ?_⟩
  · rcases mkInline_pc halg first l with h | h <;> simp [h, taPc]
  · intro x hx
    rw [mkInline_posts] at hx
    have : x.2.sig ∈ (inlPosts first l).map (fun x => x.2.sig) := List.mem_map_of_mem hx
    rw [inlPosts_sig] at this
    obtain ⟨y, hy, hyx⟩ := List.mem_map.mp this
    rw [← hyx]; exact hl y hy

theorem mkInline_uP {c : Config} (halg : c.alg = .tokenAfter) (wt : Nat → Nat) (first : Nat)
    (l : List (Kind × Nat)) : uP wt (mkInline c first l) = (l.map fun x => wt x.2).sum := by
  rw [uP_unplaced]
  · rw [mkInline_posts]; unfold wsum
    have := congrArg (fun m => (m.map wt).sum) (inlPosts_sig first l)
    simpa [List.map_map, Function.comp_def] using this
  · rcases mkInline_pc halg first l with h | h <;> simp [h, placed]

theorem mkInline_rP {c : Config} (first : Nat) (l : List (Kind × Nat)) :
    rP (mkInline c first l) ≤ 5 * l.length + 4 ∧ (l = [] → rP (mkInline c first l) = 0) := by
  have h1 := mkInline_posts c first l
  have h2 := inlPosts_length first l
  constructor
  · unfold rP
    split
    · omega
    · rename_i y rest hp
      rw [h1] at hp; rw [hp] at h2; simp at h2
      have : slP (mkInline c first l).pc ≤ 4 := by cases (mkInline c first l).pc <;> simp [slP]
      omega
  · intro hl; subst hl; rfl

theorem mkInline_atS0 {c : Config} (halg : c.alg = .tokenAfter) (first : Nat)
    (l : List (Kind × Nat)) : atS0 (mkInline c first l) = 0 := by
  unfold atS0; rcases mkInline_pc halg first l with h | h <;> simp [h]

/-! ### the pop (`r1`) -/

theorem pop_step {c : Config} {wt : Nat → Nat} (halg : c.alg = .tokenAfter) (hw : WtOk c wt)
    (hsp : SelfNoStop c) {s s' : State} {e : Ev} {rest : List Ev} (hI : Inv c s)
    (hc : s.cpc = .r1) (hd : s.dq = e :: rest)
    (hdq : s'.dq = rest) (htok : s'.tok = s.tok)
    (hfab : s'.fabFlag = s.fabFlag) (hrun : s'.runFlag = s.runFlag)
    (hposters : s'.posters = s.posters)
    (hinl : s'.inline = mkInline c s.nextSelf (c.selfPosts e.sig))
    (hcpc : (s'.cpc = afterDispatch c ∧ s'.inline.posts = []) ∨
            (s'.cpc = .h ∧ s'.inline.posts ≠ [])) :
    Inv c s' ∧ mu c wt s' < mu c wt s := by
  have hidle : s.inline.posts = [] := hI.inlIdle (by rw [hc]; simp)
  have hsum : ∀ f : Poster → Nat, sumP f s' + f s.inline = sumP f s + f s'.inline := by
    intro f; unfold sumP allP; rw [hposters]; simp; omega
  have hgood : goodP c s'.inline := by
    rw [hinl]; exact mkInline_good halg _ _ (hsp e.sig)
  have hholds : holds s'.cpc = 0 := by
    rcases hcpc with ⟨h, _⟩ | ⟨h, _⟩ <;> rw [h]
    · unfold afterDispatch; split <;> rfl
    · rfl
  have hncom : ∀ L, ncom s'.cpc L = 1 := by
    intro L
    rcases hcpc with ⟨h, _⟩ | ⟨h, _⟩ <;> rw [h]
    · unfold afterDispatch; split <;> rfl
    · rfl
  have hrank : rankC s'.cpc ≤ rankC s.cpc := by
    rw [hc]
    rcases hcpc with ⟨h, _⟩ | ⟨h, _⟩ <;> rw [h]
    · unfold afterDispatch; split <;> decide
    · decide
  have hInv : Inv c s' := by
    refine ⟨?_, by rw [hfab]; exact hI.fab, by rw [hrun]; exact hI.run, ?_, ?_, ?_, ?_, ?_, ?_, ?_⟩
    · have := hI.lenCap; rw [hd] at this; rw [hdq]; simp at this; omega
    · rcases hcpc with ⟨h, _⟩ | ⟨h, _⟩ <;> rw [h]
      · unfold afterDispatch; split <;> simp
      · simp
    · intro x hx; rw [hdq] at hx; exact hI.dqNoStop x (by rw [hd]; simp [hx])
    · intro q hq
      unfold allP at hq
      rcases List.mem_cons.mp hq with h | h
      · rw [h]; exact hgood
      · rw [hposters] at h; exact hI.progs q (by unfold allP; simp [h])
    · intro h
      rcases hcpc with ⟨h', _⟩ | ⟨h', _⟩ <;> rw [h'] at h
      · unfold afterDispatch at h; split at h <;> simp at h
      · simp at h
    · intro h
      rcases hcpc with ⟨_, h'⟩ | ⟨h', _⟩
      · exact h'
      · exact absurd h' h
    · intro h
      rcases hcpc with ⟨h', _⟩ | ⟨_, h'⟩
      · rw [h'] at h; unfold afterDispatch at h; split at h <;> simp at h
      · exact h'
    · have h1 := hsum atS0
      have h2 := hI.wake
      have h3 : atS0 s.inline = 0 := by simp [atS0, hidle]
      have h4 : atS0 s'.inline = 0 := by rw [hinl]; exact mkInline_atS0 halg _ _
      rw [hd, hc] at h2; simp [holds] at h2
      rw [hdq, htok, hholds]; omega
  refine ⟨hInv, mu_lt_of c wt s s' ?_ (.inl ⟨?_, ?_, ?_⟩)⟩
  · unfold muW lamMax; rw [hposters]
  · have hu := hsum (uP wt)
    have hr := hsum rP
    have h1 : uP wt s.inline = 0 := by simp [uP, hidle]
    have h2 : rP s.inline = 0 := by simp [rP, hidle]
    have h3 : uP wt s'.inline = ((c.selfPosts e.sig).map fun x => wt x.2).sum := by
      rw [hinl]; exact mkInline_uP halg wt _ _
    have h4 : rP s'.inline ≤ 5 * (c.selfPosts e.sig).length + 4 := by
      rw [hinl]; exact (mkInline_rP _ _).1
    have h5 := hw e.sig
    rw [sum_map_add_const] at h5
    have h6 : dqW wt s.dq = wt e.sig + dqW wt rest := by rw [hd]; simp [dqW]
    have h7 : ncom s.cpc s.dq.length = 0 := by rw [hc]; rfl
    unfold muU muR
    rw [hncom, h7, hdq, h6]; omega
  · have := muLam_le c s' hInv.lenCap
    unfold lamMax at this ⊢; rw [hposters] at this; exact this
  · unfold muT; rw [htok]; omega

/-! ### every consumer step -/

theorem consumer_step {c : Config} {wt : Nat → Nat} (halg : c.alg = .tokenAfter) (hw : WtOk c wt)
    (hsp : SelfNoStop c) {s s' : State} {lbl : String} (hI : Inv c s)
    (h : consumerStep c s = some (s', lbl)) : Inv c s' ∧ mu c wt s' < mu c wt s := by
  unfold consumerStep at h
  split at h
  · -- fin
    cases h
  · -- t
    rename_i hc
    split at h
    · cases h
      refine simple_step wt hI rfl rfl rfl rfl ?_ ?_ ?_ ?_ ?_ ?_ <;>
        simp [hc, holds, ncom, committed, rankC]
    · rename_i hr; exact absurd hI.run hr
  · -- w
    rename_i hc
    split at h
    · cases h
    · cases h
      rename_i ht
      by_cases hL : s.dq.length = 0
      · refine simple_step wt hI rfl rfl rfl rfl ?_ ?_ ?_ ?_ ?_ ?_ <;>
          simp [hc, holds, ncom, committed, rankC, hL] <;> omega
      · have hL' : 1 ≤ s.dq.length := by omega
        refine simple_step wt hI rfl rfl rfl rfl ?_ ?_ ?_ ?_ ?_ ?_ <;>
          simp [hc, holds, ncom, committed, rankC, hL, hL'] <;> omega
  · -- f
    rename_i hc
    split at h
    · cases h
      refine simple_step wt hI rfl rfl rfl rfl ?_ ?_ ?_ ?_ ?_ ?_ <;>
        simp [hc, holds, ncom, committed, rankC]
    · rename_i hr; exact absurd hI.fab hr
  · -- n
    rename_i hc
    split at h
    · cases h
      rename_i hL
      have hne : s.dq ≠ [] := by intro h0; rw [h0] at hL; simp at hL
      refine simple_step wt hI rfl rfl rfl rfl ?_ ?_ ?_ ?_ ?_ ?_ <;>
        simp [hc, holds, ncom, committed, rankC, hne]
    · cases h
      rename_i hL
      have hL0 : s.dq.length = 0 := by omega
      refine simple_step wt hI rfl rfl rfl rfl ?_ ?_ ?_ ?_ ?_ ?_ <;>
        simp [hc, holds, ncom, committed, rankC, hL0]
  · -- p
    rename_i hc
    split at h
    · rename_i hd; exact absurd hd (hI.popNe (.inl hc))
    · rename_i e rest hd
      split at h
      · rename_i hs; exact absurd hs (hI.dqNoStop e (by rw [hd]; simp))
      · cases h
        refine simple_step wt hI rfl rfl rfl rfl ?_ ?_ ?_ ?_ ?_ ?_ <;>
          simp [hc, holds, ncom, committed, rankC, hd]
  · -- r0
    rename_i hc
    have hne := hI.popNe (.inr (.inl hc))
    split at h
    · cases h
      refine simple_step wt hI rfl rfl rfl rfl ?_ ?_ ?_ ?_ ?_ ?_ <;>
        simp [hc, holds, ncom, committed, rankC, hne]
    · rename_i hL; simp at hL; exact absurd hL hne
  · -- r1
    rename_i hc
    split at h
    · rename_i hd; exact absurd hd (hI.popNe (.inr (.inr hc)))
    · rename_i e rest hd
      dsimp only at h
      split at h <;> cases h
      · exact pop_step halg hw hsp hI hc hd rfl rfl rfl rfl rfl rfl (.inl ⟨rfl, ‹_›⟩)
      · exact pop_step halg hw hsp hI hc hd rfl rfl rfl rfl rfl rfl (.inr ⟨rfl, ‹_›⟩)
  · -- h
    rename_i hc
    split at h
    · cases h
    · rename_i sh p lbl' heq
      have hne := hI.inlBusy hc
      have hg : goodP c s.inline := hI.progs _ (by simp [allP])
      have hps := posterStep_PStep halg (hg.1 hne) heq
      split at h <;> cases h
      · rename_i hp
        exact slot_step wt halg (j := 0) hI (by simp [allP]) (by simp [allP, State.withShared])
          rfl rfl rfl rfl hps (.inr ⟨rfl, hp, rfl⟩) (fun _ => hc)
      · rename_i hp
        exact slot_step wt halg (j := 0) hI (by simp [allP]) (by simp [allP, State.withShared])
          rfl rfl rfl rfl hps (.inl ⟨rfl, fun _ => hp⟩) (fun _ => hc)
  · -- q1
    rename_i hc
    cases h
    refine simple_step wt hI rfl rfl rfl rfl ?_ ?_ ?_ ?_ ?_ ?_ <;>
      simp [hc, holds, ncom, committed, rankC]
  · -- q2
    rename_i hc
    cases h
    refine simple_step wt hI rfl rfl rfl rfl ?_ ?_ ?_ ?_ ?_ ?_ <;>
      simp [hc, holds, ncom, committed, rankC]
  · -- d
    rename_i hc
    split at h <;> cases h <;>
    · refine simple_step wt hI rfl rfl rfl rfl ?_ ?_ ?_ ?_ ?_ ?_ <;>
        simp [hc, holds, ncom, committed, rankC]

/-! ### every step of every thread -/

theorem step_inv_mu {c : Config} {wt : Nat → Nat} (halg : c.alg = .tokenAfter) (hw : WtOk c wt)
    (hsp : SelfNoStop c) (s : State) (t : Nat) (s' : State) (hI : Inv c s)
    (h : (sys c).step s t = some s') : Inv c s' ∧ mu c wt s' < mu c wt s := by
  simp only [sys, Option.map_eq_some_iff] at h
  obtain ⟨⟨s1, lbl⟩, h, rfl⟩ := h
  cases t with
  | zero => exact consumer_step halg hw hsp hI h
  | succ i =>
    simp only [stepL] at h
    split at h
    · cases h
    · rename_i p hp
      split at h
      · cases h
      · rename_i sh p' lbl' heq
        cases h
        have hmem : p ∈ allP s := by
          unfold allP; exact List.mem_cons_of_mem _ (List.mem_of_getElem? hp)
        have hg := hI.progs p hmem
        have hne : p.posts ≠ [] := by
          intro h0; unfold posterStep at heq; rw [h0] at heq; simp at heq
        have hps := posterStep_PStep halg (hg.1 hne) heq
        exact slot_step wt halg (j := i + 1) hI (by simpa [allP] using hp)
          (by simp [allP, State.withShared]) rfl rfl rfl rfl hps
          (.inl ⟨rfl, fun h0 => by omega⟩) (fun h0 => by omega)

/-! ### the initial state -/

theorem inv_init {c : Config} (halg : c.alg = .tokenAfter) (progs : List (List (Kind × Ev)))
    (hns : ∀ pr ∈ progs, ∀ x ∈ pr, x.2.sig ≠ c.stopSig) : Inv c (init c progs) := by
  refine ⟨by simp [init], rfl, rfl, by simp [init], by simp [init], ?_, by simp [init],
    fun _ => rfl, by simp [init], by simp [init]⟩
  intro p hp
  simp only [allP, init, List.mem_cons, List.mem_map] at hp
  rcases hp with rfl | ⟨pr, hpr, rfl⟩
  · exact ⟨fun h => absurd rfl h, by simp⟩
  · cases pr with
    | nil => exact ⟨fun h => absurd rfl h, by simp⟩
    | cons x rest =>
      obtain ⟨k, e⟩ := x
      refine ⟨fun _ => ?_, fun y hy => hns _ hpr y hy⟩
      rw [halg]; cases k <;> rfl

/-! ### weights from a ranking of the signals -/

theorem wtF_succ {sp : Nat → List (Kind × Nat)} {rank : Nat → Nat}
    (hr : ∀ sg, ∀ x ∈ sp sg, rank x.2 < rank sg) :
    ∀ n sg, rank sg ≤ n → wtF sp (n + 1) sg = wtF sp n sg := by
  intro n
  induction n with
  | zero =>
    intro sg h
    have : sp sg = [] := by
      cases hl : sp sg with
      | nil => rfl
      | cons x l => have := hr sg x (by rw [hl]; simp); omega
    simp [wtF, this]
  | succ n ih =>
    intro sg h
    show 6 + _ = 6 + _
    congr 2
    apply List.map_congr_left
    intro x hx
    rw [ih x.2 (by have := hr sg x hx; omega)]

theorem wtF_stable {sp : Nat → List (Kind × Nat)} {rank : Nat → Nat}
    (hr : ∀ sg, ∀ x ∈ sp sg, rank x.2 < rank sg) (sg : Nat) :
    ∀ d, wtF sp (rank sg + d) sg = wtF sp (rank sg) sg := by
  intro d
  induction d with
  | zero => rfl
  | succ d ih => rw [← Nat.add_assoc, wtF_succ hr _ _ (by omega), ih]

theorem wtOk_of_rank {c : Config} {rank : Nat → Nat}
    (hr : ∀ sg, ∀ x ∈ c.selfPosts sg, rank x.2 < rank sg) :
    WtOk c (fun sg => wtF c.selfPosts (rank sg) sg) := by
  intro sg
  show _ ≤ wtF c.selfPosts (rank sg) sg
  cases hn : rank sg with
  | zero =>
    have : c.selfPosts sg = [] := by
      cases hl : c.selfPosts sg with
      | nil => rfl
      | cons x l => have := hr sg x (by rw [hl]; simp); omega
    simp [wtF, this]
  | succ n =>
    show _ ≤ 6 + _
    apply Nat.add_le_add_left
    apply Nat.le_of_eq
    congr 1
    apply List.map_congr_left
    intro x hx
    have h1 := hr sg x hx
    obtain ⟨d, hd⟩ : ∃ d, n = rank x.2 + d := ⟨n - rank x.2, by omega⟩
    rw [hd, wtF_stable hr]

theorem wtOk_noSelf {c : Config} (h : c.selfPosts = fun _ => []) : WtOk c (fun _ => 6) := by
  intro sg; simp [h]

theorem selfNoStop_noSelf {c : Config} (h : c.selfPosts = fun _ => []) : SelfNoStop c := by
  intro sg x hx; simp [h] at hx

/-! ### quiescent states -/

theorem consumerStep_none {c : Config} (halg : c.alg = .tokenAfter) {s : State} (hI : Inv c s)
    (h : consumerStep c s = none) : s.cpc = .w ∧ s.tok = 0 := by
  unfold consumerStep at h
  split at h
  · rename_i hc; exact absurd hc hI.notFin
  · split at h <;> cases h
  · rename_i hc
    split at h
    · exact ⟨hc, ‹_›⟩
    · cases h
  · split at h <;> cases h
  · split at h <;> cases h
  · split at h
    · cases h
    · split at h <;> cases h
  · split at h <;> cases h
  · split at h
    · cases h
    · dsimp only at h; split at h <;> cases h
  · rename_i hc
    have hne := hI.inlBusy hc
    have hg : goodP c s.inline := hI.progs _ (by simp [allP])
    have hpc : s.inline.pc ≠ .f1 := by
      intro h1; have := hg.1 hne; rw [h1] at this; simp [taPc] at this
    have := posterStep_isSome halg (shared s) hne hpc
    split at h
    · rename_i h0; exact absurd h0 this
    · split at h <;> cases h
  · cases h
  · cases h
  · split at h <;> cases h

/-- a quiescent state satisfying the invariant: every post has returned, the consumer waits on an
empty queue -/
theorem quiescent_done {c : Config} (halg : c.alg = .tokenAfter) {s : State} (hI : Inv c s)
    (hq : (sys c).Quiescent s) : postersDone s ∧ s.cpc = .w ∧ s.tok = 0 ∧ s.dq = [] := by
  have hstep : ∀ t, stepL c s t = none := by
    intro t; have := hq t; simpa [sys] using this
  have hcons := consumerStep_none halg hI (by simpa [stepL] using hstep 0)
  have hinl : s.inline.posts = [] := hI.inlIdle (by rw [hcons.1]; simp)
  have hposters : ∀ p ∈ s.posters, p.posts = [] := by
    intro p hp
    obtain ⟨i, hi, hpi⟩ := List.getElem_of_mem hp
    have hget : s.posters[i]? = some p := by rw [List.getElem?_eq_getElem hi, hpi]
    have h1 := hstep (i + 1)
    simp only [stepL, hget] at h1
    apply Classical.byContradiction
    intro hne
    have hg : goodP c p := hI.progs p (by unfold allP; exact List.mem_cons_of_mem _ hp)
    have hpc : p.pc ≠ .f1 := by
      intro h2; have := hg.1 hne; rw [h2] at this; simp [taPc] at this
    have := posterStep_isSome halg (shared s) hne hpc
    split at h1
    · rename_i h0; exact this h0
    · cases h1
  refine ⟨⟨hposters, hinl⟩, hcons.1, hcons.2, ?_⟩
  have hw := hI.wake
  have h0 : sumP atS0 s = 0 := by
    unfold sumP
    have : ∀ l : List Poster, (∀ p ∈ l, p.posts = []) → (l.map atS0).sum = 0 := by
      intro l hl
      induction l with
      | nil => rfl
      | cons a l ih =>
        have ha : atS0 a = 0 := by simp [atS0, hl a (by simp)]
        have := ih (fun p hp => hl p (by simp [hp]))
        simp [ha, this]
    apply this
    intro p hp
    unfold allP at hp
    rcases List.mem_cons.mp hp with h | h
    · rw [h]; exact hinl
    · exact hposters p h
  rw [hcons.1, hcons.2, h0] at hw
  simp [holds] at hw
  exact hw

/-- conversely, such a state is quiescent -/
theorem done_quiescent (c : Config) {s : State} (hd : postersDone s) (hc : s.cpc = .w)
    (ht : s.tok = 0) : (sys c).Quiescent s := by
  intro t
  simp only [sys, Option.map_eq_none_iff]
  cases t with
  | zero => simp [stepL, consumerStep, hc, ht]
  | succ i =>
    simp only [stepL]
    split
    · rfl
    · rename_i p hp
      have : p.posts = [] := hd.1 p (List.mem_of_getElem? hp)
      simp [posterStep, this]

/-! ### runs from the initial state -/

section runs
variable {c : Config} {wt : Nat → Nat} (halg : c.alg = .tokenAfter) (hw : WtOk c wt)
  (hsp : SelfNoStop c) (progs : List (List (Kind × Ev)))
  (hns : ∀ pr ∈ progs, ∀ x ∈ pr, x.2.sig ≠ c.stopSig)
include halg hw hsp hns

/-- the invariant holds after every schedule -/
theorem ld_inv_run (sched : List Nat) : Inv c ((sys c).run (init c progs) sched) :=
  (sys c).inv_run (Inv c) (fun s t s' hI h => (step_inv_mu halg hw hsp s t s' hI h).1) sched _
    (inv_init halg progs hns)

/-- no schedule takes more than `mu (init …)` effective steps -/
theorem ld_effective_le (sched : List Nat) :
    (sys c).effective (init c progs) sched ≤ mu c wt (init c progs) :=
  (sys c).terminates_of_measure (Inv c) (mu c wt)
    (fun s t s' hI h => (step_inv_mu halg hw hsp s t s' hI h).1)
    (fun s t s' hI h => (step_inv_mu halg hw hsp s t s' hI h).2) sched _
    (inv_init halg progs hns)

/-- every schedule can be extended to one that ends in a quiescent state -/
theorem ld_reaches_quiescence (sched : List Nat) :
    ∃ sched', (sys c).Quiescent ((sys c).run (init c progs) (sched ++ sched')) := by
  have hI := ld_inv_run halg hw hsp progs hns sched
  obtain ⟨sched', h⟩ := (sys c).reaches_quiescence (Inv c) (mu c wt)
    (fun s t s' hI h => (step_inv_mu halg hw hsp s t s' hI h).1)
    (fun s t s' hI h => (step_inv_mu halg hw hsp s t s' hI h).2) _ _ (Nat.le_refl _) hI
  exact ⟨sched', by rw [System.run_append]; exact h⟩

end runs

/-! ### fair schedules -/

theorem consumerStep_posters {c : Config} {s s' : State} {lbl : String}
    (h : consumerStep c s = some (s', lbl)) : s'.posters = s.posters := by
  unfold consumerStep at h
  repeat' split at h
  all_goals first | cases h | skip
  all_goals first | rfl | skip
  all_goals dsimp only at h
  all_goals repeat' split at h
  all_goals cases h
  all_goals rfl

theorem step_posters_length {c : Config} {s s' : State} {t : Nat}
    (h : (sys c).step s t = some s') : s'.posters.length = s.posters.length := by
  simp only [sys, Option.map_eq_some_iff] at h
  obtain ⟨⟨s1, lbl⟩, h, rfl⟩ := h
  cases t with
  | zero => rw [consumerStep_posters h]
  | succ i =>
    simp only [stepL] at h
    split at h
    · cases h
    · split at h
      · cases h
      · cases h; simp

/-- only the consumer and the posters can ever be enabled -/
theorem step_enabled_le {c : Config} {s : State} {t : Nat} (h : (sys c).step s t ≠ none) :
    t ≤ s.posters.length := by
  cases t with
  | zero => omega
  | succ i =>
    apply Classical.byContradiction
    intro hlt
    apply h
    have : s.posters[i]? = none := by simp; omega
    simp [sys, stepL, this]

section fair
variable {c : Config} {wt : Nat → Nat} (halg : c.alg = .tokenAfter) (hw : WtOk c wt)
  (hsp : SelfNoStop c) (progs : List (List (Kind × Ev)))
  (hns : ∀ pr ∈ progs, ∀ x ∈ pr, x.2.sig ≠ c.stopSig)
include halg hw hsp hns

/-- after any prefix, more than `mu (init …)` rounds in each of which every thread gets a turn
lead to a quiescent state -/
theorem ld_fair_quiescent (sched : List Nat) (blocks : List (List Nat))
    (hfair : ∀ b ∈ blocks, ∀ t, t ≤ progs.length → t ∈ b)
    (hlen : mu c wt (init c progs) < blocks.length) :
    (sys c).Quiescent ((sys c).run (init c progs) (sched ++ blocks.flatten)) := by
  let I : State → Prop := fun s => Inv c s ∧ s.posters.length = progs.length
  have hinv : ∀ s t s', I s → (sys c).step s t = some s' → I s' := fun s t s' hI h =>
    ⟨(step_inv_mu halg hw hsp s t s' hI.1 h).1, by rw [step_posters_length h]; exact hI.2⟩
  have hdec : ∀ s t s', I s → (sys c).step s t = some s' → mu c wt s' < mu c wt s :=
    fun s t s' hI h => (step_inv_mu halg hw hsp s t s' hI.1 h).2
  have h0 : I (init c progs) := ⟨inv_init halg progs hns, by simp [init]⟩
  have h1 : I ((sys c).run (init c progs) sched) := (sys c).inv_run I hinv sched _ h0
  have h2 := (sys c).measure_run I (mu c wt) hinv hdec sched _ h0
  rw [System.run_append]
  exact (sys c).fair_blocks_quiescent I (mu c wt) (fun t => t ≤ progs.length) hinv hdec
    (fun s t hI h => by have := step_enabled_le h; rw [hI.2] at this; exact this)
    blocks _ h1 hfair (by omega)

end fair

/-! ### the bound in closed form -/

theorem mu_init_le (c : Config) (progs : List (List (Kind × Ev))) :
    mu c (fun _ => 6) (init c progs) ≤
      (13 * ((progs.length + 1) * (3 * c.cap + 5)) + 13) *
        (11 * (progs.map List.length).sum + 4 * progs.length + 1) + 2 := by
  let mk : List (Kind × Ev) → Poster := fun pr =>
    match pr with
    | [] => ⟨[], .a0, 0⟩
    | (k, _) :: _ => ⟨pr, startPc c.alg k, 0⟩
  have hnp : ∀ k, placed (startPc c.alg k) = false := by
    intro k; cases c.alg <;> cases k <;> rfl
  have hsl : ∀ k, slP (startPc c.alg k) ≤ 4 := by
    intro k; cases c.alg <;> cases k <;> simp [startPc, slP]
  have hlam : ∀ k, ∀ pr q, lamP 0 0 ⟨pr, startPc c.alg k, q⟩ = 0 := by
    intro k pr q; cases c.alg <;> cases k <;> cases pr <;> rfl
  have hu : ∀ pr, uP (fun _ => 6) (mk pr) = 6 * pr.length := by
    intro pr
    cases pr with
    | nil => rfl
    | cons x rest =>
      obtain ⟨k, e⟩ := x
      have : ∀ l : List (Kind × Ev), wsum (fun _ => 6) l = 6 * l.length := by
        intro l; induction l with
        | nil => rfl
        | cons a l ih => simp [wsum] at ih ⊢; omega
      simp [mk, uP, hnp, this]; omega
  have hr : ∀ pr, rP (mk pr) ≤ 5 * pr.length + 4 := by
    intro pr
    cases pr with
    | nil => simp [mk, rP]
    | cons x rest =>
      obtain ⟨k, e⟩ := x
      have := hsl k
      simp [mk, rP]; omega
  have hl : ∀ pr, lamP 0 0 (mk pr) = 0 := by
    intro pr
    cases pr with
    | nil => rfl
    | cons x rest => obtain ⟨k, e⟩ := x; exact hlam k _ _
  have hsumU : ∀ l : List (List (Kind × Ev)),
      ((l.map mk).map (uP fun _ => 6)).sum = 6 * (l.map List.length).sum := by
    intro l; induction l with
    | nil => rfl
    | cons a l ih => simp only [List.map_cons, List.sum_cons, hu, ih]; omega
  have hsumR : ∀ l : List (List (Kind × Ev)),
      ((l.map mk).map rP).sum ≤ 5 * (l.map List.length).sum + 4 * l.length := by
    intro l; induction l with
    | nil => simp
    | cons a l ih =>
      have := hr a
      simp only [List.map_cons, List.sum_cons, List.length_cons]; omega
  have hsumL : ∀ l : List (List (Kind × Ev)), ((l.map mk).map (lamP 0 0)).sum = 0 := by
    intro l; induction l with
    | nil => rfl
    | cons a l ih => simp only [List.map_cons, List.sum_cons, hl, ih]
  have hposters : (init c progs).posters = progs.map mk := rfl
  have hU : muU (fun _ => 6) (init c progs) = 6 * (progs.map List.length).sum + 1 := by
    unfold muU sumP allP
    rw [hposters]
    simp only [List.map_cons, List.sum_cons, hsumU]
    simp [init, uP, dqW, ncom, committed]
  have hR : muR (init c progs) ≤ 5 * (progs.map List.length).sum + 4 * progs.length := by
    unfold muR sumP allP
    rw [hposters]
    simp only [List.map_cons, List.sum_cons]
    have := hsumR progs
    have h0 : rP (init c progs).inline = 0 := rfl
    omega
  have hL : muLam (init c progs) = 0 := by
    unfold muLam sumP allP
    rw [hposters]
    simp only [List.map_cons, List.sum_cons]
    have := hsumL progs
    have h0 : lamP (init c progs).dq.length (init c progs).tok (init c progs).inline = 0 := rfl
    have h1 : (init c progs).dq.length = 0 := rfl
    have h2 : (init c progs).tok = 0 := rfl
    rw [h0, h1, h2, this]
  have hT : muT (init c progs) = 2 := by simp [muT, init, rankC]
  have hW : muW c (init c progs) = 13 * ((progs.length + 1) * (3 * c.cap + 5)) + 13 := by
    simp [muW, lamMax, init]
  unfold mu
  rw [hL, hT, hW, hU]
  have := Nat.mul_le_mul_left (13 * ((progs.length + 1) * (3 * c.cap + 5)) + 13)
    (show 6 * (progs.map List.length).sum + 1 + muR (init c progs) ≤
      11 * (progs.map List.length).sum + 4 * progs.length + 1 by omega)
  omega

end Miros.Conc.LD
