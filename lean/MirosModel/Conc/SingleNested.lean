import MirosModel.Conc.Sys
/-!
# A singleton first requested from inside the constructors of other singletons

```
def __call__(self):                      # one SingletonDecorator per decorated class: `instance`, `_lock`
    if self.instance is None:            # check
        with self._lock:                 # acquire
            if self.instance is None:    # check2
                self.instance = self.klass()     # construct … store
    return self.instance                 # read
```

Decorator 0 is the INNER singleton (`FiberThreadEvent`), decorators `1 … nOuter` are OUTER singletons
(`ActiveFabric`, `InstrumentionWriter`, …) whose constructor calls `Inner()` — a complete nested
`__call__` of decorator 0 — before the outer object is complete.

A thread is a stack of frames, one per `__call__` in progress; a step acts on the top frame and
performs at most one access to shared state (one `instance`, one lock, or the allocator):

* `check`      reads `insts[d]`: none → `acquire` (or, with `nestedSkipsLock` and another frame below —
               we are inside a constructor — straight to `construct`); else → `read`
* `acquire`    blocked while `locks[d]` is held; takes it → `check2`
* `check2`     reads `insts[d]`: none → `construct`, else → `release`
* `construct`  d = 0: allocates object `nextObj`, logs `(0, obj)` in `made` → `store`.
               d ≠ 0: the constructor calls `Inner()`: pushes the frame `⟨0, check, none, none⟩`; the
               outer frame waits below it at `construct2` (no shared access: this is the call itself)
* `construct2` (outer frame, on top again once the nested frame has returned and left its result in
               `inner`): allocates the outer object `nextObj`, logs `(d, obj)` in `made` and
               `(obj, inner object)` in `holds` → `store`
* `store`      `insts[d] := mine` → `release` if this frame took the lock, else (skipped) → `read`
* `release`    `locks[d] := none` → `read`
* `read`       result := `insts[d]`; pops the frame; stack now empty: `ret := (result, the inner
               object that result is (d = 0) / holds (d ≠ 0, looked up in `holds`))`, the thread is
               done; else the result goes into `inner` of the frame below.

`Tags.nestedSkipsLock = false` is the current source.  `true` is a seeded change: a first request made
from inside another singleton's constructor skips the lock and the second check.

Ghost fields: `made` (decorator, object) in order of construction; `holds` (outer object ↦ the inner
object it was constructed with).  Each thread makes ONE top-level request.
-/
namespace Miros.Conc.SingleNested

structure Tags where
  nestedSkipsLock : Bool          -- false = current source
deriving DecidableEq, Repr

inductive Pc
  | check | acquire | check2 | construct | construct2 | store | release | read
deriving DecidableEq, Repr

structure Frame where
  dec : Nat
  pc : Pc
  mine : Option Nat       -- the object this frame constructed
  inner : Option Nat      -- what the nested request returned (outer frames)
deriving DecidableEq, Repr

structure Thread where
  stack : List Frame      -- head = the `__call__` that is running; [] = the thread has returned
  ret : Option (Option Nat × Option Nat)   -- (what the request returned, the inner object that is / holds)
deriving DecidableEq, Repr

structure State where
  insts : List (Option Nat)     -- per decorator
  locks : List (Option Nat)     -- per decorator: owner thread
  nextObj : Nat
  threads : List Thread
  made : List (Nat × Nat)       -- ghost: (decorator, object) constructed, in order
  holds : List (Nat × Nat)      -- ghost: (outer object, the inner object it was constructed with)
deriving DecidableEq, Repr

inductive Req
  | inner
  | outer (k : Nat)
deriving DecidableEq, Repr

/-- the decorator a request goes to (`outer 0` is the same request as `inner`) -/
def Req.dec : Req → Nat
  | .inner => 0
  | .outer k => k

abbrev Step := Nat

/-- entry `d` of a per-decorator table -/
def getI (l : List (Option Nat)) (d : Nat) : Option Nat := (l[d]?).getD none

/-- the frame a request for decorator `d` starts with -/
def newFrame (d : Nat) : Frame := ⟨d, .check, none, none⟩

/-- does the top frame (with `rest` below it) skip the lock? -/
def skips (g : Tags) (rest : List Frame) : Bool := g.nestedSkipsLock && !rest.isEmpty

def step (g : Tags) (s : State) (i : Step) : Option State :=
  match s.threads[i]? with
  | none => none
  | some t =>
    match t.stack with
    | [] => none
    | f :: rest =>
      let put (f' : Frame) (s' : State) : State :=
        { s' with threads := s'.threads.set i { t with stack := f' :: rest } }
      match f.pc with
      | .check =>
        if (getI s.insts f.dec).isNone then
          some (put { f with pc := if skips g rest then .construct else .acquire } s)
        else some (put { f with pc := .read } s)
      | .acquire =>
        if (getI s.locks f.dec).isSome then none
        else some (put { f with pc := .check2 } { s with locks := s.locks.set f.dec (some i) })
      | .check2 =>
        if (getI s.insts f.dec).isNone then some (put { f with pc := .construct } s)
        else some (put { f with pc := .release } s)
      | .construct =>
        if f.dec = 0 then
          some (put { f with pc := .store, mine := some s.nextObj }
            { s with nextObj := s.nextObj + 1, made := s.made ++ [(0, s.nextObj)] })
        else
          some { s with threads :=
            s.threads.set i { t with stack := newFrame 0 :: { f with pc := .construct2 } :: rest } }
      | .construct2 =>
        some (put { f with pc := .store, mine := some s.nextObj }
          { s with nextObj := s.nextObj + 1, made := s.made ++ [(f.dec, s.nextObj)],
                   holds := s.holds ++ f.inner.toList.map fun x => (s.nextObj, x) })
      | .store =>
        some (put { f with pc := if skips g rest then .read else .release }
          { s with insts := s.insts.set f.dec f.mine })
      | .release => some (put { f with pc := .read } { s with locks := s.locks.set f.dec none })
      | .read =>
        let r := getI s.insts f.dec
        match rest with
        | [] =>
          some { s with threads :=
            s.threads.set i ⟨[], some (r, if f.dec = 0 then r else r.bind fun o => s.holds.lookup o)⟩ }
        | f1 :: rest' =>
          some { s with threads := s.threads.set i { t with stack := { f1 with inner := r } :: rest' } }

def sys (g : Tags) : System State Step where
  step := step g

/-- number of decorators: the inner one and every outer one that is requested -/
def nDecs (reqs : List Req) : Nat := (reqs.map Req.dec).foldr max 0 + 1

def init (reqs : List Req) : State :=
  { insts := List.replicate (nDecs reqs) none, locks := List.replicate (nDecs reqs) none, nextObj := 0,
    made := [], holds := [],
    threads := reqs.map fun r => ⟨[newFrame r.dec], none⟩ }

/-- number of schedule entries that were skipped because the chosen thread could not move -/
def blockedCount (g : Tags) : State → List Step → Nat
  | _, [] => 0
  | s, t :: ts =>
    match step g s t with
    | some s' => blockedCount g s' ts
    | none => blockedCount g s ts + 1

end Miros.Conc.SingleNested
