import MirosModel.Conc.LockingDequeSeq
/-!
# Lemmas about `LockingDeque` used by one thread at a time

Closed form of one post of the `tokenAfter` algorithm run to completion (`runPost`), the
invariant of the sequential use (`Inv0`, `Inv`), the abstract bounded deque (`absStep`) and the
side condition "no pop/popleft on an empty deque" (`okOps`).
-/
namespace Miros.Conc.LD
open Miros.Queue

/-! ### abstract bounded deque -/

/-- `collections.deque(maxlen=cap)` under the `LockingDeque` append: when full, the newest old
event is replaced -/
def absAppend (cap : Nat) (l : List Ev) (e : Ev) : List Ev :=
  if l.length < cap then l ++ [e] else l.dropLast ++ [e]

def absAppendLeft (cap : Nat) (l : List Ev) (e : Ev) : List Ev :=
  if l.length < cap then e :: l else e :: l.dropLast

/-- the abstract bounded deque of the property -/
def absStep (cap : Nat) (l : List Ev) : SOp → List Ev
  | .append e => absAppend cap l e
  | .appendleft e => absAppendLeft cap l e
  | .pop => l.dropLast
  | .popleft => l.tail
  | .clear => []
  | .len => l

/-- tokens after one post: one more if there is room, then topped up to the number of events -/
def tokAfter (cap tok len : Nat) : Nat := min cap (max (tok + 1) len)

/-- `o` is not a pop/popleft applied to the empty deque `l` -/
def okOp (l : List Ev) : SOp → Prop
  | .pop => l ≠ []
  | .popleft => l ≠ []
  | _ => True

instance (l : List Ev) (o : SOp) : Decidable (okOp l o) := by
  cases o <;> unfold okOp <;> infer_instance

/-- every pop/popleft of `ops` is applied to a non-empty deque (threaded through the abstract
bounded deque of capacity `cap`, starting from `l`) -/
def okOps (cap : Nat) : List Ev → List SOp → Prop
  | _, [] => True
  | l, o :: rest => okOp l o ∧ okOps cap (absStep cap l o) rest

instance (cap : Nat) : (l : List Ev) → (ops : List SOp) → Decidable (okOps cap l ops)
  | _, [] => isTrue trivial
  | l, o :: rest =>
    have := instDecidableOkOps cap (absStep cap l o) rest
    inferInstanceAs (Decidable (okOp l o ∧ okOps cap (absStep cap l o) rest))

/-- `ops` contains no raw pops (the idle queue of the property: only posts, `clear`, `len`) -/
def noPops : List SOp → Prop
  | [] => True
  | .pop :: _ => False
  | .popleft :: _ => False
  | _ :: rest => noPops rest

instance : (ops : List SOp) → Decidable (noPops ops)
  | [] => isTrue trivial
  | .pop :: _ => isFalse (fun h => h)
  | .popleft :: _ => isFalse (fun h => h)
  | .append _ :: rest => have := instDecidableNoPops rest; by unfold noPops; infer_instance
  | .appendleft _ :: rest => have := instDecidableNoPops rest; by unfold noPops; infer_instance
  | .clear :: rest => have := instDecidableNoPops rest; by unfold noPops; infer_instance
  | .len :: rest => have := instDecidableNoPops rest; by unfold noPops; infer_instance

theorem absAppend_length_le (cap : Nat) (l : List Ev) (e : Ev) (hc : 0 < cap) (h : l.length ≤ cap) :
    (absAppend cap l e).length ≤ cap := by
  unfold absAppend; split <;> simp <;> omega

theorem absAppendLeft_length_le (cap : Nat) (l : List Ev) (e : Ev) (hc : 0 < cap) (h : l.length ≤ cap) :
    (absAppendLeft cap l e).length ≤ cap := by
  unfold absAppendLeft; split <;> simp <;> omega

theorem absAppend_length (cap : Nat) (l : List Ev) (e : Ev) (hc : 0 < cap) (h : l.length ≤ cap) :
    (absAppend cap l e).length = min cap (l.length + 1) := by
  unfold absAppend; split <;> simp <;> omega

theorem absAppendLeft_length (cap : Nat) (l : List Ev) (e : Ev) (hc : 0 < cap) (h : l.length ≤ cap) :
    (absAppendLeft cap l e).length = min cap (l.length + 1) := by
  unfold absAppendLeft; split <;> simp <;> omega

theorem absAppend_getLast (cap : Nat) (l : List Ev) (e : Ev) : (absAppend cap l e).getLast? = some e := by
  unfold absAppend; split <;> simp

theorem absAppendLeft_head (cap : Nat) (l : List Ev) (e : Ev) : (absAppendLeft cap l e).head? = some e := by
  unfold absAppendLeft; split <;> simp

/-! ### primitives on a bounded deque -/

theorem dqAppend_lt (cap : Nat) (l : List Ev) (e : Ev) (h : l.length < cap) :
    dqAppend cap l e = (l ++ [e], []) := by simp [dqAppend, h]

theorem dqRotate_length (l : List Ev) : (dqRotate l).length = l.length := by
  unfold dqRotate
  cases h : l.getLast? with
  | none => simp at h; simp [h]
  | some x =>
    have : l ≠ [] := by intro h0; simp [h0] at h
    have := List.length_pos_iff.mpr this
    simp; omega

/-- `rotate(1)` then `append` on a full deque replaces the newest old event -/
theorem dqAppend_rotate_full (cap : Nat) (l : List Ev) (e : Ev) (hc : 0 < cap) (h : l.length = cap) :
    (dqAppend cap (dqRotate l) e).1 = l.dropLast ++ [e] := by
  have hl : (dqRotate l).length = cap := by rw [dqRotate_length, h]
  have hne : l ≠ [] := by intro h0; simp [h0] at h; omega
  unfold dqAppend
  rw [if_neg (by omega)]
  unfold dqRotate
  cases hg : l.getLast? with
  | none => simp at hg; exact absurd hg hne
  | some x => simp

theorem dqAppendLeft_lt (cap : Nat) (l : List Ev) (e : Ev) (h : l.length < cap) :
    dqAppendLeft cap l e = (e :: l, []) := by simp [dqAppendLeft, h]

theorem dqAppendLeft_full (cap : Nat) (l : List Ev) (e : Ev) (hc : 0 < cap) (h : l.length = cap) :
    (dqAppendLeft cap l e).1 = e :: l.dropLast := by
  unfold dqAppendLeft
  rw [if_neg (by omega)]
  obtain ⟨n, rfl⟩ : ∃ n, cap = n + 1 := ⟨cap - 1, by omega⟩
  simp [List.dropLast_eq_take, h]

/-! ### one post, run to completion -/

theorem runPost_step {c : Config} {fuel : Nat} {sh sh' : Shared} {p p' : Poster}
    (hp : p.posts ≠ [])
    (h : (posterStep c sh p).map (fun r => (r.1, r.2.1)) = some (sh', p')) :
    runPost c (fuel + 1) sh p = if p'.posts = [] then some sh' else runPost c fuel sh' p' := by
  conv => lhs; unfold runPost
  cases hq : p.posts with
  | nil => exact absurd hq hp
  | cons a rest =>
    cases hs : posterStep c sh p with
    | none => simp [hs] at h
    | some r =>
      obtain ⟨a1, a2, a3⟩ := r
      simp [hs] at h
      obtain ⟨rfl, rfl⟩ := h
      simp

/-- the top-up loop (`s1`: read qsize, `s2`: compare with len, `s3`: put_nowait), entered with
`gap = len - tok` tokens missing: it adds exactly the missing tokens (the deque is never longer
than `cap`, so `put_nowait` never meets a full token queue before the gap is closed) -/
theorem runPost_s1 (c : Config) (ha : c.alg = .tokenAfter) (k : Kind) (e : Ev) :
    ∀ (gap fuel : Nat) (sh : Shared) (q : Nat), sh.dq.length ≤ c.cap → sh.dq.length - sh.tok = gap →
      3 * gap + 2 ≤ fuel →
      runPost c fuel sh ⟨[(k, e)], .s1, q⟩ =
        some ⟨sh.dq, max sh.tok sh.dq.length, sh.unfinished + (max sh.tok sh.dq.length - sh.tok), sh.displaced⟩ := by
  intro gap
  induction gap with
  | zero =>
    intro fuel sh q hl hg hf
    obtain ⟨f, rfl⟩ : ∃ f, fuel = f + 2 := ⟨fuel - 2, by omega⟩
    rw [runPost_step (p' := ⟨[(k, e)], .s2, sh.tok⟩) (sh' := sh) (by simp) (by simp [posterStep])]
    rw [if_neg (by simp)]
    have hnl : ¬ sh.tok < sh.dq.length := by omega
    rw [runPost_step (p' := ⟨[], .a0, sh.tok⟩) (sh' := sh) (by simp)
      (by simp [posterStep, ha, hnl, nextPost])]
    have hm : max sh.tok sh.dq.length = sh.tok := by omega
    simp [hm]
  | succ n ih =>
    intro fuel sh q hl hg hf
    obtain ⟨f, rfl⟩ : ∃ f, fuel = f + 3 := ⟨fuel - 3, by omega⟩
    have hlt : sh.tok < sh.dq.length := by omega
    have hcap : sh.tok < c.cap := by omega
    rw [runPost_step (p' := ⟨[(k, e)], .s2, sh.tok⟩) (sh' := sh) (by simp) (by simp [posterStep])]
    rw [if_neg (by simp)]
    rw [runPost_step (p' := ⟨[(k, e)], .s3, sh.tok⟩) (sh' := sh) (by simp)
      (by simp [posterStep, ha, hlt])]
    rw [if_neg (by simp)]
    rw [runPost_step (p' := ⟨[(k, e)], .s1, sh.tok⟩)
      (sh' := { sh with tok := sh.tok + 1, unfinished := sh.unfinished + 1 }) (by simp)
      (by simp [posterStep, ha, hcap])]
    rw [if_neg (by simp)]
    rw [ih f _ _ (by simpa using hl) (by simp; omega) (by omega)]
    have h1 : max (sh.tok + 1) sh.dq.length = sh.dq.length := by omega
    have h2 : max sh.tok sh.dq.length = sh.dq.length := by omega
    simp [h1, h2]
    omega

/-- from the unconditional `put_nowait` (`s0`) to the end of the post -/
theorem runPost_s0 (c : Config) (ha : c.alg = .tokenAfter) (k : Kind) (e : Ev) (fuel : Nat)
    (sh : Shared) (q : Nat) (hl : sh.dq.length ≤ c.cap) (ht : sh.tok ≤ c.cap)
    (hf : 3 * c.cap + 3 ≤ fuel) :
    runPost c fuel sh ⟨[(k, e)], .s0, q⟩ =
      some ⟨sh.dq, tokAfter c.cap sh.tok sh.dq.length,
            sh.unfinished + (tokAfter c.cap sh.tok sh.dq.length - sh.tok), sh.displaced⟩ := by
  obtain ⟨f, rfl⟩ : ∃ f, fuel = f + 1 := ⟨fuel - 1, by omega⟩
  by_cases hcap : sh.tok < c.cap
  · rw [runPost_step (p' := ⟨[(k, e)], .s1, q⟩)
      (sh' := { sh with tok := sh.tok + 1, unfinished := sh.unfinished + 1 }) (by simp)
      (by simp [posterStep, hcap])]
    rw [if_neg (by simp)]
    rw [runPost_s1 c ha k e (sh.dq.length - (sh.tok + 1)) f _ q (by simpa using hl) (by simp) (by omega)]
    have hm : tokAfter c.cap sh.tok sh.dq.length = max (sh.tok + 1) sh.dq.length := by
      unfold tokAfter; omega
    simp [hm]
    omega
  · rw [runPost_step (p' := ⟨[], .a0, q⟩) (sh' := sh) (by simp)
      (by simp [posterStep, hcap, nextPost])]
    have hm : tokAfter c.cap sh.tok sh.dq.length = sh.tok := by
      unfold tokAfter; omega
    simp [hm]

/-- **closed form of a fifo post** (`LockingDeque.append`): it always returns; the deque is the
bounded-deque append (when full the newest old event is replaced), one token is added if there is
room and the tokens are then topped up to the number of events. -/
theorem runPost_fifo (c : Config) (ha : c.alg = .tokenAfter) (hc : 0 < c.cap) (e : Ev) (sh : Shared)
    (hl : sh.dq.length ≤ c.cap) (ht : sh.tok ≤ c.cap) :
    ∃ sh', runPost c (fuelFor c) sh ⟨[(.fifo, e)], .a0, 0⟩ = some sh' ∧
      sh'.dq = absAppend c.cap sh.dq e ∧
      sh'.tok = tokAfter c.cap sh.tok sh'.dq.length ∧
      sh'.unfinished = sh.unfinished + (sh'.tok - sh.tok) := by
  have hfu : fuelFor c = 3 * c.cap + 9 + 3 := rfl
  by_cases hlt : sh.dq.length < c.cap
  · rw [hfu, runPost_step (p' := ⟨[(.fifo, e)], .a1, 0⟩) (sh' := sh) (by simp)
      (by simp [posterStep, hlt])]
    rw [if_neg (by simp)]
    rw [runPost_step (p' := ⟨[(.fifo, e)], .s0, 0⟩)
      (sh' := { sh with dq := sh.dq ++ [e], displaced := sh.displaced ++ [] }) (by simp)
      (by simp [posterStep, dqAppend_lt _ _ _ hlt, ha])]
    rw [if_neg (by simp)]
    rw [runPost_s0 c ha .fifo e _ _ 0 (by simp; omega) (by simpa using ht) (by omega)]
    exact ⟨_, rfl, by simp [absAppend, hlt], rfl, rfl⟩
  · have hfull : sh.dq.length = c.cap := by omega
    rw [hfu, runPost_step (p' := ⟨[(.fifo, e)], .b1, 0⟩) (sh' := sh) (by simp)
      (by simp [posterStep, hlt])]
    rw [if_neg (by simp)]
    rw [runPost_step (p' := ⟨[(.fifo, e)], .b2, 0⟩) (sh' := { sh with dq := dqRotate sh.dq }) (by simp)
      (by simp [posterStep])]
    rw [if_neg (by simp)]
    rw [runPost_step (p' := ⟨[(.fifo, e)], .s0, 0⟩)
      (sh' := { sh with dq := (dqAppend c.cap (dqRotate sh.dq) e).1,
                        displaced := sh.displaced ++ (dqAppend c.cap (dqRotate sh.dq) e).2 }) (by simp)
      (by simp [posterStep, ha])]
    rw [if_neg (by simp)]
    have hd := dqAppend_rotate_full c.cap sh.dq e hc hfull
    rw [runPost_s0 c ha .fifo e _ _ 0 (by simp [hd]; omega) (by simpa using ht) (by omega)]
    exact ⟨_, rfl, by simp [absAppend, hlt, hd], rfl, rfl⟩

/-- **closed form of a lifo post** (`LockingDeque.appendleft`) -/
theorem runPost_lifo (c : Config) (ha : c.alg = .tokenAfter) (hc : 0 < c.cap) (e : Ev) (sh : Shared)
    (hl : sh.dq.length ≤ c.cap) (ht : sh.tok ≤ c.cap) :
    ∃ sh', runPost c (fuelFor c) sh ⟨[(.lifo, e)], .l1, 0⟩ = some sh' ∧
      sh'.dq = absAppendLeft c.cap sh.dq e ∧
      sh'.tok = tokAfter c.cap sh.tok sh'.dq.length ∧
      sh'.unfinished = sh.unfinished + (sh'.tok - sh.tok) := by
  have hfu : fuelFor c = 3 * c.cap + 11 + 1 := rfl
  rw [hfu, runPost_step (p' := ⟨[(.lifo, e)], .s0, 0⟩)
      (sh' := { sh with dq := (dqAppendLeft c.cap sh.dq e).1,
                        displaced := sh.displaced ++ (dqAppendLeft c.cap sh.dq e).2 }) (by simp)
      (by simp [posterStep, ha])]
  rw [if_neg (by simp)]
  have hd : (dqAppendLeft c.cap sh.dq e).1 = absAppendLeft c.cap sh.dq e := by
    unfold absAppendLeft
    by_cases hlt : sh.dq.length < c.cap
    · simp [dqAppendLeft_lt _ _ _ hlt, hlt]
    · rw [if_neg hlt, dqAppendLeft_full c.cap sh.dq e hc (by omega)]
  have hlen := absAppendLeft_length_le c.cap sh.dq e hc hl
  rw [runPost_s0 c ha .lifo e _ _ 0 (by simpa [hd] using hlen) (by simpa using ht) (by omega)]
  exact ⟨_, rfl, by simp [hd], rfl, rfl⟩

/-! ### the invariant of the sequential use -/

/-- the part of the invariant that also survives a failed pop: the deque and the token queue are
within capacity, there is at least one token per event, and every token is still unacknowledged -/
def Inv0 (c : Config) (s : Seq) : Prop :=
  s.dq.length ≤ c.cap ∧ s.tok ≤ c.cap ∧ s.dq.length ≤ s.tok ∧ s.tok ≤ s.unfinished

/-- the invariant: `Inv0` and no operation has raised -/
def Inv (c : Config) (s : Seq) : Prop :=
  s.dq.length ≤ c.cap ∧ s.tok ≤ c.cap ∧ s.dq.length ≤ s.tok ∧ s.tok ≤ s.unfinished ∧ s.err = false

theorem Inv.inv0 {c : Config} {s : Seq} (h : Inv c s) : Inv0 c s := ⟨h.1, h.2.1, h.2.2.1, h.2.2.2.1⟩

theorem Inv0.init (c : Config) : Inv0 c seqInit := by simp [Inv0, seqInit]

theorem Inv.init (c : Config) : Inv c seqInit := by simp [Inv, seqInit]

/-- closed form of `append` on a state within capacity -/
theorem seqStep_append (c : Config) (acks : Bool) (ha : c.alg = .tokenAfter) (hc : 0 < c.cap) (s : Seq)
    (e : Ev) (hl : s.dq.length ≤ c.cap) (ht : s.tok ≤ c.cap) :
    seqStep c acks s (.append e) =
      ({ s with dq := absAppend c.cap s.dq e,
                tok := tokAfter c.cap s.tok (absAppend c.cap s.dq e).length,
                unfinished := s.unfinished + (tokAfter c.cap s.tok (absAppend c.cap s.dq e).length - s.tok) },
       "None") := by
  obtain ⟨sh', hr, h1, h2, h3⟩ := runPost_fifo c ha hc e ⟨s.dq, s.tok, s.unfinished, []⟩ hl ht
  have hs : startPc c.alg .fifo = .a0 := by rw [ha]; rfl
  simp only [seqStep, hs, hr]
  simp only at h1 h2 h3
  rw [h3, h2, h1]

/-- closed form of `appendleft` on a state within capacity -/
theorem seqStep_appendleft (c : Config) (acks : Bool) (ha : c.alg = .tokenAfter) (hc : 0 < c.cap) (s : Seq)
    (e : Ev) (hl : s.dq.length ≤ c.cap) (ht : s.tok ≤ c.cap) :
    seqStep c acks s (.appendleft e) =
      ({ s with dq := absAppendLeft c.cap s.dq e,
                tok := tokAfter c.cap s.tok (absAppendLeft c.cap s.dq e).length,
                unfinished := s.unfinished + (tokAfter c.cap s.tok (absAppendLeft c.cap s.dq e).length - s.tok) },
       "None") := by
  obtain ⟨sh', hr, h1, h2, h3⟩ := runPost_lifo c ha hc e ⟨s.dq, s.tok, s.unfinished, []⟩ hl ht
  have hs : startPc c.alg .lifo = .l1 := by rw [ha]; rfl
  simp only [seqStep, hs, hr]
  simp only at h1 h2 h3
  rw [h3, h2, h1]

theorem seqStep_pop_nil (c : Config) (acks : Bool) (s : Seq) (h : s.dq = []) :
    seqStep c acks s .pop = ({ s with err := true }, "IndexError") := by
  simp [seqStep, h]

theorem seqStep_pop_ne (c : Config) (acks : Bool) (s : Seq) (h : s.dq ≠ []) :
    (seqStep c acks s .pop).1 = { s with dq := s.dq.dropLast } := by
  unfold seqStep
  cases hg : s.dq.getLast? with
  | none => simp at hg; exact absurd hg h
  | some x => rfl

theorem seqStep_popleft_nil (c : Config) (acks : Bool) (s : Seq) (h : s.dq = []) :
    seqStep c acks s .popleft = ({ s with err := true }, "IndexError") := by
  simp [seqStep, h]

theorem seqStep_popleft_ne (c : Config) (acks : Bool) (s : Seq) (h : s.dq ≠ []) :
    (seqStep c acks s .popleft).1 = { s with dq := s.dq.tail } := by
  unfold seqStep
  cases hd : s.dq with
  | nil => exact absurd hd h
  | cons x rest => rfl

theorem seqStep_clear (c : Config) (s : Seq) (h : s.tok ≤ s.unfinished) :
    seqStep c true s .clear = ({ s with dq := [], tok := 0, unfinished := s.unfinished - s.tok }, "None") := by
  have : ¬ s.unfinished < s.tok := by omega
  simp [seqStep, this]

theorem seqStep_len (c : Config) (acks : Bool) (s : Seq) :
    seqStep c acks s .len = (s, toString s.dq.length) := rfl

/-- every operation preserves `Inv0` (a failed pop changes only the error flag) -/
theorem Inv0.step {c : Config} (ha : c.alg = .tokenAfter) (hc : 0 < c.cap) {s : Seq} (h : Inv0 c s)
    (o : SOp) : Inv0 c (seqStep c true s o).1 := by
  obtain ⟨h1, h2, h3, h4⟩ := h
  cases o with
  | append e =>
    rw [seqStep_append c true ha hc s e h1 h2]
    have hl := absAppend_length c.cap s.dq e hc h1
    simp only [Inv0, tokAfter, hl]
    omega
  | appendleft e =>
    rw [seqStep_appendleft c true ha hc s e h1 h2]
    have hl := absAppendLeft_length c.cap s.dq e hc h1
    simp only [Inv0, tokAfter, hl]
    omega
  | pop =>
    by_cases hd : s.dq = []
    · rw [seqStep_pop_nil c true s hd]; exact ⟨h1, h2, h3, h4⟩
    · rw [seqStep_pop_ne c true s hd]
      simp only [Inv0, List.length_dropLast]
      omega
  | popleft =>
    by_cases hd : s.dq = []
    · rw [seqStep_popleft_nil c true s hd]; exact ⟨h1, h2, h3, h4⟩
    · rw [seqStep_popleft_ne c true s hd]
      simp only [Inv0, List.length_tail]
      omega
  | clear =>
    rw [seqStep_clear c s h4]
    simp [Inv0]
  | len => exact ⟨h1, h2, h3, h4⟩

theorem Inv0.run {c : Config} (ha : c.alg = .tokenAfter) (hc : 0 < c.cap) (ops : List SOp) :
    ∀ {s : Seq}, Inv0 c s → Inv0 c (seqRun c true s ops) := by
  induction ops with
  | nil => intro s h; exact h
  | cons o rest ih => intro s h; exact ih (h.step ha hc o)

/-- the deque after an operation is the abstract bounded deque's (also for a failed pop) -/
theorem seqStep_dq {c : Config} (ha : c.alg = .tokenAfter) (hc : 0 < c.cap) {s : Seq} (h : Inv0 c s)
    (o : SOp) : (seqStep c true s o).1.dq = absStep c.cap s.dq o := by
  obtain ⟨h1, h2, h3, h4⟩ := h
  cases o with
  | append e => rw [seqStep_append c true ha hc s e h1 h2]; rfl
  | appendleft e => rw [seqStep_appendleft c true ha hc s e h1 h2]; rfl
  | pop =>
    by_cases hd : s.dq = []
    · rw [seqStep_pop_nil c true s hd]; simp [absStep, hd]
    · rw [seqStep_pop_ne c true s hd]; rfl
  | popleft =>
    by_cases hd : s.dq = []
    · rw [seqStep_popleft_nil c true s hd]; simp [absStep, hd]
    · rw [seqStep_popleft_ne c true s hd]; rfl
  | clear => rw [seqStep_clear c s h4]; rfl
  | len => rfl

theorem seqRun_dq {c : Config} (ha : c.alg = .tokenAfter) (hc : 0 < c.cap) (ops : List SOp) :
    ∀ {s : Seq}, Inv0 c s → (seqRun c true s ops).dq = ops.foldl (absStep c.cap) s.dq := by
  induction ops with
  | nil => intro s _; rfl
  | cons o rest ih =>
    intro s h
    simp only [seqRun, List.foldl_cons]
    rw [ih (h.step ha hc o), seqStep_dq ha hc h o]

/-- an operation raises exactly when it is a pop/popleft on an empty deque -/
theorem seqStep_err {c : Config} (ha : c.alg = .tokenAfter) (hc : 0 < c.cap) {s : Seq} (h : Inv0 c s)
    (o : SOp) : (seqStep c true s o).1.err = false ↔ (s.err = false ∧ okOp s.dq o) := by
  obtain ⟨h1, h2, h3, h4⟩ := h
  cases o with
  | append e => rw [seqStep_append c true ha hc s e h1 h2]; simp [okOp]
  | appendleft e => rw [seqStep_appendleft c true ha hc s e h1 h2]; simp [okOp]
  | pop =>
    by_cases hd : s.dq = []
    · rw [seqStep_pop_nil c true s hd]; simp [okOp, hd]
    · rw [seqStep_pop_ne c true s hd]; simp [okOp, hd]
  | popleft =>
    by_cases hd : s.dq = []
    · rw [seqStep_popleft_nil c true s hd]; simp [okOp, hd]
    · rw [seqStep_popleft_ne c true s hd]; simp [okOp, hd]
  | clear => rw [seqStep_clear c s h4]; simp [okOp]
  | len => simp [seqStep_len, okOp]

theorem seqRun_err {c : Config} (ha : c.alg = .tokenAfter) (hc : 0 < c.cap) (ops : List SOp) :
    ∀ {s : Seq}, Inv0 c s →
      ((seqRun c true s ops).err = false ↔ (s.err = false ∧ okOps c.cap s.dq ops)) := by
  induction ops with
  | nil => intro s _; simp [seqRun, okOps]
  | cons o rest ih =>
    intro s h
    simp only [seqRun, okOps]
    rw [ih (h.step ha hc o), seqStep_err ha hc h o, seqStep_dq ha hc h o]
    exact and_assoc

/-- `Inv` is preserved by every operation that is not a pop/popleft on an empty deque -/
theorem Inv.step {c : Config} (ha : c.alg = .tokenAfter) (hc : 0 < c.cap) {s : Seq} (h : Inv c s)
    (o : SOp) (ho : okOp s.dq o) : Inv c (seqStep c true s o).1 := by
  have h0 := h.inv0.step ha hc o
  have he := (seqStep_err ha hc h.inv0 o).mpr ⟨h.2.2.2.2, ho⟩
  exact ⟨h0.1, h0.2.1, h0.2.2.1, h0.2.2.2, he⟩

/-- without raw pops the tokens and the events stay in step -/
theorem seqStep_tok_eq {c : Config} (ha : c.alg = .tokenAfter) (hc : 0 < c.cap) {s : Seq} (h : Inv0 c s)
    (ht : s.tok = s.dq.length) (o : SOp) (ho : noPops [o]) :
    (seqStep c true s o).1.tok = (seqStep c true s o).1.dq.length := by
  obtain ⟨h1, h2, h3, h4⟩ := h
  cases o with
  | append e =>
    rw [seqStep_append c true ha hc s e h1 h2]
    have hl := absAppend_length c.cap s.dq e hc h1
    simp only [tokAfter, hl]
    omega
  | appendleft e =>
    rw [seqStep_appendleft c true ha hc s e h1 h2]
    have hl := absAppendLeft_length c.cap s.dq e hc h1
    simp only [tokAfter, hl]
    omega
  | pop => exact absurd ho (by simp [noPops])
  | popleft => exact absurd ho (by simp [noPops])
  | clear => rw [seqStep_clear c s h4]; rfl
  | len => exact ht

theorem noPops_cons {o : SOp} {rest : List SOp} (h : noPops (o :: rest)) : noPops [o] ∧ noPops rest := by
  cases o <;> simp_all [noPops]

theorem seqRun_tok_eq {c : Config} (ha : c.alg = .tokenAfter) (hc : 0 < c.cap) (ops : List SOp) :
    ∀ {s : Seq}, Inv0 c s → s.tok = s.dq.length → noPops ops →
      (seqRun c true s ops).tok = (seqRun c true s ops).dq.length := by
  induction ops with
  | nil => intro s _ ht _; exact ht
  | cons o rest ih =>
    intro s h ht hn
    obtain ⟨hn1, hn2⟩ := noPops_cons hn
    exact ih (h.step ha hc o) (seqStep_tok_eq ha hc h ht o hn1) hn2

/-! ### small concrete instances (for witnesses and non-vacuity checks) -/
namespace Ex

/-- a queue of capacity 2 -/
def exCfg (alg : Alg) : Config := ⟨alg, 2, false, fun _ => [], 8⟩
def a : Ev := ⟨1, 1⟩
def b : Ev := ⟨2, 2⟩
def x : Ev := ⟨3, 3⟩
def d : Ev := ⟨4, 4⟩

/-- (deque, tokens, unfinished, error flag) after `ops` on a fresh capacity-2 queue -/
def after (alg : Alg) (acks : Bool) (ops : List SOp) : List Ev × Nat × Nat × Bool :=
  let s := seqRun (exCfg alg) acks seqInit ops
  (s.dq, s.tok, s.unfinished, s.err)

end Ex

end Miros.Conc.LD
