import MirosModel.Conc.AOOwn
import MirosModel.Conc.AOArmLemmas
/-!
# Lemmas for `Miros.Conc.AOOwn`: the inductive invariant, the state after `haltDone`, the schedule that
ends the thread
-/
namespace Miros.Conc.AOOwn
open Miros.Conc.AOArm (Src newSrc trackedCount trackedIdx cancelSrc fire mem_trackedIdx
  length_trackedIdx_le)

/-- both tags repaired -/
abbrev tt : Tags := ⟨true, true⟩

/-- the inductive invariant (repaired tags) -/
structure Inv (s : State) : Prop where
  ft : ∀ (i : Nat) (x : Src), s.srcs[i]? = some x → x.flag = true → x.tracked = true
  canc : ∀ snap, s.c = .hCancel snap →
    ∀ (i : Nat) (x : Src), s.srcs[i]? = some x → x.tracked = true → i ∈ snap
  hd : s.haltDone = true →
    (s.c = .check ∨ s.c = .fin) ∧ ∀ (i : Nat) (x : Src), s.srcs[i]? = some x → x.flag = false
  rfA : s.c = .hAppend → s.runFlag = false
  rfC : ∀ snap, s.c = .hCancel snap → s.runFlag = false
  rfD : s.haltDone = true → s.runFlag = false
  ghost : s.stepsAfterHalt = 0 ∧ ∀ (i : Nat) (x : Src), s.srcs[i]? = some x → x.postsAfterStop = 0
  nd : s.c ≠ .dead
  pend : s.k.pastHalt = true → s.haltDone = false → s.c.inHandler = false → Ev.halt ∈ s.q
  sq : Ev.stop ∈ s.q → s.haltDone = false → s.c.inCancel = true
  rfF : s.runFlag = false → s.haltDone = false → s.c = .hAppend ∨ s.c.inCancel = true
  fd : s.c = .fin → s.haltDone = true
  untr : s.haltDone = true → ∀ (i : Nat) (x : Src), s.srcs[i]? = some x → x.tracked = false

theorem inv_init (cap : Nat) (arms : List (Nat × Nat)) (nPosts nMore : Nat) :
    Inv (init cap arms nPosts nMore) := by
  constructor <;> simp [init, KPc.pastHalt]

theorem inv_kStep {s s' : State} (h : Inv s) (hs : kStep s = some s') : Inv s' := by
  obtain ⟨h1, h2, h3, h4, h5, h6, h7, h8, h9, h10, h11, h12, h13⟩ := h
  unfold kStep at hs
  split at hs
  all_goals first | cases hs | skip
  all_goals constructor <;> grind [KPc.pastHalt, CPc.inHandler, CPc.inCancel]

theorem inv_cStep {s s' : State} (h : Inv s) (hs : cStep tt s = some s') : Inv s' := by
  obtain ⟨h1, h2, h3, h4, h5, h6, h7, h8, h9, h10, h11, h12, h13⟩ := h
  unfold cStep at hs
  split at hs
  · split at hs <;> cases hs <;> constructor <;> grind [KPc.pastHalt, CPc.inHandler, CPc.inCancel]
  · split at hs
    · cases hs
    · cases hs; constructor <;> grind [KPc.pastHalt, CPc.inHandler, CPc.inCancel]
    · split at hs
      · cases hs; constructor <;> grind [KPc.pastHalt, CPc.inHandler, CPc.inCancel, bump]
      · split at hs <;> cases hs <;> constructor <;>
          grind [KPc.pastHalt, CPc.inHandler, CPc.inCancel, bump, newSrc]
    · cases hs; constructor <;> grind [KPc.pastHalt, CPc.inHandler, CPc.inCancel, bump]
    · cases hs; constructor <;> grind [KPc.pastHalt, CPc.inHandler, CPc.inCancel, bump]
  · cases hs; constructor <;> grind [KPc.pastHalt, CPc.inHandler, CPc.inCancel]
  · simp only [if_true] at hs
    cases hs; constructor <;> grind [KPc.pastHalt, CPc.inHandler, CPc.inCancel, mem_trackedIdx]
  · cases hs; constructor <;> grind [KPc.pastHalt, CPc.inHandler, CPc.inCancel, cancelSrc]
  · cases hs; constructor <;> grind [KPc.pastHalt, CPc.inHandler, CPc.inCancel]
  · cases hs
  · cases hs

theorem inv_tStep {s s' : State} {i : Nat} (h : Inv s) (hs : tStep s i = some s') : Inv s' := by
  obtain ⟨h1, h2, h3, h4, h5, h6, h7, h8, h9, h10, h11, h12, h13⟩ := h
  unfold tStep at hs
  split at hs
  · cases hs
  · split at hs
    · cases hs; constructor <;> grind [KPc.pastHalt, CPc.inHandler, CPc.inCancel, fire]
    · cases hs

theorem wStep_some {s s' : State} (hs : wStep s = some s') :
    s.c = .wait ∧ s.q = [] ∧ s' = { s with c := .check } := by
  unfold wStep at hs
  split at hs
  · next h1 h2 => cases hs; exact ⟨h1, h2, rfl⟩
  · cases hs

theorem inv_wStep {s s' : State} (h : Inv s) (hs : wStep s = some s') : Inv s' := by
  obtain ⟨h1, h2, h3, h4, h5, h6, h7, h8, h9, h10, h11, h12, h13⟩ := h
  obtain ⟨hc, hq, rfl⟩ := wStep_some hs
  constructor <;> grind [KPc.pastHalt, CPc.inHandler, CPc.inCancel]

theorem inv_step {s s' : State} {t : Step} (h : Inv s) (hs : (sys tt).step s t = some s') :
    Inv s' := by
  cases t with
  | k => exact inv_kStep h hs
  | c => exact inv_cStep h hs
  | t i => exact inv_tStep h hs
  | w => exact inv_wStep h hs

theorem inv_run (sched : List Step) (s : State) (h : Inv s) : Inv ((sys tt).run s sched) :=
  (sys tt).inv_run Inv (fun _ _ _ h hs => inv_step h hs) sched s h

theorem inv_reach (cap : Nat) (arms : List (Nat × Nat)) (nPosts nMore : Nat) (sched : List Step) :
    Inv ((sys tt).run (init cap arms nPosts nMore) sched) :=
  inv_run sched _ (inv_init cap arms nPosts nMore)

/-! ### `fin` is stable (any tags) -/

theorem fin_step (g : Tags) {s s' : State} {t : Step} (hc : s.c = .fin)
    (hs : (sys g).step s t = some s') : s'.c = .fin := by
  cases t with
  | k =>
    simp only [sys, step, kStep] at hs
    split at hs <;> cases hs <;> exact hc
  | c => simp [sys, step, cStep, hc] at hs
  | t i =>
    simp only [sys, step, tStep] at hs
    split at hs
    · cases hs
    · split at hs
      · cases hs; exact hc
      · cases hs
  | w => simp [sys, step, wStep, hc] at hs

theorem fin_run (g : Tags) (sched : List Step) (s : State) (hc : s.c = .fin) :
    ((sys g).run s sched).c = .fin :=
  (sys g).inv_run (fun s => s.c = .fin) (fun _ _ _ h hs => fin_step g h hs) sched s hc

/-! ### after `haltDone` -/

/-- no timer thread has an enabled step once the handler's `stop()` is over -/
theorem tStep_none_of_haltDone {s : State} (h : Inv s) (hd : s.haltDone = true) (i : Nat) :
    tStep s i = none := by
  unfold tStep
  split
  · rfl
  · next x hx => simp [(h.hd hd).2 i x hx]

/-- a step taken after `haltDone`: `haltDone` stays, the sources are untouched, a consumer step ends the
thread -/
theorem hd_step {s s' : State} {t : Step} (h : Inv s) (hd : s.haltDone = true)
    (hs : (sys tt).step s t = some s') :
    s'.haltDone = true ∧ s'.srcs = s.srcs ∧ (t = .c → s'.c = .fin) := by
  have hc := (h.hd hd).1
  have hrf := h.rfD hd
  cases t with
  | k =>
    simp only [sys, step, kStep] at hs
    split at hs <;> cases hs <;> simp [hd]
  | c =>
    rcases hc with hc | hc
    · simp only [sys, step, cStep, hc, hrf] at hs
      cases hs
      simp [hd]
    · simp [sys, step, cStep, hc] at hs
  | t i =>
    have := tStep_none_of_haltDone h hd i
    simp only [sys, step] at hs
    rw [this] at hs
    cases hs
  | w =>
    obtain ⟨hw, _, _⟩ := wStep_some hs
    rcases hc with hc | hc <;> rw [hc] at hw <;> cases hw

theorem hd_run : ∀ (sched : List Step) (s : State), Inv s → s.haltDone = true →
    ((sys tt).run s sched).haltDone = true ∧ ((sys tt).run s sched).srcs = s.srcs ∧
    (Step.c ∈ sched → ((sys tt).run s sched).c = .fin)
  | [], s, _, hd => by simp [System.run, hd]
  | t :: l, s, h, hd => by
    cases hst : (sys tt).step s t with
    | none =>
      rw [System.run_cons_none _ l hst]
      obtain ⟨a, b, c⟩ := hd_run l s h hd
      refine ⟨a, b, fun hm => ?_⟩
      rcases List.mem_cons.mp hm with e | e
      · subst e
        have hfin : s.c = .fin := by
          rcases (h.hd hd).1 with hc | hc
          · simp [sys, step, cStep, hc, h.rfD hd] at hst
          · exact hc
        exact fin_run tt l s hfin
      · exact c e
    | some s' =>
      rw [System.run_cons_some _ l hst]
      obtain ⟨a1, b1, c1⟩ := hd_step h hd hst
      obtain ⟨a, b, c⟩ := hd_run l s' (inv_step h hst) a1
      refine ⟨a, b.trans b1, fun hm => ?_⟩
      rcases List.mem_cons.mp hm with e | e
      · exact fin_run tt l s' (c1 e.symm)
      · exact c e

/-! ### the schedule that ends the thread -/

theorem pre_le_length : ∀ q : List Ev, pre q ≤ q.length
  | [] => by simp [pre]
  | .halt :: r => by simp [pre]
  | .arm :: r => by have := pre_le_length r; simp [pre]; omega
  | .stop :: r => by have := pre_le_length r; simp [pre]; omega
  | .tick _ :: r => by have := pre_le_length r; simp [pre]; omega

theorem pre_append_of_mem : ∀ (q l : List Ev), Ev.halt ∈ q → pre (q ++ l) = pre q
  | [], _, h => by simp at h
  | .halt :: r, _, _ => by simp [pre]
  | .arm :: r, l, h => by
    have := pre_append_of_mem r l (by simpa using h); simp [pre, this]
  | .stop :: r, l, h => by
    have := pre_append_of_mem r l (by simpa using h); simp [pre, this]
  | .tick _ :: r, l, h => by
    have := pre_append_of_mem r l (by simpa using h); simp [pre, this]

/-- the invariant of the second phase: HALT has been posted -/
def Inv2 (s : State) : Prop := Inv s ∧ s.k.pastHalt = true

theorem rank_eq_zero {s : State} (h : Inv s) : rank s = 0 ↔ s.c = .fin := by
  have := h.nd
  unfold rank
  cases hc : s.c <;> simp_all
  split <;> omega

/-- while the consumer is about to look at the queue and HALT has been posted, HALT is in the queue -/
theorem halt_mem {s : State} (h : Inv2 s) (hc : s.c = .wait ∨ (s.c = .check ∧ s.runFlag = true)) :
    Ev.halt ∈ s.q := by
  obtain ⟨hi, hk⟩ := h
  apply hi.pend hk
  · cases hd : s.haltDone with
    | false => rfl
    | true =>
      have h1 := (hi.hd hd).1
      have h2 := hi.rfD hd
      rcases hc with hc | ⟨hc, hr⟩
      · rcases h1 with e | e <;> rw [e] at hc <;> cases hc
      · rw [h2] at hr; cases hr
  · rcases hc with hc | ⟨hc, _⟩ <;> simp [hc, CPc.inHandler]

theorem rank_cStep {s s' : State} (h : Inv s) (hs : cStep tt s = some s') : rank s' < rank s := by
  have hl := length_trackedIdx_le s.srcs
  have hrc := h.rfC
  unfold cStep at hs
  split at hs
  · next hc => split at hs <;> cases hs <;> simp_all [rank]
  · next hc =>
    split at hs
    · cases hs
    · next hq => cases hs; simp_all [rank]
    · next hq =>
      split at hs
      · cases hs; simp_all [rank, pre]; split <;> omega
      · split at hs <;> cases hs <;> simp_all [rank, pre] <;> split <;> omega
    · next hq => cases hs; simp_all [rank, pre]; split <;> omega
    · next hq => cases hs; simp_all [rank, pre]
  · next hc => cases hs; simp_all [rank]
  · next hc => simp only [if_true] at hs; cases hs; simp_all [rank]; omega
  · next hc => cases hs; simp_all [rank]
  · next hc => cases hs; simp_all [rank]
  · cases hs
  · cases hs

theorem cStep_enabled {s : State} (h : Inv2 s) (h0 : rank s ≠ 0) : ∃ s', cStep tt s = some s' := by
  cases hc : s.c with
  | check => by_cases hr : s.runFlag = true <;> simp [cStep, hc, hr]
  | wait =>
    have hm := halt_mem h (Or.inl hc)
    cases hq : s.q with
    | nil => rw [hq] at hm; cases hm
    | cons e rest =>
      cases e with
      | stop => simp [cStep, hc, hq]
      | tick i => simp [cStep, hc, hq]
      | halt => simp [cStep, hc, hq]
      | arm =>
        cases ha : s.arms with
        | nil => simp [cStep, hc, hq, ha]
        | cons a as =>
          simp only [cStep, hc, hq, ha]
          split <;> simp
  | hClear => simp [cStep, hc]
  | hAppend => simp [cStep, hc]
  | hCancel snap => cases snap <;> simp [cStep, hc]
  | fin => exact absurd ((rank_eq_zero h.1).mpr hc) h0
  | dead => exact absurd hc h.1.nd

theorem rank_kStep {s s' : State} (h : Inv2 s) (hs : kStep s = some s') :
    rank s' ≤ rank s ∧ s'.k.pastHalt = true := by
  have hk := h.2
  have hm := halt_mem h
  unfold kStep at hs
  split at hs
  all_goals first | cases hs | skip
  all_goals simp_all [KPc.pastHalt]
  · next n hk' =>
    unfold rank
    cases hc : s.c <;> simp_all
    · split
      · next hr => rw [pre_append_of_mem _ _ (hm hr)]; omega
      · omega
    · rw [pre_append_of_mem _ _ hm]; omega
  · simp [rank]

theorem rank_tStep {s s' : State} {i : Nat} (h : Inv2 s) (hs : tStep s i = some s') :
    rank s' ≤ rank s ∧ s'.k = s.k := by
  have hm := halt_mem h
  unfold tStep at hs
  split at hs
  · cases hs
  · split at hs
    · cases hs
      refine ⟨?_, rfl⟩
      unfold rank
      cases hc : s.c <;> simp_all
      · split
        · next hr => rw [pre_append_of_mem _ _ (hm hr)]; omega
        · omega
      · rw [pre_append_of_mem _ _ hm]; omega
    · cases hs

/-- once HALT has been posted a surplus wake-up is never enabled: a waiting consumer has HALT in its
queue -/
theorem wStep_none {s : State} (h : Inv2 s) : wStep s = none := by
  cases hw : wStep s with
  | none => rfl
  | some s' =>
    obtain ⟨hc, hq, _⟩ := wStep_some hw
    have := halt_mem h (Or.inl hc)
    rw [hq] at this; cases this

theorem inv2_step {s s' : State} {t : Step} (h : Inv2 s) (hs : (sys tt).step s t = some s') :
    Inv2 s' ∧ rank s' ≤ rank s := by
  refine ⟨⟨inv_step h.1 hs, ?_⟩, ?_⟩
  · cases t with
    | k => exact (rank_kStep h hs).2
    | c =>
      have : s'.k = s.k := by
        simp only [sys, step] at hs
        unfold cStep at hs
        repeat' split at hs
        all_goals first | cases hs | skip
        all_goals rfl
      rw [this]; exact h.2
    | t i => rw [(rank_tStep h hs).2]; exact h.2
    | w =>
      have := wStep_none h
      simp only [sys, step] at hs
      rw [this] at hs; cases hs
  · cases t with
    | k => exact (rank_kStep h hs).1
    | c => exact Nat.le_of_lt (rank_cStep h.1 hs)
    | t i => exact (rank_tStep h hs).1
    | w =>
      have := wStep_none h
      simp only [sys, step] at hs
      rw [this] at hs; cases hs

theorem run_c_fin : ∀ (m : Nat) (s : State), Inv2 s → rank s ≤ m →
    ((sys tt).run s (List.replicate m .c)).c = .fin
  | 0, s, h, hm => by
    simp only [List.replicate, System.run]
    exact (rank_eq_zero h.1).mp (by omega)
  | m + 1, s, h, hm => by
    by_cases h0 : rank s = 0
    · exact fin_run tt _ s ((rank_eq_zero h.1).mp h0)
    · obtain ⟨s', hs'⟩ := cStep_enabled h h0
      have hst : (sys tt).step s .c = some s' := hs'
      rw [List.replicate_succ, System.run_cons_some _ _ hst]
      have := rank_cStep h.1 hs'
      exact run_c_fin m s' (inv2_step h hst).1 (by omega)

theorem run_post (g : Tags) : ∀ (n : Nat) (s : State), s.k = .post n →
    ((sys g).run s (List.replicate (n + 2) .k)).k = .more s.nMore ∧
    ((sys g).run s (List.replicate (n + 2) .k)).srcs = s.srcs ∧
    ((sys g).run s (List.replicate (n + 2) .k)).c = s.c ∧
    ((sys g).run s (List.replicate (n + 2) .k)).q.length = s.q.length + n + 1
  | 0, s, h => by simp [List.replicate, System.run, sys, step, kStep, h]
  | n + 1, s, h => by
    rw [List.replicate_succ]
    simp only [System.run, sys, step, kStep, h]
    obtain ⟨a, b, c, d⟩ := run_post g n { s with q := s.q ++ [.arm], k := .post n } rfl
    refine ⟨a, b, c, d.trans ?_⟩
    simp; omega

theorem phase1 (g : Tags) (s : State) :
    ((sys g).run s (List.replicate (kLead s.k) .k)).k.pastHalt = true ∧
    ((sys g).run s (List.replicate (kLead s.k) .k)).srcs = s.srcs ∧
    ((sys g).run s (List.replicate (kLead s.k) .k)).c = s.c ∧
    ((sys g).run s (List.replicate (kLead s.k) .k)).q.length ≤ s.q.length + kLead s.k := by
  cases hk : s.k with
  | post n =>
    obtain ⟨a, b, c, d⟩ := run_post g n s hk
    simp only [kLead]
    rw [a, b, c, d]
    exact ⟨rfl, rfl, rfl, by omega⟩
  | halt => simp [kLead, System.run, sys, step, kStep, hk, KPc.pastHalt]
  | more n => simp [kLead, System.run, hk, KPc.pastHalt]
  | done => simp [kLead, System.run, hk, KPc.pastHalt]

theorem rank_le (s : State) : rank s ≤ 3 * s.q.length + s.srcs.length + 6 + snapLen s.c := by
  have := pre_le_length s.q
  unfold rank
  cases hc : s.c <;> simp [snapLen]
  all_goals first | omega | (split <;> omega)

theorem haltSched_length (s : State) : (haltSched s).length = haltMeasure s := by
  simp [haltSched, haltMeasure]

theorem haltSched_fin {s : State} (h : Inv s) : ((sys tt).run s (haltSched s)).c = .fin := by
  unfold haltSched
  rw [System.run_append]
  obtain ⟨a1, a2, a3, a4⟩ := phase1 tt s
  have i1 := inv_run (List.replicate (kLead s.k) .k) s h
  generalize (sys tt).run s (List.replicate (kLead s.k) .k) = s1 at a1 a2 a3 a4 i1
  refine run_c_fin _ s1 ⟨i1, a1⟩ ?_
  have := rank_le s1
  rw [a2, a3] at this
  unfold cBound
  omega

/-! ### progress under any round-robin-fair schedule -/

theorem kLead_eq_zero {k : KPc} : kLead k = 0 ↔ k.pastHalt = true := by
  cases k <;> simp [kLead, KPc.pastHalt]

theorem kLead_step (g : Tags) {s s' : State} {t : Step} (hs : (sys g).step s t = some s') :
    kLead s'.k ≤ kLead s.k ∧ (t = .k → kLead s.k ≠ 0 → kLead s'.k < kLead s.k) := by
  cases t with
  | k =>
    simp only [sys, step, kStep] at hs
    split at hs <;> cases hs <;> simp_all [kLead]
  | c =>
    have : s'.k = s.k := by
      simp only [sys, step] at hs
      unfold cStep at hs
      repeat' split at hs
      all_goals first | cases hs | skip
      all_goals rfl
    simp [this]
  | t i =>
    simp only [sys, step, tStep] at hs
    split at hs
    · cases hs
    · split at hs
      · cases hs; simp
      · cases hs
  | w => obtain ⟨_, _, rfl⟩ := wStep_some hs; simp

theorem kStep_enabled {s : State} (h0 : kLead s.k ≠ 0) : ∃ s', kStep s = some s' := by
  cases hk : s.k with
  | post n => cases n <;> simp [kStep, hk]
  | halt => simp [kStep, hk]
  | more n => simp [hk, kLead] at h0
  | done => simp [hk, kLead] at h0

/-- first phase, any interleaving: at least `kLead` blocks, each containing a client entry (and anything
else), get HALT posted -/
theorem fair_blocks_post (g : Tags) (s : State) (blocks : List (List Step))
    (hb : ∀ b ∈ blocks, Step.k ∈ b) (hl : kLead s.k ≤ blocks.length) :
    ((sys g).run s blocks.flatten).k.pastHalt = true := by
  have h0 := System.helper_blocks (sys g) (fun _ => True) (fun s => kLead s.k) (fun _ => Step.k)
    (fun _ _ _ _ _ => trivial) (fun _ _ _ _ hs => (kLead_step g hs).1)
    (fun s _ h0 => by
      obtain ⟨s', hs'⟩ := kStep_enabled h0
      exact ⟨s', hs', (kLead_step g (t := .k) hs').2 rfl h0⟩)
    (fun _ _ _ _ _ _ _ => rfl) blocks s trivial (fun b hbm _ => hb b hbm) hl
  exact kLead_eq_zero.mp h0

/-- second phase, any interleaving: once HALT has been posted, at least `rank s` blocks, each containing a
consumer entry (and any client, timer and surplus-wake-up entries), end the thread -/
theorem fair_blocks_fin {s : State} (h : Inv2 s) (blocks : List (List Step))
    (hb : ∀ b ∈ blocks, Step.c ∈ b) (hl : rank s ≤ blocks.length) :
    ((sys tt).run s blocks.flatten).c = .fin := by
  have h0 := System.helper_blocks (sys tt) Inv2 rank (fun _ => Step.c)
    (fun _ _ _ hi hs => (inv2_step hi hs).1) (fun _ _ _ hi hs => (inv2_step hi hs).2)
    (fun s hi h0 => by
      obtain ⟨s', hs'⟩ := cStep_enabled hi h0
      exact ⟨s', hs', rank_cStep hi.1 hs'⟩)
    (fun _ _ _ _ _ _ _ => rfl) blocks s h (fun b hbm _ => hb b hbm) hl
  have hi : Inv2 ((sys tt).run s blocks.flatten) :=
    (sys tt).inv_run Inv2 (fun _ _ _ hi hs => (inv2_step hi hs).1) _ s h
  exact (rank_eq_zero hi.1).mp h0

end Miros.Conc.AOOwn
