/-!
# The active fabric's `start()` repairing dead delivery threads (`ActiveFabricSource.start / stop / is_alive`)

Granularity: one step per client API call (a single client thread issues the calls), plus the
environment step `die k` (an exception raised by a subscriber's `append` escapes the delivery
thread of kind `k` that the handle refers to).

* `start()` sets the run flag, then runs `initiate_thread` for the fifo handle and then for the lifo
  handle.  Repaired code (`startChecksOwnThread = true`): a new thread is created iff the handle is
  `None` or its own thread is not alive.  Bad variant (`false`): the test is the whole fabric's
  `is_alive()` evaluated at that moment (for the lifo handle: after the fifo handle was possibly
  replaced).
* `is_alive()`: both handles not `None` and both their threads alive.
* `stop()` clears the flag; for the fifo handle, then the lifo handle: if not `None` and alive, the
  STOP item is put and the handle's thread joined.  Modelled as: the thread ends if it is the only
  live thread of its kind; if a kind whose handle is alive has several live threads, `stop()` does
  not return: `stuck := true`, state otherwise unchanged.  Once `stuck`, every later op is a no-op.
-/
namespace Miros.Conc.FabFault

structure Tags where
  startChecksOwnThread : Bool    -- initiate_thread tests thread_obj.is_alive() (not self.is_alive())
deriving DecidableEq, Repr

inductive Kind | fifo | lifo
deriving DecidableEq, Repr

structure State where
  hF : Option Nat             -- fifo_thread handle (a thread id)
  hL : Option Nat             -- lifo_thread handle
  live : List (Kind × Nat)    -- live delivery threads
  next : Nat                  -- next thread id
  flag : Bool                 -- the run flag (FiberThreadEvent)
  stuck : Bool                -- a stop() that can not return
  results : List Bool         -- is_alive() results in order
deriving DecidableEq, Repr

inductive Op | start | stop | die (k : Kind) | isAlive
deriving DecidableEq, Repr

def init : State :=
  { hF := none, hL := none, live := [], next := 0, flag := false, stuck := false, results := [] }

/-- the thread handle of a kind -/
def State.handle (s : State) : Kind → Option Nat
  | .fifo => s.hF
  | .lifo => s.hL

def State.setHandle (s : State) (k : Kind) (o : Option Nat) : State :=
  match k with
  | .fifo => { s with hF := o }
  | .lifo => { s with hL := o }

/-- `thread_obj is not None and thread_obj.is_alive()` -/
def threadAlive (s : State) (k : Kind) : Option Nat → Bool
  | none => false
  | some i => decide ((k, i) ∈ s.live)

/-- the handle of kind `k` refers to a live thread -/
def handleAlive (s : State) (k : Kind) : Bool := threadAlive s k (s.handle k)

/-- `ActiveFabricSource.is_alive()` -/
def fabricAlive (s : State) : Bool := handleAlive s .fifo && handleAlive s .lifo

/-- number of live delivery threads of a kind -/
def countKind (s : State) (k : Kind) : Nat := (s.live.filter fun p => p.1 = k).length

/-- both kinds have a live thread (whatever the handles say) -/
def bothLive (s : State) : Bool :=
  (s.live.any fun p => p.1 = .fifo) && (s.live.any fun p => p.1 = .lifo)

/-- `initiate_thread` for the handle of kind `k`, and the assignment of its result to the handle -/
def initiate (t : Tags) (s : State) (k : Kind) : State :=
  let keep := if t.startChecksOwnThread then handleAlive s k else fabricAlive s
  if keep then s
  else { s.setHandle k (some s.next) with live := s.live ++ [(k, s.next)], next := s.next + 1 }

/-- `start()` -/
def doStart (t : Tags) (s : State) : State :=
  initiate t (initiate t { s with flag := true } .fifo) .lifo

/-- `stop_thread` for kind `k` when the join returns: the handle's thread (the only one of its kind) ends -/
def stopKind (s : State) (k : Kind) : State :=
  if handleAlive s k then { s with live := s.live.filter fun p => p.1 ≠ k } else s

/-- the join of kind `k` can not be relied on to return: the handle is alive and the STOP item may be
taken by another live thread of that kind -/
def stopBlocked (s : State) (k : Kind) : Bool := handleAlive s k && decide (1 < countKind s k)

/-- `stop()` -/
def doStop (s : State) : State :=
  if stopBlocked s .fifo || stopBlocked s .lifo then { s with stuck := true }
  else stopKind (stopKind { s with flag := false } .fifo) .lifo

/-- the delivery thread the handle of kind `k` refers to dies (no-op if none / already dead) -/
def doDie (s : State) (k : Kind) : State :=
  match s.handle k with
  | none => s
  | some i => { s with live := s.live.filter fun p => p ≠ (k, i) }

/-- `is_alive()`; the result is recorded -/
def doIsAlive (s : State) : State := { s with results := s.results ++ [fabricAlive s] }

/-- one call (or one thread death); once `stuck`, a no-op -/
def step (t : Tags) (s : State) (op : Op) : State :=
  if s.stuck then s
  else match op with
    | .start => doStart t s
    | .stop => doStop s
    | .die k => doDie s k
    | .isAlive => doIsAlive s

def run (t : Tags) : State → List Op → State
  | s, [] => s
  | s, op :: ops => run t (step t s op) ops

/-- the answers the `is_alive()` calls of an op list ought to record: for each `isAlive`, whether
both kinds have a live thread in the state the call is issued in -/
def expectedResults (t : Tags) : State → List Op → List Bool
  | _, [] => []
  | s, op :: ops =>
    (if op = .isAlive then [bothLive s] else []) ++ expectedResults t (step t s op) ops

end Miros.Conc.FabFault
