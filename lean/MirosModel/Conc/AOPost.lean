import MirosModel.Conc.AO
/-!
# The `LockingDeque` post of a single event (algorithm `tokenAfter`): exactly one placement
-/
namespace Miros.Conc.AO
open Miros.Queue Miros.Conc.LD

theorem notPlacement_dqlen (x : String) : isPlacement ("dq.len=" ++ x) = false := by
  simp only [isPlacement, Bool.or_eq_false_iff, decide_eq_false_iff_not]
  constructor <;> intro h <;> have := congrArg String.toList h <;> simp at this

theorem notPlacement_qsize (x : String) : isPlacement ("tok.qsize=" ++ x) = false := by
  simp only [isPlacement, Bool.or_eq_false_iff, decide_eq_false_iff_not]
  constructor <;> intro h <;> have := congrArg String.toList h <;> simp at this

theorem notPlacement_dqlen' (x : String) : isPlacement (toString "dq.len=" ++ x) = false := notPlacement_dqlen x
theorem notPlacement_qsize' (x : String) : isPlacement (toString "tok.qsize=" ++ x) = false := notPlacement_qsize x
theorem isPlacement_append : isPlacement "dq.append" = true := by decide
theorem isPlacement_appendleft : isPlacement "dq.appendleft" = true := by decide
theorem isPlacement_rotate : isPlacement "dq.rotate" = false := by decide
theorem isPlacement_putok : isPlacement "tok.put=ok" = false := by decide
theorem isPlacement_putfull : isPlacement "tok.put=full" = false := by decide

/-- program counters of a post before its placement step (fifo: length test, maybe rotation, append;
lifo: appendleft) -/
def prePc : Kind → PPc → Bool
  | .fifo, .a0 | .fifo, .a1 | .fifo, .b1 | .fifo, .b2 | .lifo, .l1 => true
  | _, _ => false

/-- program counters of a post after its placement step (the token top-up loop) -/
def postPc : PPc → Bool
  | .s0 | .s1 | .s2 | .s3 => true
  | _ => false

theorem prePc_start (k : Kind) : prePc k (startPc .tokenAfter k) = true := by cases k <;> rfl

set_option linter.unusedSimpArgs false in
/-- one primitive of the post of a single event, current algorithm: before the placement the next
primitive is either not a placement and stays before it, or is the placement and leads to the token
loop; after it no primitive is a placement, and the post either continues in the token loop or ends -/
theorem posterStep_single {c : LD.Config} (ha : c.alg = .tokenAfter) {sh sh' : Shared} {p p' : Poster}
    {lbl : String} {k : Kind} {e : Ev} (hp : p.posts = [(k, e)])
    (h : posterStep c sh p = some (sh', p', lbl)) :
    (prePc k p.pc = true →
      (isPlacement lbl = false ∧ p'.posts = [(k, e)] ∧ prePc k p'.pc = true) ∨
      (isPlacement lbl = true ∧ p'.posts = [(k, e)] ∧ p'.pc = .s0)) ∧
    (postPc p.pc = true →
      isPlacement lbl = false ∧ (p'.posts = [] ∨ (p'.posts = [(k, e)] ∧ postPc p'.pc = true))) := by
  obtain ⟨posts, pc, q⟩ := p
  simp only at hp
  subst hp
  cases pc <;> cases k <;>
    simp only [posterStep, ha, prePc, postPc, nextPost, Bool.false_eq_true, false_implies, true_implies,
      and_true, true_and] at h ⊢
  all_goals (try split at h)
  all_goals
    simp only [Option.some.injEq, Prod.mk.injEq] at h
    obtain ⟨_, rfl, rfl⟩ := h
    simp [prePc, postPc, notPlacement_dqlen', notPlacement_qsize', isPlacement_append, isPlacement_appendleft,
      isPlacement_rotate, isPlacement_putok, isPlacement_putfull]


/-- the placement step on a deque that is not full: a fifo post appends at the back, a lifo post at the front,
nothing is displaced -/
theorem posterStep_place {c : LD.Config} {sh sh' : Shared} {p p' : Poster}
    {lbl : String} {k : Kind} {e : Ev} (hp : p.posts = [(k, e)]) (hpre : prePc k p.pc = true)
    (h : posterStep c sh p = some (sh', p', lbl)) (hpl : isPlacement lbl = true) (hroom : sh.dq.length < c.cap) :
    sh'.dq = (if k = .fifo then sh.dq ++ [e] else e :: sh.dq) ∧ sh'.displaced = sh.displaced ∧
    sh'.tok = sh.tok := by
  obtain ⟨posts, pc, q⟩ := p
  simp only at hp
  subst hp
  cases pc <;> cases k <;> simp only [prePc, Bool.false_eq_true] at hpre
  all_goals simp only [posterStep, hroom, if_true, dqAppend, dqAppendLeft] at h
  all_goals
    simp only [Option.some.injEq, Prod.mk.injEq] at h
    obtain ⟨rfl, rfl, rfl⟩ := h
    first
    | simp [notPlacement_dqlen', isPlacement_rotate] at hpl
    | simp

/-- the post of a single event never blocks (current algorithm) -/
theorem posterStep_enabled {c : LD.Config} (ha : c.alg = .tokenAfter) (sh : Shared) {p : Poster}
    {k : Kind} {e : Ev} (hp : p.posts = [(k, e)]) (hpc : prePc k p.pc = true ∨ postPc p.pc = true) :
    (posterStep c sh p).isSome = true := by
  obtain ⟨posts, pc, q⟩ := p
  simp only at hp
  subst hp
  cases pc <;> cases k <;> simp only [prePc, postPc, Bool.false_eq_true, or_self] at hpc
  all_goals simp only [posterStep, ha]
  all_goals (try split)
  all_goals rfl

end Miros.Conc.AO
