import MirosModel.Conc.LockingDeque
/-!
# An active object with timed sources, cancellation and stop()

Extends the `LockingDeque`/consumer system (`Miros.Conc.LD`) with

* **timer threads** (`post_event_thread_runner`, activeobject.py): `b` begin (loop test, then
  `sleep(period)` if deferred), `s` sleeping until `wake`, `k` acquiring the source's lock
  (then: flag test, `times_activated += 1`), `p` the post itself = the `LockingDeque` poster
  program, after whose last primitive the lock is released, the repeat count is checked (the
  flag is cleared when exhausted) and the loop test is made again;
* a **virtual clock** `now` (ticks); thread id 1000 advances it to the earliest wake-up time;
* **control clients** issuing `post_fifo/post_lifo(e, period, times, deferred)`, `cancel_event(id)`,
  `cancel_events(name)` and `stop()`; their primitives are: the call step (runs to the first
  primitive), lock acquisitions, the `LockingDeque` primitives of `stop()`'s STOP event, `join`.

Tags (generated): `checkBeforeStart` (capacity is checked before the timer thread exists),
`cancelEq` (ids / names compared by value), `cancelLocked` (flag test + post and flag clear are
under the source's lock).
-/
namespace Miros.Conc.AO
open Miros.Queue Miros.Conc.LD

structure Tags where
  checkBeforeStart : Bool
  cancelEq : Bool
  cancelLocked : Bool
deriving DecidableEq, Repr

inductive TmPc | b | s | k | p | fin
deriving DecidableEq, Repr

inductive Owner | timer | client (j : Nat)
deriving DecidableEq, Repr

structure Timer where
  id : Nat               -- identity of the uuid object returned to the caller
  name : Nat             -- signal of the event (its signal_name)
  nameObj : Nat          -- identity of the signal-name string object (for `is` comparison)
  kind : Kind
  period : Nat
  total : Nat            -- 0 = for ever
  deferred : Bool        -- the runner's local `deferred`
  activated : Nat
  flag : Bool            -- task_run_event
  pc : TmPc
  wake : Nat
  post : Poster
  lock : Option Owner
  nposted : Nat          -- uid counter for this source's event objects (same event object each time in Python)
  tracked : Bool         -- still in posted_events_queue
  started : Bool         -- its thread was started
  placedAt : List Nat    -- ghost: virtual instants of its deque placements
  createdAt : Nat        -- ghost: virtual instant of the call that created it
  deferred0 : Bool       -- ghost: the `deferred` argument of that call
deriving Repr

/-- client API calls -/
inductive Call
  | timed (kind : Kind) (sig period total : Nat) (deferred : Bool)
  | cancelEvent (id : Nat) (sameObject : Bool)      -- `sameObject = false`: an equal copy of the id
  | cancelEvents (name : Nat) (sameObject : Bool)
  | stop
deriving DecidableEq, Repr

inductive CPc
  | call
  | cancelLock (pending : List Nat)       -- indices of the timers still to be cancelled; head = lock being acquired
  | stopPost                              -- placing the STOP event (poster program in `post`)
  | stopJoin
deriving DecidableEq, Repr

structure Client where
  calls : List Call
  pc : CPc
  post : Poster
  results : List Nat      -- per timed call: 1 + timer index, or 0 = ActiveObjectOutOfPostedEventResources
deriving Repr

structure State where
  ld : LD.State
  now : Nat
  timers : List Timer
  clients : List Client
  maxTimers : Nat          -- QUEUE_SIZE of posted_events_queue
  stopUid : Nat
  order : List Nat         -- posted_events_queue: indices of the tracked sources, left to right
deriving Repr

def trackedCount (s : State) : Nat := s.order.length

/-- the source posts the same event object every time -/
def evOf (tm : Timer) : Ev := ⟨tm.name, 500000 + tm.id⟩

def startPost (c : LD.Config) (tm : Timer) : Timer :=
  { tm with activated := tm.activated + 1, pc := .p,
            post := ⟨[(tm.kind, evOf tm)], startPc c.alg tm.kind, 0⟩, nposted := tm.nposted + 1 }

def loopTest (g : Tags) (c : LD.Config) (s : State) (tm : Timer) : Timer :=
  if tm.flag then
    if tm.deferred then { tm with pc := .s, wake := s.now + tm.period }
    else if g.cancelLocked then { tm with deferred := true, pc := .k }
    else startPost c { tm with deferred := true }      -- unlocked code: flag test and post follow at once
  else { tm with pc := .fin }

/-- after the post's last primitive: release the lock, repeat-count check, loop test -/
def afterPost (g : Tags) (c : LD.Config) (s : State) (tm : Timer) : Timer :=
  let tm1 := { tm with lock := if g.cancelLocked then none else tm.lock }
  let tm2 := if tm1.total ≠ 0 ∧ tm1.activated ≥ tm1.total then { tm1 with flag := false } else tm1
  loopTest g c s tm2

def isPlacement (lbl : String) : Bool := lbl = "dq.append" || lbl = "dq.appendleft"

/-- one step of timer `i` -/
def timerStep (g : Tags) (c : LD.Config) (s : State) (i : Nat) : Option (State × String) :=
  match s.timers[i]? with
  | none => none
  | some tm =>
    if !tm.started then none else
    let put (tm' : Timer) (s' : State) : State := { s' with timers := s'.timers.set i tm' }
    match tm.pc with
    | .fin => none
    | .b => some (put (loopTest g c s tm) s, "begin")
    | .s => if s.now < tm.wake then none else
            some (put (if g.cancelLocked then { tm with pc := .k } else
                        (if tm.flag then startPost c tm else { tm with pc := .fin })) s, "sleep")
    | .k =>
      if tm.lock.isSome then none else
      if tm.flag then some (put (startPost c { tm with lock := some .timer }) s, "lock.acquire")
      else some (put { tm with pc := .fin } s, "lock.acquire")
    | .p =>
      match posterStep c (shared s.ld) tm.post with
      | none => none
      | some (sh, p', lbl) =>
        let ld' := s.ld.withShared sh
        let tm1 := { tm with post := p', placedAt := if isPlacement lbl then tm.placedAt ++ [s.now] else tm.placedAt }
        let s1 := { s with ld := ld' }
        if p'.posts = [] then some (put (afterPost g c s1 tm1) s1, lbl) else some (put tm1 s1, lbl)

/-- `deque.rotate(1)`: the last element moves to the front -/
def rot (l : List Nat) : List Nat :=
  match l.getLast? with
  | none => []
  | some x => x :: l.dropLast

/-- the search loop of `cancel_event(s)` over `posted_events_queue` (`order`, left to right): `n` times look at
the right end; a match is popped (and, for `cancel_event`, ends the search), a non-match is rotated to the
front.  Returns the matches in the order met and the queue afterwards. -/
def scan (hit : Nat → Bool) (first : Bool) : Nat → List Nat → List Nat → List Nat × List Nat
  | 0, order, acc => (acc, order)
  | n + 1, order, acc =>
    match order.getLast? with
    | none => (acc, order)
    | some x =>
      if hit x then
        (if first then (acc ++ [x], order.dropLast) else scan hit first n order.dropLast (acc ++ [x]))
      else scan hit first n (rot order) acc

def timerHas (s : State) (pred : Timer → Bool) (i : Nat) : Bool :=
  match s.timers[i]? with
  | some tm => pred tm
  | none => false

def finishCall (cl : Client) : Client := { cl with calls := cl.calls.tail, pc := .call }

/-- clear the flag of timer `i` and stop tracking it -/
def cancelOne (s : State) (i : Nat) : State :=
  { s with timers := s.timers.modify i fun tm => { tm with flag := false, tracked := false, lock := none } }

/-- continue a cancellation: acquire the next lock or finish -/
def cancelNext (g : Tags) (s : State) (cl : Client) (pending : List Nat) :
    Client × State :=
  if g.cancelLocked then
    match pending with
    | [] => (finishCall cl, s)
    | _ => ({ cl with pc := .cancelLock pending }, s)
  else
    (finishCall cl, pending.foldl cancelOne s)

def clientStep (g : Tags) (c : LD.Config) (s : State) (j : Nat) : Option (State × String) :=
  match s.clients[j]? with
  | none => none
  | some cl =>
    let put (cl' : Client) (s' : State) : State := { s' with clients := s'.clients.set j cl' }
    match cl.calls with
    | [] => none
    | call :: _ =>
      match cl.pc, call with
      | .call, .timed kind sig period total deferred =>
        let idx := s.timers.length
        let tm : Timer := { id := idx, name := sig, nameObj := sig, kind := kind, period := period, total := total,
                            deferred := deferred, activated := 0, flag := true, pc := .b, wake := 0,
                            post := ⟨[], .a0, 0⟩, lock := none, nposted := 0, tracked := true, started := true,
                            placedAt := [], createdAt := s.now, deferred0 := deferred }
        if trackedCount s < s.maxTimers then
          some (put { finishCall cl with results := cl.results ++ [idx + 1] }
                    { s with timers := s.timers ++ [tm], order := s.order ++ [idx] }, "call.timed=ok")
        else if g.checkBeforeStart then
          some (put { finishCall cl with results := cl.results ++ [0] } s, "call.timed=rejected")
        else
          -- the thread was started before the check; its flag is cleared, it is not tracked
          some (put { finishCall cl with results := cl.results ++ [0] }
                    { s with timers := s.timers ++ [{ tm with flag := false, tracked := false }] }, "call.timed=rejected")
      | .call, .cancelEvent id same =>
        let (ms, ord) := scan (timerHas s fun tm => tm.id = id && (g.cancelEq || same)) true s.order.length s.order []
        let (cl', s') := cancelNext g { s with order := ord } cl ms
        some (put cl' s', "call.cancel_event")
      | .call, .cancelEvents name same =>
        let (ms, ord) := scan (timerHas s fun tm => tm.name = name && (g.cancelEq || same)) false s.order.length s.order []
        let (cl', s') := cancelNext g { s with order := ord } cl ms
        some (put cl' s', "call.cancel_events")
      | .cancelLock pending, _ =>
        match pending with
        | [] => some (put (finishCall cl) s, "noop")
        | i :: rest =>
          match s.timers[i]? with
          | none => none
          | some tm =>
            if tm.lock.isSome then none else
            let s1 := cancelOne s i
            match rest with
            | [] => some (put (finishCall cl) s1, "lock.acquire")
            | _ => some (put { cl with pc := .cancelLock rest } s1, "lock.acquire")
      | .call, .stop =>
        let ld' := { s.ld with runFlag := false }
        some (put { cl with pc := .stopPost, post := ⟨[(.fifo, ⟨c.stopSig, s.stopUid⟩)], startPc c.alg .fifo, 0⟩ }
                  { s with ld := ld' }, "call.stop")
      | .stopPost, _ =>
        match posterStep c (shared s.ld) cl.post with
        | none => none
        | some (sh, p', lbl) =>
          let s1 := { s with ld := s.ld.withShared sh }
          if p'.posts = [] then some (put { cl with post := p', pc := .stopJoin } s1, lbl)
          else some (put { cl with post := p' } s1, lbl)
      | .stopJoin, _ =>
        if s.ld.cpc ≠ .fin then none else
        -- cancel every tracked source: `cancel_events(entry)` for each tracked entry, oldest first; each call
        -- cancels all sources sharing that entry's name, newest first
        let names := s.order.filterMap fun i => (s.timers[i]?).map (·.name)
        let (ms, ord) := names.foldl (fun (acc : List Nat × List Nat) nm =>
            let (m, o) := scan (timerHas s fun tm => tm.name = nm) false acc.2.length acc.2 []
            (acc.1 ++ m, o)) ([], s.order)
        let (cl', s') := cancelNext g { s with order := ord } cl ms
        some (put cl' s', "thread.join")

/-- thread ids: 0 consumer, 1..99 plain posters of `ld`, 200+i timer i, 300+j client j, 1000 the clock -/
def stepL (g : Tags) (c : LD.Config) (s : State) (tid : Nat) : Option (State × String) :=
  if tid = 1000 then
    let wakes := (s.timers.filter fun tm => tm.started && tm.pc = .s && s.now < tm.wake).map (·.wake)
    match wakes with
    | [] => none
    | w :: ws => some ({ s with now := ws.foldl min w }, "clock")
  else if tid ≥ 300 then clientStep g c s (tid - 300)
  else if tid ≥ 200 then timerStep g c s (tid - 200)
  else
    match LD.stepL c s.ld tid with
    | none => none
    | some (ld', lbl) => some ({ s with ld := ld' }, lbl)

def sys (g : Tags) (c : LD.Config) : System State Nat where
  step := fun s t => (stepL g c s t).map (·.1)

def init (c : LD.Config) (progs : List (List (Kind × Ev))) (clients : List (List Call)) (maxTimers : Nat) : State :=
  { ld := LD.init c progs, now := 0, timers := [],
    clients := clients.map fun p => ⟨p, .call, ⟨[], .a0, 0⟩, []⟩, maxTimers := maxTimers, stopUid := 800000,
    order := [] }

end Miros.Conc.AO
