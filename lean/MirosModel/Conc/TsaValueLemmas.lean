import MirosModel.Conc.Small
/-!
# Per-instance storage of thread-safe attributes (`readValue`/`writeValue`)
-/
namespace Miros.Conc.Tsa

/-- client operations on the attribute of instance `inst` -/
inductive Op
  | set (inst : Nat) (v : Int)
  | get (inst : Nat)
deriving DecidableEq, Repr

/-- storage: the per-instance table and the single shared slot of the earlier code -/
abbrev Store := List (Nat × Int) × Int

def stepOp (perInstance : Bool) (st : Store) : Op → Store × Option Int
  | .set i v => (writeValue perInstance st.1 st.2 i v, none)
  | .get i => (st, some (readValue perInstance st.1 st.2 i))

/-- run a list of operations; returns the final storage and the values read, in order -/
def runOps (perInstance : Bool) : Store → List Op → Store × List Int
  | st, [] => (st, [])
  | st, op :: ops =>
    let r := stepOp perInstance st op
    let rest := runOps perInstance r.1 ops
    (rest.1, (match r.2 with | some v => [v] | none => []) ++ rest.2)

/-- the last value written to `inst` in a history; `0` if there is none -/
def lastWrite (inst : Nat) (hist : List Op) : Int :=
  hist.foldl (fun acc op => match op with
    | .set i v => if i = inst then v else acc
    | .get _ => acc) 0

/-- the values the reads of `ops` must return, given the history `hist` before them -/
def specReads : List Op → List Op → List Int
  | _, [] => []
  | hist, .set i v :: ops => specReads (hist ++ [.set i v]) ops
  | hist, .get i :: ops => lastWrite i hist :: specReads (hist ++ [.get i]) ops

theorem read_write_same (vals : List (Nat × Int)) (sh : Int) (i : Nat) (v : Int) :
    readValue true (writeValue true vals sh i v).1 (writeValue true vals sh i v).2 i = v := by
  simp [readValue, writeValue]

theorem find?_filter_ne (j i : Nat) (h : i ≠ j) : ∀ l : List (Nat × Int),
    (l.filter (fun x => x.1 ≠ i)).find? (fun x => x.1 = j) = l.find? (fun x => x.1 = j)
  | [] => rfl
  | x :: l => by
    have ih := find?_filter_ne j i h l
    by_cases hi : x.1 = i
    · have hx : x.1 ≠ j := by omega
      rw [List.filter_cons_of_neg (by simpa using hi), List.find?_cons_of_neg (by simpa using hx)]
      exact ih
    · rw [List.filter_cons_of_pos (by simpa using hi)]
      simp only [List.find?_cons]
      rw [ih]

theorem read_write_other (vals : List (Nat × Int)) (sh : Int) {i j : Nat} (h : i ≠ j) (v : Int) :
    readValue true (writeValue true vals sh i v).1 (writeValue true vals sh i v).2 j =
      readValue true vals sh j := by
  simp only [readValue, writeValue, if_true, List.find?_cons]
  have : ((i, v).1 = j) = False := by simp [h]
  simp only [this, decide_false]
  rw [find?_filter_ne j i h]

/-- reading `inst` in a store = the last write to `inst` since, else what the store held -/
theorem read_after (inst : Nat) : ∀ (ops : List Op) (st : Store),
    readValue true (runOps true st ops).1.1 (runOps true st ops).1.2 inst =
      ops.foldl (fun acc op => match op with
        | .set i v => if i = inst then v else acc
        | .get _ => acc) (readValue true st.1 st.2 inst)
  | [], st => rfl
  | .get i :: ops, st => by
    simp only [runOps, stepOp, List.foldl_cons]
    exact read_after inst ops st
  | .set i v :: ops, st => by
    simp only [runOps, stepOp, List.foldl_cons]
    rw [read_after inst ops]
    by_cases h : i = inst
    · subst h; rw [read_write_same]; simp
    · rw [read_write_other _ _ h]; simp [h]

theorem runOps_append (pi : Bool) : ∀ (a b : List Op) (st : Store),
    runOps pi st (a ++ b) = ((runOps pi (runOps pi st a).1 b).1, (runOps pi st a).2 ++ (runOps pi (runOps pi st a).1 b).2)
  | [], b, st => by simp [runOps]
  | op :: a, b, st => by
    simp only [List.cons_append, runOps]
    rw [runOps_append pi a b]
    simp [List.append_assoc]

theorem reads_spec : ∀ (ops hist : List Op),
    (runOps true (runOps true ([], 0) hist).1 ops).2 = specReads hist ops
  | [], hist => rfl
  | .set i v :: ops, hist => by
    have := reads_spec ops (hist ++ [.set i v])
    rw [runOps_append] at this
    simp only [specReads, runOps, stepOp]
    simpa [runOps, stepOp] using this
  | .get i :: ops, hist => by
    have := reads_spec ops (hist ++ [.get i])
    rw [runOps_append] at this
    simp only [specReads, runOps, stepOp]
    have hr := read_after i hist ([], 0)
    simp only [readValue, if_true, List.find?_nil, Option.map_none, Option.getD_none] at hr
    simp only [runOps, stepOp] at this
    simp only [List.singleton_append, List.cons.injEq]
    refine ⟨?_, by simpa using this⟩
    simp only [readValue, if_true, lastWrite]
    exact hr

end Miros.Conc.Tsa
