import MirosModel.Conc.FabFault
/-!
# Lemmas for the fabric start/stop/die model (`FabFault`)

The invariant `Inv` (for the repaired tag): not stuck, thread ids in `live` are distinct, and every
live thread is the one its kind's handle refers to.
-/
namespace Miros.Conc.FabFault

/-! ### handles -/

@[simp] theorem handle_setHandle_same (s : State) (k : Kind) (o : Option Nat) :
    (s.setHandle k o).handle k = o := by
  cases k <;> rfl

theorem handle_setHandle_ne (s : State) {k k' : Kind} (o : Option Nat) (h : k' ≠ k) :
    (s.setHandle k o).handle k' = s.handle k' := by
  cases k <;> cases k' <;> first | rfl | exact absurd rfl h

@[simp] theorem live_setHandle (s : State) (k : Kind) (o : Option Nat) :
    (s.setHandle k o).live = s.live := by
  cases k <;> rfl

@[simp] theorem stuck_setHandle (s : State) (k : Kind) (o : Option Nat) :
    (s.setHandle k o).stuck = s.stuck := by
  cases k <;> rfl

@[simp] theorem flag_setHandle (s : State) (k : Kind) (o : Option Nat) :
    (s.setHandle k o).flag = s.flag := by
  cases k <;> rfl

@[simp] theorem results_setHandle (s : State) (k : Kind) (o : Option Nat) :
    (s.setHandle k o).results = s.results := by
  cases k <;> rfl

theorem handleAlive_iff (s : State) (k : Kind) :
    handleAlive s k = true ↔ ∃ i, s.handle k = some i ∧ (k, i) ∈ s.live := by
  unfold handleAlive threadAlive
  cases h : s.handle k <;> simp

theorem handleAlive_false_iff (s : State) (k : Kind) :
    handleAlive s k = false ↔ ∀ i, s.handle k = some i → (k, i) ∉ s.live := by
  unfold handleAlive threadAlive
  cases h : s.handle k <;> simp

/-! ### counting -/

theorem countKind_pos_iff (s : State) (k : Kind) : 0 < countKind s k ↔ ∃ i, (k, i) ∈ s.live := by
  unfold countKind
  rw [List.length_pos_iff_exists_mem]
  constructor
  · rintro ⟨⟨k', i⟩, hm⟩
    simp only [List.mem_filter, decide_eq_true_eq] at hm
    obtain ⟨hm, rfl⟩ := hm
    exact ⟨i, hm⟩
  · rintro ⟨i, hm⟩
    exact ⟨(k, i), by simp [List.mem_filter, hm]⟩

theorem bothLive_iff (s : State) :
    bothLive s = true ↔ (∃ i, (Kind.fifo, i) ∈ s.live) ∧ ∃ j, (Kind.lifo, j) ∈ s.live := by
  unfold bothLive
  simp only [Bool.and_eq_true, List.any_eq_true, decide_eq_true_eq, Prod.exists]
  constructor
  · rintro ⟨⟨k, i, hm, rfl⟩, ⟨k', j, hm', rfl⟩⟩
    exact ⟨⟨i, hm⟩, ⟨j, hm'⟩⟩
  · rintro ⟨⟨i, hm⟩, ⟨j, hm'⟩⟩
    exact ⟨⟨_, i, hm, rfl⟩, ⟨_, j, hm', rfl⟩⟩

theorem bothLive_eq_count (s : State) :
    bothLive s = decide (0 < countKind s .fifo ∧ 0 < countKind s .lifo) := by
  rw [Bool.eq_iff_iff, bothLive_iff, decide_eq_true_iff, countKind_pos_iff, countKind_pos_iff]

/-- a duplicate-free list all of whose members are equal has at most one element -/
theorem length_le_one_of_nodup_of_all_eq {α : Type} (a : α) :
    ∀ (l : List α), l.Nodup → (∀ x ∈ l, x = a) → l.length ≤ 1
  | [], _, _ => by simp
  | [_], _, _ => by simp
  | x :: y :: r, hn, hall => by
    have hx : x = a := hall x (by simp)
    have hy : y = a := hall y (by simp)
    subst hx; subst hy
    simp at hn

/-! ### the invariant -/

structure Inv (s : State) : Prop where
  notStuck : s.stuck = false
  nodup : s.live.Nodup
  owned : ∀ k i, (k, i) ∈ s.live → s.handle k = some i

theorem Inv_init : Inv init := ⟨rfl, List.nodup_nil, by simp [init]⟩

theorem Inv.countKind_le_one {s : State} (h : Inv s) (k : Kind) : countKind s k ≤ 1 := by
  unfold countKind
  cases hk : s.handle k with
  | none =>
    have : (s.live.filter fun p => p.1 = k) = [] := by
      rw [List.filter_eq_nil_iff]
      rintro ⟨k', i⟩ hm
      simp only [decide_eq_true_eq]
      rintro rfl
      have := h.owned _ _ hm
      simp [hk] at this
    simp [this]
  | some i =>
    apply length_le_one_of_nodup_of_all_eq (k, i)
    · exact h.nodup.filter _
    · rintro ⟨k', j⟩ hm
      simp only [List.mem_filter, decide_eq_true_eq] at hm
      obtain ⟨hm, rfl⟩ := hm
      have := h.owned _ _ hm
      rw [hk] at this
      cases this
      rfl

theorem Inv.dead_handle_no_thread {s : State} (h : Inv s) {k : Kind} (hk : handleAlive s k = false)
    (i : Nat) : (k, i) ∉ s.live := by
  intro hm
  exact (handleAlive_false_iff s k).1 hk i (h.owned k i hm) hm

theorem Inv.handleAlive_eq_count {s : State} (h : Inv s) (k : Kind) :
    handleAlive s k = decide (0 < countKind s k) := by
  rw [Bool.eq_iff_iff, decide_eq_true_iff, countKind_pos_iff, handleAlive_iff]
  constructor
  · rintro ⟨i, _, hm⟩; exact ⟨i, hm⟩
  · rintro ⟨i, hm⟩; exact ⟨i, h.owned k i hm, hm⟩

theorem Inv.fabricAlive_eq_bothLive {s : State} (h : Inv s) : fabricAlive s = bothLive s := by
  rw [bothLive_eq_count, fabricAlive, h.handleAlive_eq_count, h.handleAlive_eq_count]
  simp [Bool.decide_and]

/-! ### `initiate` / `start` (repaired tag) -/

theorem initiate_keep {t : Tags} (ht : t.startChecksOwnThread = true) {s : State} {k : Kind}
    (hk : handleAlive s k = true) : initiate t s k = s := by
  simp [initiate, ht, hk]

theorem initiate_new {t : Tags} (ht : t.startChecksOwnThread = true) {s : State} {k : Kind}
    (hk : handleAlive s k = false) :
    initiate t s k =
      { s.setHandle k (some s.next) with live := s.live ++ [(k, s.next)], next := s.next + 1 } := by
  simp [initiate, ht, hk]

theorem Inv_initiate {t : Tags} (ht : t.startChecksOwnThread = true) {s : State} (h : Inv s)
    (k : Kind) : Inv (initiate t s k) := by
  cases hk : handleAlive s k with
  | true => rw [initiate_keep ht hk]; exact h
  | false =>
    rw [initiate_new ht hk]
    refine ⟨by simpa using h.notStuck, ?_, ?_⟩
    · simp only
      rw [List.nodup_append]
      refine ⟨h.nodup, by simp, ?_⟩
      rintro a ha b hb rfl
      simp only [List.mem_singleton] at hb
      subst hb
      exact h.dead_handle_no_thread hk _ ha
    · intro k' i hm
      simp only [List.mem_append, List.mem_singleton, Prod.mk.injEq] at hm
      rcases hm with hm | ⟨rfl, rfl⟩
      · have hne : k' ≠ k := by
          rintro rfl
          exact h.dead_handle_no_thread hk _ hm
        have := h.owned k' i hm
        cases k <;> cases k' <;> first | exact absurd rfl hne | exact this
      · cases k' <;> rfl

theorem handleAlive_initiate_same {t : Tags} (ht : t.startChecksOwnThread = true) (s : State)
    (k : Kind) : handleAlive (initiate t s k) k = true := by
  cases hk : handleAlive s k with
  | true => rw [initiate_keep ht hk]; exact hk
  | false =>
    rw [initiate_new ht hk, handleAlive_iff]
    refine ⟨s.next, ?_, by simp⟩
    cases k <;> rfl

/-- `initiate_thread` either keeps everything or creates one fresh thread (whatever the tag) -/
theorem initiate_cases (t : Tags) (s : State) (k : Kind) :
    initiate t s k = s ∨
    initiate t s k =
      { s.setHandle k (some s.next) with live := s.live ++ [(k, s.next)], next := s.next + 1 } := by
  unfold initiate
  simp only
  generalize (if t.startChecksOwnThread = true then handleAlive s k else fabricAlive s) = keep
  cases keep
  · exact Or.inr rfl
  · exact Or.inl rfl

theorem live_sub_initiate (t : Tags) (s : State) (k : Kind) (p : Kind × Nat) (hp : p ∈ s.live) :
    p ∈ (initiate t s k).live := by
  rcases initiate_cases t s k with h | h <;> rw [h]
  · exact hp
  · simp [hp]

theorem handle_initiate_of_mem (t : Tags) {s : State} (k k' : Kind) {i : Nat}
    (hh : s.handle k' = some i) (hm : (k', i) ∈ s.live) (hne : k' ≠ k) :
    (initiate t s k).handle k' = some i := by
  rcases initiate_cases t s k with h | h <;> rw [h]
  · exact hh
  · cases k <;> cases k' <;> first | exact absurd rfl hne | exact hh

theorem handleAlive_initiate_other (t : Tags) {s : State} {k k' : Kind} (hne : k' ≠ k)
    (hk : handleAlive s k' = true) : handleAlive (initiate t s k) k' = true := by
  rw [handleAlive_iff] at hk ⊢
  obtain ⟨i, hh, hm⟩ := hk
  exact ⟨i, handle_initiate_of_mem t k k' hh hm hne, live_sub_initiate t s k _ hm⟩

theorem flag_initiate (t : Tags) (s : State) (k : Kind) : (initiate t s k).flag = s.flag := by
  rcases initiate_cases t s k with h | h <;> rw [h] <;> simp

theorem results_initiate (t : Tags) (s : State) (k : Kind) :
    (initiate t s k).results = s.results := by
  rcases initiate_cases t s k with h | h <;> rw [h] <;> simp

theorem Inv_doStart {t : Tags} (ht : t.startChecksOwnThread = true) {s : State} (h : Inv s) :
    Inv (doStart t s) := by
  unfold doStart
  apply Inv_initiate ht
  apply Inv_initiate ht
  exact ⟨h.notStuck, h.nodup, h.owned⟩

theorem doStart_alive {t : Tags} (ht : t.startChecksOwnThread = true) (s : State) :
    handleAlive (doStart t s) .fifo = true ∧ handleAlive (doStart t s) .lifo = true := by
  unfold doStart
  exact ⟨handleAlive_initiate_other t (by decide) (handleAlive_initiate_same ht _ _),
    handleAlive_initiate_same ht _ _⟩

theorem live_sub_doStart (t : Tags) (s : State) (p : Kind × Nat) (hp : p ∈ s.live) :
    p ∈ (doStart t s).live := by
  unfold doStart
  exact live_sub_initiate t _ _ p (live_sub_initiate t _ _ p hp)

theorem flag_doStart (t : Tags) (s : State) : (doStart t s).flag = true := by
  unfold doStart
  rw [flag_initiate, flag_initiate]

theorem results_doStart (t : Tags) (s : State) : (doStart t s).results = s.results := by
  unfold doStart
  rw [results_initiate, results_initiate]

/-! ### `die` -/

theorem Inv_doDie {s : State} (h : Inv s) (k : Kind) : Inv (doDie s k) := by
  unfold doDie
  split
  · exact h
  · refine ⟨h.notStuck, h.nodup.filter _, ?_⟩
    intro k' i hm
    simp only [List.mem_filter] at hm
    exact h.owned k' i hm.1

theorem results_doDie (s : State) (k : Kind) : (doDie s k).results = s.results := by
  unfold doDie
  split <;> rfl

/-! ### `stop` -/

theorem Inv.stopBlocked_false {s : State} (h : Inv s) (k : Kind) : stopBlocked s k = false := by
  unfold stopBlocked
  have := h.countKind_le_one k
  simp only [Bool.and_eq_false_iff, decide_eq_false_iff_not]
  exact Or.inr (by omega)

theorem doStop_of_Inv {s : State} (h : Inv s) :
    doStop s = stopKind (stopKind { s with flag := false } .fifo) .lifo := by
  simp [doStop, h.stopBlocked_false]

theorem Inv_stopKind {s : State} (h : Inv s) (k : Kind) : Inv (stopKind s k) := by
  unfold stopKind
  split
  · refine ⟨h.notStuck, h.nodup.filter _, ?_⟩
    intro k' i hm
    simp only [List.mem_filter] at hm
    exact h.owned k' i hm.1
  · exact h

theorem flag_stopKind (s : State) (k : Kind) : (stopKind s k).flag = s.flag := by
  unfold stopKind
  split <;> rfl

theorem results_stopKind (s : State) (k : Kind) : (stopKind s k).results = s.results := by
  unfold stopKind
  split <;> rfl

theorem live_sub_stopKind (s : State) (k : Kind) (p : Kind × Nat) (hp : p ∈ (stopKind s k).live) :
    p ∈ s.live := by
  unfold stopKind at hp
  split at hp
  · simp only [List.mem_filter] at hp
    exact hp.1
  · exact hp

/-- under the invariant `stop_thread` leaves no live thread of its kind -/
theorem Inv.no_thread_stopKind {s : State} (h : Inv s) (k : Kind) (i : Nat) :
    (k, i) ∉ (stopKind s k).live := by
  unfold stopKind
  cases hk : handleAlive s k with
  | true => simp
  | false => simpa using h.dead_handle_no_thread hk i

theorem Inv_doStop {s : State} (h : Inv s) : Inv (doStop s) := by
  rw [doStop_of_Inv h]
  apply Inv_stopKind
  apply Inv_stopKind
  exact ⟨h.notStuck, h.nodup, h.owned⟩

theorem live_doStop {s : State} (h : Inv s) : (doStop s).live = [] := by
  rw [doStop_of_Inv h]
  have h0 : Inv { s with flag := false } := ⟨h.notStuck, h.nodup, h.owned⟩
  have h1 : Inv (stopKind { s with flag := false } .fifo) := Inv_stopKind h0 _
  rw [List.eq_nil_iff_forall_not_mem]
  rintro ⟨k, i⟩ hm
  cases k with
  | lifo => exact h1.no_thread_stopKind .lifo i hm
  | fifo => exact h0.no_thread_stopKind .fifo i (live_sub_stopKind _ _ _ hm)

theorem flag_doStop {s : State} (h : Inv s) : (doStop s).flag = false := by
  rw [doStop_of_Inv h, flag_stopKind, flag_stopKind]

theorem results_doStop {s : State} (h : Inv s) : (doStop s).results = s.results := by
  rw [doStop_of_Inv h, results_stopKind, results_stopKind]

theorem fabricAlive_of_live_nil {s : State} (h : s.live = []) : fabricAlive s = false := by
  have : handleAlive s .fifo = false := by
    rw [handleAlive_false_iff]; simp [h]
  simp [fabricAlive, this]

/-! ### steps and runs -/

theorem Inv_doIsAlive {s : State} (h : Inv s) : Inv (doIsAlive s) :=
  ⟨h.notStuck, h.nodup, h.owned⟩

theorem step_of_Inv (t : Tags) {s : State} (h : Inv s) (op : Op) :
    step t s op = match op with
      | .start => doStart t s
      | .stop => doStop s
      | .die k => doDie s k
      | .isAlive => doIsAlive s := by
  cases op <;> simp [step, h.notStuck]

theorem Inv_step {t : Tags} (ht : t.startChecksOwnThread = true) {s : State} (h : Inv s) (op : Op) :
    Inv (step t s op) := by
  rw [step_of_Inv t h]
  cases op with
  | start => exact Inv_doStart ht h
  | stop => exact Inv_doStop h
  | die k => exact Inv_doDie h k
  | isAlive => exact Inv_doIsAlive h

theorem Inv_run {t : Tags} (ht : t.startChecksOwnThread = true) :
    ∀ (ops : List Op) (s : State), Inv s → Inv (run t s ops)
  | [], _, h => h
  | op :: ops, _, h => Inv_run ht ops _ (Inv_step ht h op)

theorem run_append (t : Tags) : ∀ (a b : List Op) (s : State),
    run t s (a ++ b) = run t (run t s a) b
  | [], _, _ => rfl
  | op :: a, b, s => by
    simp only [List.cons_append, run]
    exact run_append t a b _

theorem run_snoc (t : Tags) (ops : List Op) (op : Op) (s : State) :
    run t s (ops ++ [op]) = step t (run t s ops) op := by
  rw [run_append]; rfl

/-- results of one step under the invariant: `isAlive` appends "both kinds have a live thread",
every other op leaves the results alone -/
theorem results_step {t : Tags} {s : State} (h : Inv s) (op : Op) :
    (step t s op).results = s.results ++ (if op = .isAlive then [bothLive s] else []) := by
  rw [step_of_Inv t h]
  cases op with
  | start => simp [results_doStart]
  | stop => simp [results_doStop h]
  | die k => simp [results_doDie]
  | isAlive => simp [doIsAlive, h.fabricAlive_eq_bothLive]

theorem results_run {t : Tags} (ht : t.startChecksOwnThread = true) :
    ∀ (ops : List Op) (s : State), Inv s →
      (run t s ops).results = s.results ++ expectedResults t s ops
  | [], _, _ => by simp [run, expectedResults]
  | op :: ops, s, h => by
    simp only [run, expectedResults]
    rw [results_run ht ops _ (Inv_step ht h op), results_step h op, List.append_assoc]

end Miros.Conc.FabFault
