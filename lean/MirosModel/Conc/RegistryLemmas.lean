import MirosModel.Conc.Small
import MirosModel.Conc.SysLemmas
/-!
# The signal registry: sequential `append`/`get`/`nameFor`, and the invariant of the locked
concurrent `append`
-/
namespace Miros.Conc.Registry

/-- well-formed dictionary: names distinct, numbers exactly `1..length` in insertion order -/
def DictWF (d : Dict) : Prop := (d.map (·.1)).Nodup ∧ d.map (·.2) = List.range' 1 d.length

/-! ### lookup in lists of pairs -/

theorem find?_of_nodup_map {α β : Type} [DecidableEq β] (f : α → β) :
    ∀ {l : List α}, (l.map f).Nodup → ∀ {a : α}, a ∈ l → l.find? (fun x => f x = f a) = some a
  | [], _, _, ha => by simp at ha
  | b :: l, h, a, ha => by
    simp only [List.map_cons, List.nodup_cons] at h
    simp only [List.find?_cons]
    rcases List.mem_cons.mp ha with rfl | ha'
    · simp
    · have : f b ≠ f a := by
        intro hb
        exact h.1 (hb ▸ List.mem_map_of_mem ha')
      simp only [this, decide_false]
      exact find?_of_nodup_map f h.2 ha'

theorem get_eq_none_iff {d : Dict} {n : Nat} : d.get n = none ↔ n ∉ d.map (·.1) := by
  simp [Dict.get, List.find?_eq_none]
  constructor
  · intro h k hk; exact h _ _ hk rfl
  · intro h a b hab hn; subst hn; exact h b hab

theorem get_isSome_iff {d : Dict} {n : Nat} : (d.get n).isSome ↔ n ∈ d.map (·.1) := by
  have := @get_eq_none_iff d n
  cases hg : d.get n with
  | none => simp [hg] at this ⊢; simpa using this
  | some k => simp [hg] at this ⊢; simpa using this

theorem mem_of_get {d : Dict} {n k : Nat} (h : d.get n = some k) : (n, k) ∈ d := by
  simp only [Dict.get, Option.map_eq_some_iff] at h
  obtain ⟨x, hx, rfl⟩ := h
  have h1 := List.find?_some hx
  have h2 := List.mem_of_find?_eq_some hx
  simp at h1
  rw [← h1]; exact h2

theorem mem_of_nameFor {d : Dict} {n k : Nat} (h : d.nameFor k = some n) : (n, k) ∈ d := by
  simp only [Dict.nameFor, Option.map_eq_some_iff] at h
  obtain ⟨x, hx, rfl⟩ := h
  have h1 := List.find?_some hx
  have h2 := List.mem_of_find?_eq_some hx
  simp at h1
  rw [← h1]; exact h2

theorem get_of_mem {d : Dict} (h : (d.map (·.1)).Nodup) {n k : Nat} (hm : (n, k) ∈ d) :
    d.get n = some k := by
  have := find?_of_nodup_map (fun x : Nat × Nat => x.1) h hm
  simp only [Dict.get]
  simp only at this
  rw [this]; rfl

theorem nameFor_of_mem {d : Dict} (h : (d.map (·.2)).Nodup) {n k : Nat} (hm : (n, k) ∈ d) :
    d.nameFor k = some n := by
  have := find?_of_nodup_map (fun x : Nat × Nat => x.2) h hm
  simp only [Dict.nameFor]
  simp only at this
  rw [this]; rfl

theorem DictWF.values_nodup {d : Dict} (h : DictWF d) : (d.map (·.2)).Nodup := by
  rw [h.2]; exact List.nodup_range'

theorem DictWF.get_iff_mem {d : Dict} (h : DictWF d) {n k : Nat} : d.get n = some k ↔ (n, k) ∈ d :=
  ⟨mem_of_get, get_of_mem h.1⟩

theorem DictWF.nameFor_iff_mem {d : Dict} (h : DictWF d) {n k : Nat} :
    d.nameFor k = some n ↔ (n, k) ∈ d :=
  ⟨mem_of_nameFor, nameFor_of_mem h.values_nodup⟩

theorem DictWF.value_range {d : Dict} (h : DictWF d) {n k : Nat} (hm : (n, k) ∈ d) :
    1 ≤ k ∧ k ≤ d.length := by
  have : k ∈ d.map (·.2) := List.mem_map_of_mem (f := (·.2)) hm
  rw [h.2, List.mem_range'_1] at this
  omega

/-! ### sequential `append` -/

theorem append_of_isSome {d : Dict} {n : Nat} (h : (d.get n).isSome) : d.append n = d := by
  simp [Dict.append, h]

theorem append_of_none {d : Dict} {n : Nat} (h : d.get n = none) :
    d.append n = d ++ [(n, d.length + 1)] := by
  simp [Dict.append, h]

/-- adding a fresh name with the next number keeps the dictionary well formed -/
theorem DictWF.snoc {d : Dict} (h : DictWF d) {n : Nat} (hn : d.get n = none) :
    DictWF (d ++ [(n, d.length + 1)]) := by
  constructor
  · rw [List.map_append, List.nodup_append]
    refine ⟨h.1, by simp, ?_⟩
    intro a ha b hb
    simp at hb
    subst hb
    intro hab; subst hab
    exact get_eq_none_iff.mp hn ha
  · rw [List.map_append, h.2, List.length_append, List.length_singleton, List.range'_1_concat]
    simp [Nat.add_comm]

theorem DictWF.append {d : Dict} (h : DictWF d) (n : Nat) : DictWF (d.append n) := by
  cases hg : d.get n with
  | some k => rw [append_of_isSome (by simp [hg])]; exact h
  | none => rw [append_of_none hg]; exact h.snoc hg

theorem DictWF.foldl_append {d : Dict} (h : DictWF d) (names : List Nat) :
    DictWF (names.foldl Dict.append d) := by
  induction names generalizing d with
  | nil => exact h
  | cons n ns ih => exact ih (h.append n)

theorem get_append_left {d e : Dict} {n k : Nat} (h : d.get n = some k) : (d ++ e).get n = some k := by
  simp only [Dict.get, Option.map_eq_some_iff] at h ⊢
  obtain ⟨x, hx, rfl⟩ := h
  exact ⟨x, by rw [List.find?_append, hx]; rfl, rfl⟩

theorem append_prefix (d : Dict) (n : Nat) : ∃ e, d.append n = d ++ e := by
  unfold Dict.append
  split
  · exact ⟨[], by simp⟩
  · exact ⟨_, rfl⟩

theorem foldl_append_prefix (names : List Nat) : ∀ d : Dict, ∃ e, names.foldl Dict.append d = d ++ e := by
  induction names with
  | nil => intro d; exact ⟨[], by simp⟩
  | cons n ns ih =>
    intro d
    obtain ⟨e1, h1⟩ := append_prefix d n
    obtain ⟨e2, h2⟩ := ih (d.append n)
    exact ⟨e1 ++ e2, by rw [List.foldl_cons, h2, h1, List.append_assoc]⟩

theorem get_append_stable {d : Dict} {n k : Nat} (m : Nat) (h : d.get n = some k) :
    (d.append m).get n = some k := by
  obtain ⟨e, he⟩ := append_prefix d m
  rw [he]; exact get_append_left h

theorem get_append_self (d : Dict) (n : Nat) : ((d.append n).get n).isSome := by
  cases hg : d.get n with
  | some k => rw [append_of_isSome (by simp [hg])]; simp [hg]
  | none =>
    rw [append_of_none hg, get_isSome_iff]
    simp

theorem append_idem (d : Dict) (n : Nat) : (d.append n).append n = d.append n :=
  append_of_isSome (get_append_self d n)

/-- a fresh name gets the next number -/
theorem DictWF.get_append_new {d : Dict} (h : DictWF d) {n : Nat} (hn : d.get n = none) :
    (d.append n).get n = some (d.length + 1) := by
  rw [append_of_none hn]
  exact get_of_mem (h.snoc hn).1 (by simp)

theorem foldl_append_registered (names : List Nat) : ∀ (d : Dict) (n : Nat),
    n ∈ names ∨ (d.get n).isSome → ((names.foldl Dict.append d).get n).isSome := by
  induction names with
  | nil => intro d n h; simpa using h
  | cons m ns ih =>
    intro d n h
    rw [List.foldl_cons]
    apply ih
    rcases h with h | h
    · rcases List.mem_cons.mp h with rfl | h
      · exact Or.inr (get_append_self d n)
      · exact Or.inl h
    · right
      obtain ⟨k, hk⟩ := Option.isSome_iff_exists.mp h
      rw [get_append_stable m hk]; rfl

/-- a well-formed dictionary split in two: the first part is well formed, the second continues the
numbering and shares no name with the first -/
theorem DictWF.of_append {d e : Dict} (h : DictWF (d ++ e)) :
    DictWF d ∧ e.map (·.2) = List.range' (1 + d.length) e.length ∧ ∀ x ∈ e, x.1 ∉ d.map (·.1) := by
  obtain ⟨hn, hv⟩ := h
  rw [List.map_append, List.nodup_append] at hn
  rw [List.map_append, List.length_append, ← List.range'_append_1] at hv
  have := List.append_inj hv (by simp)
  refine ⟨⟨hn.1, this.1⟩, this.2, ?_⟩
  intro x hx hmem
  exact hn.2.2 _ hmem _ (List.mem_map_of_mem hx) rfl

/-- `is_inner_signal`: the names whose numbers are among the first `highest_inner_signal = 10` values -/
def innerNames (d : Dict) : List Nat := (d.take 10).map (·.1)

/-- `Event(signal=x)`: `x = inl name` registers the name if it is new; `x = inr number` looks the
name up (`name_for_signal`). Returns the dictionary afterwards and the `(name, number)` reported. -/
def eventOf (d : Dict) : Nat ⊕ Nat → Dict × Option (Nat × Nat)
  | .inl name => (d.append name, ((d.append name).get name).map fun k => (name, k))
  | .inr number => (d, (d.nameFor number).map fun n => (n, number))

/-! ### the concurrent `append` under the lock -/

/-- between `acquire` and the end of `release` -/
def InCrit : Pc → Prop
  | .contains | .len | .setitem | .release => True
  | _ => False

theorem nextName_names (t : Thread) : (nextName true t).names = t.names.tail := by
  unfold nextName; split <;> simp_all

theorem nextName_pc (t : Thread) :
    (nextName true t).pc = if t.names.tail = [] then .done else .acquire := by
  unfold nextName; split <;> simp_all [firstPc]

theorem get_isSome_append_left {d e : Dict} {n : Nat} (h : (d.get n).isSome) : ((d ++ e).get n).isSome := by
  obtain ⟨k, hk⟩ := Option.isSome_iff_exists.mp h
  rw [get_append_left hk]; rfl

theorem get_snoc_self (d : Dict) (n k : Nat) : ((d ++ [(n, k)]).get n).isSome := by
  rw [get_isSome_iff]; simp

/-- what holds of thread `i` in state `s` -/
def ThreadOK (s : State) (i : Nat) (t : Thread) : Prop :=
  (InCrit t.pc → s.lock = some i) ∧
  (t.pc = .done ↔ t.names = []) ∧
  (t.pc = .len ∨ t.pc = .setitem → ∀ name rest, t.names = name :: rest → s.dict.get name = none) ∧
  (t.pc = .setitem → t.n = s.dict.length) ∧
  (t.pc = .release → ∀ name rest, t.names = name :: rest → (s.dict.get name).isSome)

/-- the inductive invariant of the locked variant, started from dictionary `d0` with programs `progs` -/
structure Inv (d0 : Dict) (progs : List (List Nat)) (s : State) : Prop where
  wf : DictWF s.dict
  ext : ∃ e, s.dict = d0 ++ e
  owner : ∀ j, s.lock = some j → ∃ t, s.threads[j]? = some t ∧ InCrit t.pc
  thr : ∀ (i : Nat) (t : Thread), s.threads[i]? = some t → ThreadOK s i t
  cover : ∀ (i : Nat) (t : Thread) (p : List Nat), s.threads[i]? = some t → progs[i]? = some p →
    ∀ name ∈ p, name ∈ t.names ∨ (s.dict.get name).isSome
  len : s.threads.length = progs.length

theorem Inv.init {d0 : Dict} (h0 : DictWF d0) (progs : List (List Nat)) :
    Inv d0 progs (init true d0 progs) := by
  refine ⟨h0, ⟨[], by simp [Registry.init]⟩, by simp [Registry.init], ?_, ?_, by simp [Registry.init]⟩
  · intro i t ht
    simp only [Registry.init, List.getElem?_map, Option.map_eq_some_iff] at ht
    obtain ⟨p, _, rfl⟩ := ht
    cases p <;> simp [ThreadOK, InCrit, firstPc]
  · intro i t p ht hp name hn
    simp only [Registry.init, List.getElem?_map, hp, Option.map_some, Option.some.injEq] at ht
    subst ht
    cases p with
    | nil => simp at hn
    | cons a l => exact Or.inl hn

theorem Inv.step {d0 : Dict} {progs : List (List Nat)} {s s' : State} {i : Nat}
    (hI : Inv d0 progs s) (h : step true s i = some s') : Inv d0 progs s' := by
  unfold Registry.step at h
  split at h
  · cases h
  · rename_i t ht
    have hlt : i < s.threads.length := (List.getElem?_eq_some_iff.mp ht).1
    have hT := hI.thr i t ht
    obtain ⟨h1, h2, h3, h4, h5, h6⟩ := hI
    split at h
    · cases h
    · rename_i name rest hnames
      split at h
      · cases h
      · -- acquire
        split at h
        · cases h
        · cases h
          refine ⟨h1, h2, ?_, ?_, ?_, by simpa using h6⟩
          all_goals grind [InCrit, ThreadOK]
      · -- contains
        simp only [if_true] at h
        split at h
        · cases h
          refine ⟨h1, h2, ?_, ?_, ?_, by simpa using h6⟩
          all_goals grind [InCrit, ThreadOK]
        · cases h
          rename_i hns
          have hnone : s.dict.get name = none := by simpa using hns
          refine ⟨h1, h2, ?_, ?_, ?_, by simpa using h6⟩
          all_goals grind [InCrit, ThreadOK]
      · -- len
        cases h
        refine ⟨h1, h2, ?_, ?_, ?_, by simpa using h6⟩
        all_goals grind [InCrit, ThreadOK]
      · -- setitem
        rename_i hpc
        have hnone : s.dict.get name = none := hT.2.2.1 (Or.inr hpc) name rest hnames
        have hn : t.n = s.dict.length := hT.2.2.2.1 hpc
        simp only [hnone, Option.isSome_none, Bool.false_eq_true, if_false, if_true, hn] at h
        cases h
        have hwf := h1.snoc hnone
        obtain ⟨e, he⟩ := h2
        refine ⟨hwf, ⟨e ++ [(name, s.dict.length + 1)], by simp [he]⟩, ?_, ?_, ?_, by simpa using h6⟩
        · grind [InCrit, ThreadOK]
        · have := get_snoc_self s.dict name (s.dict.length + 1)
          grind [InCrit, ThreadOK]
        · have := @get_isSome_append_left s.dict [(name, s.dict.length + 1)]
          grind
      · -- release
        cases h
        refine ⟨h1, h2, ?_, ?_, ?_, by simpa using h6⟩
        · grind [InCrit, ThreadOK]
        · have := nextName_names t
          have := nextName_pc t
          grind [InCrit, ThreadOK]
        · have := nextName_names t
          grind [InCrit, ThreadOK]

theorem Inv.run {d0 : Dict} (h0 : DictWF d0) (progs : List (List Nat)) (sched : List Nat) :
    Inv d0 progs ((sys true).run (Registry.init true d0 progs) sched) :=
  (sys true).inv_run (Inv d0 progs) (fun _ _ _ hI h => hI.step h) sched _ (Inv.init h0 progs)

/-- the invariant restarted from a later state: the dictionary only grows from there -/
theorem Inv.restart {d0 : Dict} {progs : List (List Nat)} {s : State} (hI : Inv d0 progs s) :
    Inv s.dict progs s :=
  { hI with ext := ⟨[], by simp⟩ }

/-- every thread that still has names to register and is not waiting for a held lock can move -/
theorem enabled {s : State} {i : Nat} {t : Thread} (ht : s.threads[i]? = some t)
    (hn : t.names ≠ []) (hd : t.pc ≠ .done) (ha : t.pc = .acquire → s.lock = none) :
    step true s i ≠ none := by
  unfold Registry.step
  simp only [ht]
  cases hnames : t.names with
  | nil => exact absurd hnames hn
  | cons name rest =>
    cases hp : t.pc <;> simp_all <;> split <;> simp

/-- no deadlock: in a quiescent state satisfying the invariant every thread is done -/
theorem quiescent_done {d0 : Dict} {progs : List (List Nat)} {s : State} (hI : Inv d0 progs s)
    (hq : (sys true).Quiescent s) {i : Nat} {t : Thread} (ht : s.threads[i]? = some t) :
    t.pc = .done ∧ t.names = [] := by
  have hT := hI.thr i t ht
  suffices hd : t.pc = .done from ⟨hd, hT.2.1.mp hd⟩
  apply Classical.byContradiction
  intro hd
  have hn : t.names ≠ [] := fun h => hd (hT.2.1.mpr h)
  have hacq : t.pc = .acquire := by
    apply Classical.byContradiction
    intro ha
    exact enabled ht hn hd (fun h => absurd h ha) (hq i)
  cases hl : s.lock with
  | none => exact enabled ht hn hd (fun _ => hl) (hq i)
  | some j =>
    obtain ⟨tj, htj, hc⟩ := hI.owner j hl
    have hTj := hI.thr j tj htj
    have hdj : tj.pc ≠ .done := by intro h; rw [h] at hc; exact hc
    refine enabled htj (fun h => hdj (hTj.2.1.mpr h)) hdj ?_ (hq j)
    intro h; rw [h] at hc; exact hc.elim

end Miros.Conc.Registry
