import MirosModel.Conc.SingleInit
import MirosModel.Conc.SysLemmas
/-!
# `SingletonDecorator.__call__` with failing initialisers: inductive invariants, measure, progress

* `Inv`      — the safety invariant of the current source (`publishEarly = false`)
* `Prog`     — how `todo` / `outs` relate to the thread's program (any tag)
* `Count`    — raising initialisers and `Out.raised` outcomes correspond one to one
* `measure`  — every step decreases it (any tag)
* `run_alone_constructs` — a thread with an accepted request, run alone from a state without instance
-/
namespace Miros.Conc.SingleInit

/-! ### the safety invariant (`publishEarly = false`) -/

/-- inside the `with self._lock:` block -/
def InCrit : Pc → Prop
  | .check2 | .alloc | .storeEarly | .initRun | .store | .rollback | .release _ => True
  | _ => False

/-- what holds of thread `i` in state `s` -/
def ThreadOK (s : State) (i : Nat) (t : Thread) : Prop :=
  (InCrit t.pc → s.lock = some i) ∧
  t.pc ≠ .storeEarly ∧ t.pc ≠ .rollback ∧
  (t.pc = .alloc → s.instance_ = none ∧ s.inited = []) ∧
  (t.pc = .initRun → s.instance_ = none ∧ s.inited = [] ∧
    ∃ m, t.mine = some m ∧ m < s.nextObj ∧ m ∉ s.failed) ∧
  (t.pc = .store → s.instance_ = none ∧ ∃ m, t.mine = some m ∧ s.inited = [m]) ∧
  (t.pc = .release false ∨ t.pc = .read → ∃ o, s.instance_ = some o) ∧
  (∀ o, Out.obj o ∈ t.outs → s.instance_ = some o) ∧
  Out.none ∉ t.outs

/-- the inductive invariant of the current source -/
structure Inv (s : State) : Prop where
  inst : ∀ o, s.instance_ = some o → s.inited = [o]
  noneInst : s.instance_ = none →
    s.inited = [] ∨ ∃ j t, s.lock = some j ∧ s.threads[j]? = some t ∧ t.pc = .store
  freshI : ∀ o ∈ s.inited, o < s.nextObj
  freshF : ∀ o ∈ s.failed, o < s.nextObj
  disj : ∀ o ∈ s.failed, o ∉ s.inited
  owner : ∀ j, s.lock = some j → ∃ t, s.threads[j]? = some t ∧ InCrit t.pc
  thr : ∀ i t, s.threads[i]? = some t → ThreadOK s i t

theorem Inv.init (progs : List (List Req)) : Inv (init progs) := by
  refine ⟨by simp [SingleInit.init], by simp [SingleInit.init], by simp [SingleInit.init],
    by simp [SingleInit.init], by simp [SingleInit.init], by simp [SingleInit.init], ?_⟩
  intro i t h
  simp only [SingleInit.init, List.getElem?_map] at h
  cases hp : progs[i]? with
  | none => simp [hp] at h
  | some p =>
    simp only [hp, Option.map_some, Option.some.injEq] at h
    subst h
    simp [ThreadOK, SingleInit.init, InCrit]

theorem step_length {g : Tags} {s s' : State} {i : Nat} (h : step g s i = some s') :
    s'.threads.length = s.threads.length := by
  unfold step at h
  split at h
  · cases h
  · split at h <;> (try split at h) <;> (try cases h) <;> simp

theorem run_length (g : Tags) (sched : List Nat) (s : State) :
    ((sys g).run s sched).threads.length = s.threads.length :=
  (sys g).inv_run (fun s' => s'.threads.length = s.threads.length)
    (fun _ _ _ hI h => (step_length h).trans hI) sched s rfl

theorem Inv.step {s s' : State} {i : Nat} (hI : Inv s) (h : step ⟨false⟩ s i = some s') : Inv s' := by
  unfold SingleInit.step at h
  split at h
  · cases h
  · rename_i t ht
    have hlt : i < s.threads.length := (List.getElem?_eq_some_iff.mp ht).1
    have hT := hI.thr i t ht
    obtain ⟨h1, h2, h3, h4, h5, h6, h7⟩ := hI
    split at h <;> (try split at h) <;> (try cases h)
    all_goals
      refine ⟨?_, ?_, ?_, ?_, ?_, ?_, ?_⟩
    all_goals (try grind [InCrit, ThreadOK, finish, readOut])
    all_goals (cases hi : s.instance_ <;> grind [InCrit, ThreadOK])

theorem Inv.run (progs : List (List Req)) (sched : List Nat) :
    Inv ((sys ⟨false⟩).run (SingleInit.init progs) sched) :=
  (sys ⟨false⟩).inv_run Inv (fun _ _ _ hI h => hI.step h) sched _ (Inv.init progs)

/-- at most one object ever has a completed initialiser -/
theorem Inv.inited_le {s : State} (hI : Inv s) : s.inited.length ≤ 1 := by
  cases hi : s.instance_ with
  | some o => rw [hI.inst o hi]; simp
  | none =>
    rcases hI.noneInst hi with h | ⟨j, t, _, ht, hp⟩
    · rw [h]; simp
    · obtain ⟨m, _, hm⟩ := ((hI.thr j t ht).2.2.2.2.2.1 hp).2
      rw [hm]; simp

/-- once set, `instance` is never changed by a step -/
theorem step_instance_stable {s s' : State} {i o : Nat} (hI : Inv s) (h : step ⟨false⟩ s i = some s')
    (ho : s.instance_ = some o) : s'.instance_ = some o := by
  unfold SingleInit.step at h
  split at h
  · cases h
  · rename_i t ht
    have hT := hI.thr i t ht
    split at h <;> (try split at h) <;> (try cases h)
    all_goals grind [ThreadOK]

theorem run_instance_stable {o : Nat} (sched : List Nat) (s : State) (hI : Inv s)
    (ho : s.instance_ = some o) : ((sys ⟨false⟩).run s sched).instance_ = some o :=
  ((sys ⟨false⟩).inv_run (fun s' => Inv s' ∧ s'.instance_ = some o)
    (fun _ _ _ hI h => ⟨hI.1.step h, step_instance_stable hI.1 h hI.2⟩) sched s ⟨hI, ho⟩).2

/-! ### progress -/

/-- a thread that has something to do and is not waiting for a held lock can move (any tag) -/
theorem enabled {g : Tags} {s : State} {i : Nat} {t : Thread} (ht : s.threads[i]? = some t)
    (hd : t.pc = .idle → t.todo ≠ []) (ha : t.pc = .acquire → s.lock = none) : step g s i ≠ none := by
  unfold SingleInit.step
  simp only [ht]
  cases hp : t.pc <;> simp_all <;> split <;> simp

/-- no deadlock: in a quiescent state satisfying the invariant the lock is free and every thread is
between requests with nothing left to do -/
theorem quiescent_idle {s : State} (hI : Inv s) (hq : (sys ⟨false⟩).Quiescent s) :
    s.lock = none ∧ ∀ (i : Nat) (t : Thread), s.threads[i]? = some t → t.pc = .idle ∧ t.todo = [] := by
  have hl : s.lock = none := by
    cases hl : s.lock with
    | none => rfl
    | some j =>
      obtain ⟨tj, htj, hc⟩ := hI.owner j hl
      refine absurd (hq j) (enabled htj ?_ ?_)
      · intro h; rw [h] at hc; exact hc.elim
      · intro h; rw [h] at hc; exact hc.elim
  refine ⟨hl, fun i t ht => ?_⟩
  apply Classical.byContradiction
  intro hd
  refine enabled ht (fun h hn => hd ⟨h, hn⟩) (fun _ => hl) (hq i)

/-- a state in which every thread is between requests with nothing left to do is quiescent -/
theorem quiescent_of_all_idle {g : Tags} {s : State}
    (h : ∀ t ∈ s.threads, t.pc = .idle ∧ t.todo = []) : (sys g).Quiescent s := by
  intro i
  show step g s i = none
  unfold SingleInit.step
  cases ht : s.threads[i]? with
  | none => rfl
  | some t =>
    obtain ⟨hp, htd⟩ := h t (List.mem_of_getElem? ht)
    simp [hp, htd]

/-! ### termination measure (any tag) -/

def pcRank : Pc → Nat
  | .check => 9 | .acquire => 8 | .check2 => 7 | .alloc => 6 | .storeEarly => 5 | .initRun => 4
  | .store => 3 | .rollback => 2 | .release false => 2 | .release true => 1 | .read => 1 | .idle => 0

def rank (t : Thread) : Nat :=
  match t.pc with
  | .idle => 10 * t.todo.length
  | pc => 10 * (t.todo.length - 1) + pcRank pc

def measure (s : State) : Nat := (s.threads.map rank).sum

/-- replacing one element of a list by one of smaller weight decreases the total weight -/
theorem sum_map_set_lt' {α : Type} (f : α → Nat) : ∀ (l : List α) (i : Nat) (a b : α),
    l[i]? = some a → f b < f a → ((l.set i b).map f).sum < (l.map f).sum
  | [], i, a, b, h, _ => by simp at h
  | x :: l, 0, a, b, h, hlt => by
    simp only [List.getElem?_cons_zero, Option.some.injEq] at h
    subst h
    simp only [List.set_cons_zero, List.map_cons, List.sum_cons]
    omega
  | x :: l, i + 1, a, b, h, hlt => by
    simp only [List.getElem?_cons_succ] at h
    have := sum_map_set_lt' f l i a b h hlt
    simp only [List.set_cons_succ, List.map_cons, List.sum_cons]
    omega

/-- replacing one element of a list changes the total weight by the difference of the weights -/
theorem sum_map_set_eq {α : Type} (f : α → Nat) : ∀ (l : List α) (i : Nat) (a b : α),
    l[i]? = some a → ((l.set i b).map f).sum + f a = (l.map f).sum + f b
  | [], i, a, b, h => by simp at h
  | x :: l, 0, a, b, h => by
    simp only [List.getElem?_cons_zero, Option.some.injEq] at h
    subst h
    simp only [List.set_cons_zero, List.map_cons, List.sum_cons]
    omega
  | x :: l, i + 1, a, b, h => by
    simp only [List.getElem?_cons_succ] at h
    have := sum_map_set_eq f l i a b h
    simp only [List.set_cons_succ, List.map_cons, List.sum_cons]
    omega

theorem step_measure {g : Tags} {s s' : State} {i : Nat} (h : step g s i = some s') :
    measure s' < measure s := by
  unfold step at h
  split at h
  · cases h
  · rename_i t ht
    unfold measure
    obtain ⟨pe⟩ := g
    cases pe <;> split at h <;> (try split at h) <;> (try cases h) <;>
      (refine sum_map_set_lt' rank _ i t _ ht ?_) <;>
      simp_all [rank, pcRank, finish] <;> (try split) <;> (try simp) <;> (try omega) <;>
      (have := List.length_pos_iff.mpr ‹¬t.todo = []›; omega)

theorem measure_init (progs : List (List Req)) :
    measure (init progs) = 10 * (progs.map List.length).sum := by
  unfold measure init
  simp only [List.map_map]
  induction progs with
  | nil => rfl
  | cons p ps ih => simp only [List.map_cons, List.sum_cons, ih, Function.comp, rank]; omega

/-! ### `todo` / `outs` against the thread's program (any tag) -/

/-- thread `t` is running program `p`: the finished requests are a prefix of `p`, `todo` is the rest,
an outcome `raised` stands at the position of a request that is not accepted -/
def ProgOK (p : List Req) (t : Thread) : Prop :=
  t.outs.length ≤ p.length ∧ p.drop t.outs.length = t.todo ∧
  (∀ k : Nat, t.outs[k]? = some Out.raised → p[k]? = some (Req.mk false)) ∧
  (t.pc ≠ .idle → t.todo ≠ []) ∧
  (t.pc = .release true ∨ t.pc = .rollback → curOk t = false)

def Prog (progs : List (List Req)) (s : State) : Prop :=
  s.threads.length = progs.length ∧
  ∀ (i : Nat) (t : Thread) (p : List Req), s.threads[i]? = some t → progs[i]? = some p → ProgOK p t

theorem Prog.init (progs : List (List Req)) : Prog progs (init progs) := by
  refine ⟨by simp [SingleInit.init], ?_⟩
  intro i t p ht hp
  simp only [SingleInit.init, List.getElem?_map, hp, Option.map_some, Option.some.injEq] at ht
  subst ht
  simp [ProgOK]

theorem ProgOK.setPc {p : List Req} {t : Thread} (h : ProgOK p t) (pc : Pc) (m : Option Nat)
    (hne : t.todo ≠ []) (hr : pc = .release true ∨ pc = .rollback → curOk t = false) :
    ProgOK p { t with pc := pc, mine := m } := by
  obtain ⟨h1, h2, h3, _, _⟩ := h
  exact ⟨h1, h2, h3, fun _ => hne, hr⟩

theorem ProgOK.finish {p : List Req} {t : Thread} (h : ProgOK p t) (o : Out)
    (hne : t.todo ≠ []) (hr : o = .raised → curOk t = false) : ProgOK p (finish t o) := by
  obtain ⟨h1, h2, h3, _, _⟩ := h
  cases htd : t.todo with
  | nil => exact absurd htd hne
  | cons r rest =>
    rw [htd] at h2
    have hlt : t.outs.length < p.length := by
      apply Classical.byContradiction
      intro hc
      rw [List.drop_eq_nil_of_le (by omega)] at h2
      cases h2
    have hget : p[t.outs.length]? = some r := by
      have := List.getElem?_drop (xs := p) (i := t.outs.length) (j := 0)
      rw [h2] at this
      simpa using this.symm
    have htail : p.drop (t.outs.length + 1) = rest := by
      rw [← List.tail_drop, h2]; rfl
    refine ⟨by simp [SingleInit.finish]; omega, by simp [SingleInit.finish, htail, htd], ?_,
      by simp [SingleInit.finish], by simp [SingleInit.finish]⟩
    intro k hk
    simp only [SingleInit.finish] at hk
    by_cases hkl : k < t.outs.length
    · rw [List.getElem?_append_left hkl] at hk
      exact h3 k hk
    · rw [List.getElem?_append_right (by omega)] at hk
      have hk0 : k = t.outs.length := by
        apply Classical.byContradiction
        intro hc
        have : k - t.outs.length ≠ 0 := by omega
        cases hkk : k - t.outs.length with
        | zero => exact this hkk
        | succ n => rw [hkk] at hk; simp at hk
      subst hk0
      simp only [Nat.sub_self, List.getElem?_cons_zero, Option.some.injEq] at hk
      have := hr hk
      simp only [curOk, htd] at this
      rw [hget]
      cases r with
      | mk ok => simp at this; subst this; rfl

theorem Prog.step {g : Tags} {progs : List (List Req)} {s s' : State} {i : Nat} (hP : Prog progs s)
    (h : step g s i = some s') : Prog progs s' := by
  refine ⟨(step_length h).trans hP.1, ?_⟩
  unfold SingleInit.step at h
  split at h
  · cases h
  · rename_i t ht
    have hlt : i < s.threads.length := (List.getElem?_eq_some_iff.mp ht).1
    -- it suffices that the new record of thread `i` is fine
    have key : ∀ (t' : Thread) (s'' : State), s''.threads = s.threads.set i t' →
        (∀ p, progs[i]? = some p → ProgOK p t → ProgOK p t') →
        ∀ (j : Nat) (tj : Thread) (p : List Req),
          s''.threads[j]? = some tj → progs[j]? = some p → ProgOK p tj := by
      intro t' s'' hs ht' j tj p hj hp
      rw [hs] at hj
      by_cases hij : i = j
      · subst hij
        rw [List.getElem?_set_self hlt] at hj
        cases hj
        exact ht' p hp (hP.2 i t p ht hp)
      · rw [List.getElem?_set_ne hij] at hj
        exact hP.2 j tj p hj hp
    have hne : t.pc ≠ .idle → t.todo ≠ [] := fun hpc =>
      match hp : progs[i]? with
      | some p => (hP.2 i t p ht hp).2.2.2.1 hpc
      | none => by
        have := (List.getElem?_eq_none_iff.mp hp); have := hP.1; omega
    split at h <;> (try split at h) <;> (try cases h)
    all_goals (refine key _ _ rfl ?_; intro p hp hok)
    all_goals (try split)
    all_goals first
      | (refine ProgOK.finish hok _ ?_ ?_ <;> cases s.instance_ <;> grind [ProgOK, readOut])
      | (refine ProgOK.setPc hok _ _ ?_ ?_ <;> grind [ProgOK])

theorem Prog.run (g : Tags) (progs : List (List Req)) (sched : List Nat) :
    Prog progs ((sys g).run (SingleInit.init progs) sched) :=
  (sys g).inv_run (Prog progs) (fun _ _ _ hP h => hP.step h) sched _ (Prog.init progs)

/-- outcomes `raised` stand at positions of requests that are not accepted, so there are at most as
many of them as there are such requests among the finished ones -/
theorem count_raised_le : ∀ (outs : List Out) (p : List Req), outs.length ≤ p.length →
    (∀ k : Nat, outs[k]? = some Out.raised → p[k]? = some (Req.mk false)) →
    outs.count Out.raised ≤ (p.take outs.length).countP (fun r => !r.ok)
  | [], _, _, _ => by simp
  | o :: outs, [], h, _ => by simp at h
  | o :: outs, r :: p, h, hk => by
    have ih := count_raised_le outs p (by simpa using h) (fun k hk' => by
      have := hk (k + 1) (by simpa using hk')
      simpa using this)
    simp only [List.length_cons, List.take_succ_cons, List.countP_cons, List.count_cons]
    by_cases ho : o = Out.raised
    · subst ho
      have := hk 0 (by simp)
      simp only [List.getElem?_cons_zero, Option.some.injEq] at this
      subst this
      simp; omega
    · have : (o == Out.raised) = false := by simpa using ho
      simp only [this]
      simp only [Bool.false_eq_true, if_false, Nat.add_zero]
      exact Nat.le_trans ih (Nat.le_add_right _ _)

/-! ### raising initialisers and `raised` outcomes correspond one to one (`publishEarly = false`) -/

/-- `raised` outcomes of a thread, plus one if it is about to record one (its initialiser has raised
and it is leaving the `with`) -/
def raisedW (t : Thread) : Nat :=
  t.outs.count Out.raised + (if t.pc = .release true then 1 else 0)

def Count (s : State) : Prop := (s.threads.map raisedW).sum = s.failed.length

theorem Count.init (progs : List (List Req)) : Count (init progs) := by
  unfold Count SingleInit.init
  simp only [List.map_map, List.length_nil]
  induction progs with
  | nil => rfl
  | cons p ps ih => simp only [List.map_cons, List.sum_cons, ih, Function.comp, raisedW]; simp

theorem sum_set_of_eq {α : Type} (f : α → Nat) {l : List α} {i : Nat} {a b : α} {n m : Nat}
    (h : l[i]? = some a) (hc : (l.map f).sum = n) (hw : f b + n = f a + m) :
    ((l.set i b).map f).sum = m := by
  have := sum_map_set_eq f l i a b h
  omega

theorem Count.step {s s' : State} {i : Nat} (hI : Inv s) (hC : Count s)
    (h : step ⟨false⟩ s i = some s') : Count s' := by
  unfold Count at hC ⊢
  unfold SingleInit.step at h
  split at h
  · cases h
  · rename_i t ht
    have hT := hI.thr i t ht
    split at h <;> (try split at h) <;> (try cases h)
    all_goals (refine sum_set_of_eq raisedW ht hC ?_)
    all_goals first
      | (simp_all [raisedW, finish, List.count_append]; done)
      | exact absurd ‹t.pc = Pc.rollback› hT.2.2.1
      | (cases s.instance_ <;> simp_all [raisedW, finish, readOut, List.count_append]; done)
      | (obtain ⟨m, hm, _⟩ := (hT.2.2.2.2.1 ‹t.pc = Pc.initRun›).2.2
         simp_all [raisedW]
         omega)

theorem Count.run (progs : List (List Req)) (sched : List Nat) :
    Count ((sys ⟨false⟩).run (SingleInit.init progs) sched) :=
  ((sys ⟨false⟩).inv_run (fun s => Inv s ∧ Count s)
    (fun _ _ _ hI h => ⟨hI.1.step h, hI.2.step hI.1 h⟩) sched _ ⟨Inv.init progs, Count.init progs⟩).2

/-! ### a later request constructs again -/

/-- From a state without instance and with the lock free, a thread between requests whose next
request is accepted, run alone for 9 steps, constructs object `nextObj`, stores it and returns it. -/
theorem run_alone_constructs (s : State) (i : Nat) (t : Thread) (rest : List Req)
    (ht : s.threads[i]? = some t) (hpc : t.pc = .idle) (htodo : t.todo = ⟨true⟩ :: rest)
    (hinst : s.instance_ = none) (hlock : s.lock = none) :
    (sys ⟨false⟩).run s (List.replicate 9 i) =
      { instance_ := some s.nextObj, lock := none, nextObj := s.nextObj + 1,
        threads := s.threads.set i ⟨rest, .idle, none, t.outs ++ [.obj s.nextObj]⟩,
        inited := s.inited ++ [s.nextObj], failed := s.failed } := by
  have hlt : i < s.threads.length := (List.getElem?_eq_some_iff.mp ht).1
  have hset : ∀ (l : List Thread) (x : Thread), l.length = s.threads.length → (l.set i x)[i]? = some x :=
    fun l x hl => List.getElem?_set_self (by omega)
  simp [List.replicate, System.run, sys, step, ht, hpc, htodo, hinst, hlock, hset, curOk, finish, readOut]

end Miros.Conc.SingleInit
