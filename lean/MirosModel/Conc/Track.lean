import MirosModel.Conc.Sys
/-!
# The tracked-source list (`posted_events_queue`) under concurrent timed posts and cancels

Fine-grained model of `ActiveObject.__post_event` (capacity test + `posted_events_queue.append`),
`cancel_events(e)` and `cancel_event(uuid)`: one step = one access to the list.

```
for i in reversed(range(len(q))):          # n = len(q) evaluated ONCE, when the loop starts
    rec = q[-1]                            # look at the last record            (`loopHead`)
    if rec.signal_name == e.signal_name:   #                                    (`loopAct`)
        with rec.task_lock: rec.task_run_event.clear()      # clear ITS flag
        q.pop()                            # remove THE LAST record (whatever it is now)
    else:
        q.rotate(1)                        # move the last record to the front
```
`cancel_event(id)` is the same with `rec.uuid == id` and a `break` after the pop.  With tag
`locked = true` every call (a timed post's test + append, a whole cancel loop) runs under one
per-object lock (`posted_events_lock`); with `locked = false` there is no lock and the steps of
different threads interleave freely.

Ghost fields: `Rec.flag` (the source's run flag lives in the source, not in the list), `State.all`
(every source ever armed, with its current flag), `State.rejected`.
-/
namespace Miros.Conc.Track

structure Tags where
  locked : Bool                      -- the per-object lock exists
deriving DecidableEq, Repr

structure Rec where
  id : Nat
  name : Nat
  flag : Bool                        -- the source's run flag (ghost: it lives in the source)
deriving DecidableEq, Repr

inductive Call
  | arm (name : Nat)
  | cancelName (name : Nat)
  | cancelId (id : Nat)
deriving DecidableEq, Repr

/-- program counter inside the current call -/
inductive Pc
  | idle                                   -- between calls (about to take the lock if `locked`)
  | armTest                                -- holds the lock (if locked); next: `len q < cap` test
  | armAppend (id : Nat)                   -- test passed; next: append the record
  | loopHead (left : Nat) (c : Call)       -- `left` iterations remain; next: look at q[-1]
  | loopAct (left : Nat) (c : Call) (seen : Option Rec)  -- has looked; next: clear+pop or rotate
deriving DecidableEq, Repr

structure Thread where
  todo : List Call                   -- the calls still to make (the head is the current call)
  pc : Pc
deriving DecidableEq, Repr

structure State where
  q : List Rec                 -- the deque, front first (q[-1] = getLast)
  all : List Rec               -- ghost: every source ever armed, with its CURRENT flag
  threads : List Thread
  owner : Option Nat           -- who holds the lock (only used when `locked`)
  cap : Nat
  nextId : Nat
  rejected : Nat               -- ghost: number of rejected arms
deriving DecidableEq, Repr

/-- the index of the thread that moves -/
abbrev Step := Nat

/-- does the record match the cancel call (`signal_name ==` / `uuid ==`) -/
def Call.hits : Call → Rec → Bool
  | .arm _, _ => false
  | .cancelName n, r => decide (r.name = n)
  | .cancelId i, r => decide (r.id = i)

/-- `cancel_event(id)`: `break` after the pop -/
def Call.isId : Call → Bool
  | .cancelId _ => true
  | _ => false

def Call.isArm : Call → Bool
  | .arm _ => true
  | _ => false

/-- `task_run_event.clear()` of the source with id `i` -/
def clearId (i : Nat) (l : List Rec) : List Rec :=
  l.map fun r => if r.id = i then { r with flag := false } else r

/-- `q.rotate(1)`: move the last record to the front -/
def rotate (q : List Rec) : List Rec :=
  match q.getLast? with
  | some l => l :: q.dropLast
  | none => []

/-- the record the cancel acts on: the one it saw, if it matches -/
def hit (c : Call) : Option Rec → Option Rec
  | some r => if c.hits r then some r else none
  | none => none

/-- the data part of one `loopAct` step: clear the flag of the record seen (by id, in `all` and in `q`)
and pop whatever is last NOW, or rotate; the third component says whether the loop ends (`break`) -/
def actData (c : Call) (seen : Option Rec) (q all : List Rec) : List Rec × List Rec × Bool :=
  match hit c seen with
  | some r => ((clearId r.id q).dropLast, clearId r.id all, c.isId)
  | none => (rotate q, all, false)

/-- the signal name of the timed post in progress -/
def armName : List Call → Nat
  | .arm n :: _ => n
  | _ => 0

def setPc (s : State) (i : Nat) (t : Thread) (pc : Pc) : State :=
  { s with threads := s.threads.set i { t with pc := pc } }

/-- "call over": drop the call, back to `idle`, release the lock if there is one -/
def finishCall (g : Tags) (s : State) (i : Nat) (t : Thread) : State :=
  { s with threads := s.threads.set i ⟨t.todo.tail, .idle⟩,
           owner := if g.locked then none else s.owner }

/-- first program counter of a call (`len(q)` is read here, once) -/
def firstPc (q : List Rec) : Call → Pc
  | .arm _ => .armTest
  | c => .loopHead q.length c

def stepT (g : Tags) (s : State) (i : Nat) (t : Thread) : Option State :=
  match t.pc with
  | .idle =>
    match t.todo with
    | [] => none
    | c :: _ =>
      if g.locked then
        if s.owner.isSome then none
        else some (setPc { s with owner := some i } i t (firstPc s.q c))
      else some (setPc s i t (firstPc s.q c))
  | .armTest =>
    if s.q.length < s.cap then
      some (setPc { s with nextId := s.nextId + 1 } i t (.armAppend s.nextId))
    else some (finishCall g { s with rejected := s.rejected + 1 } i t)
  | .armAppend id =>
    let r : Rec := ⟨id, armName t.todo, true⟩
    some (finishCall g { s with q := s.q ++ [r], all := s.all ++ [r] } i t)
  | .loopHead 0 _ => some (finishCall g s i t)
  | .loopHead (k + 1) c => some (setPc s i t (.loopAct k c s.q.getLast?))
  | .loopAct k c seen =>
    let d := actData c seen s.q s.all
    let s1 := { s with q := d.1, all := d.2.1 }
    if d.2.2 then some (finishCall g s1 i t) else some (setPc s1 i t (.loopHead k c))

/-- one step of thread `i` (`none` = blocked / nothing to do / no such thread) -/
def step (g : Tags) (s : State) (i : Step) : Option State :=
  match s.threads[i]? with
  | none => none
  | some t => stepT g s i t

def sys (g : Tags) : System State Step where
  step := step g

def init (cap : Nat) (progs : List (List Call)) : State :=
  { q := [], all := [], threads := progs.map fun p => ⟨p, .idle⟩, owner := none, cap := cap,
    nextId := 0, rejected := 0 }

/-- number of schedule entries that were skipped because the chosen thread was blocked -/
def blockedCount (g : Tags) : State → List Step → Nat
  | _, [] => 0
  | s, t :: ts =>
    match step g s t with
    | some s' => blockedCount g s' ts
    | none => blockedCount g s ts + 1

/-! ### call-level ("atomic") semantics -/

/-- the data the calls act on -/
structure AState where
  q : List Rec
  all : List Rec
  nextId : Nat
  rejected : Nat
deriving DecidableEq, Repr

def State.data (s : State) : AState := ⟨s.q, s.all, s.nextId, s.rejected⟩

/-- the cancel loop with `k` iterations left, run without interruption -/
def loopRun (c : Call) : Nat → List Rec → List Rec → List Rec × List Rec
  | 0, q, all => (q, all)
  | k + 1, q, all =>
    let d := actData c q.getLast? q all
    if d.2.2 then (d.1, d.2.1) else loopRun c k d.1 d.2.1

/-- `cancel_events` / `cancel_event` run without interruption -/
def cancelAtomic (c : Call) (q all : List Rec) : List Rec × List Rec := loopRun c q.length q all

/-- clear the flags of the sources whose id is in `ids` -/
def clearIds (ids : List Nat) (l : List Rec) : List Rec :=
  l.map fun r => if r.id ∈ ids then { r with flag := false } else r

/-- what a cancel is meant to do: remove the matching records from the list (keeping the others) and
clear the flags of exactly the removed sources -/
def cancelSpec (c : Call) (q all : List Rec) : List Rec × List Rec :=
  (q.filter (fun r => !c.hits r), clearIds ((q.filter c.hits).map (·.id)) all)

/-- one whole call run without interruption -/
def callAtomic (cap : Nat) (c : Call) (a : AState) : AState :=
  match c with
  | .arm n =>
    if a.q.length < cap then
      { a with q := a.q ++ [⟨a.nextId, n, true⟩], all := a.all ++ [⟨a.nextId, n, true⟩],
               nextId := a.nextId + 1 }
    else { a with rejected := a.rejected + 1 }
  | c =>
    let d := cancelAtomic c a.q a.all
    { a with q := d.1, all := d.2 }

/-- the rest of the call in progress, run without interruption -/
def finishPc (cap : Nat) (todo : List Call) (pc : Pc) (a : AState) : AState :=
  match pc with
  | .idle => a
  | .armTest => callAtomic cap (.arm (armName todo)) a
  | .armAppend id =>
    { a with q := a.q ++ [⟨id, armName todo, true⟩], all := a.all ++ [⟨id, armName todo, true⟩] }
  | .loopHead k c =>
    let d := loopRun c k a.q a.all
    { a with q := d.1, all := d.2 }
  | .loopAct k c seen =>
    let d := actData c seen a.q a.all
    if d.2.2 then { a with q := d.1, all := d.2.1 }
    else
      let e := loopRun c k d.1 d.2.1
      { a with q := e.1, all := e.2 }

/-- the data once the call in progress (if any: the lock owner's) has been completed -/
def absData (s : State) : AState :=
  match s.owner with
  | none => s.data
  | some i =>
    match s.threads[i]? with
    | some t => finishPc s.cap t.todo t.pc s.data
    | none => s.data

/-- is thread `i` between calls with a call to make -/
def startsCall (s : State) (i : Nat) : Option Call :=
  match s.threads[i]? with
  | some ⟨c :: _, .idle⟩ => some c
  | _ => none

/-- the calls started during a schedule, in the order in which they were started (with the lock:
the lock-acquisition order), each with the thread that made it -/
def acqLog (g : Tags) : State → List Step → List (Nat × Call)
  | _, [] => []
  | s, i :: ts =>
    match step g s i with
    | some s' =>
      match startsCall s i with
      | some c => (i, c) :: acqLog g s' ts
      | none => acqLog g s' ts
    | none => acqLog g s ts

/-- run a sequence of calls atomically -/
def runAtomic (cap : Nat) (a : AState) (log : List (Nat × Call)) : AState :=
  log.foldl (fun a p => callAtomic cap p.2 a) a

/-- number of timed posts in a call list -/
def armCount (p : List Call) : Nat := (p.filter Call.isArm).length

/-- number of timed posts still to be decided (not yet appended or rejected) -/
def pendingArms (ts : List Thread) : Nat := (ts.map fun t => armCount t.todo).sum

/-- number of timed posts in the programs -/
def totalArms (progs : List (List Call)) : Nat := (progs.map armCount).sum

/-- the calls a thread has not started yet -/
def remaining : Option Thread → List Call
  | some ⟨todo, .idle⟩ => todo
  | some ⟨todo, _⟩ => todo.tail
  | none => []

/-- the calls of thread `i` in a log, in order -/
def callsOf (i : Nat) (log : List (Nat × Call)) : List Call := (log.filter (·.1 == i)).map (·.2)

end Miros.Conc.Track
