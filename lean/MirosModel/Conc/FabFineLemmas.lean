import MirosModel.Conc.FabFine
/-!
# Invariants of the fine-grained fabric delivery model (`FabFine`)

* `InvLt` (any tag): every uid in the fabric queue, in a subscriber queue or being delivered is
  `< nextUid`.
* `Inv` (tag `subscribeKeepsOthers = true`): the registry is duplicate-free; the fabric queue is
  strictly increasing and above everything already delivered; every subscriber queue is strictly
  increasing; a queue that received something is registered; while `d = app u q (m+1)` the queues
  `reg[0..m)` hold `u` exactly once, `reg[m] = q` is pending and no other queue holds `u`; every
  logged registry is a prefix of the current one and a logged uid that is neither waiting nor being
  delivered is held exactly once by every queue of its logged registry.
-/
namespace Miros.Conc.FabFine

/-! ### lookup / update -/

theorem lookup_update_same (m : List (Nat × List Nat)) (q : Nat) (v : List Nat) :
    lookup (update m q v) q = v := by
  induction m with
  | nil => simp [update, lookup]
  | cons a r ih =>
    obtain ⟨k, w⟩ := a
    by_cases hk : k = q <;> simp [update, lookup, hk, ih]

theorem lookup_update_ne (m : List (Nat × List Nat)) (q q' : Nat) (v : List Nat) (h : q' ≠ q) :
    lookup (update m q v) q' = lookup m q' := by
  induction m with
  | nil => simp [update, lookup, Ne.symm h]
  | cons a r ih =>
    obtain ⟨k, w⟩ := a
    by_cases hk : k = q
    · subst hk; simp [update, lookup, Ne.symm h]
    · by_cases hk' : k = q'
      · subst hk'; simp [update, lookup, hk]
      · simp [update, lookup, hk, hk', ih]

theorem lookup_update (m : List (Nat × List Nat)) (q q' : Nat) (v : List Nat) :
    lookup (update m q v) q' = if q' = q then v else lookup m q' := by
  by_cases h : q' = q
  · subst h; simp [lookup_update_same]
  · simp [h, lookup_update_ne m q q' v h]

/-! ### the list iterator -/

theorem nextPc_ne_idle (reg : List Nat) (u n : Nat) : nextPc reg u n ≠ .idle := by
  unfold nextPc; split <;> simp

theorem nextPc_eq_app {reg : List Nat} {u n u' q' n' : Nat} (h : nextPc reg u n = .app u' q' n') :
    u' = u ∧ n' = n + 1 ∧ reg[n]? = some q' := by
  unfold nextPc at h
  split at h
  · simp at h
  · rename_i q hq
    simp only [DPc.app.injEq] at h
    obtain ⟨rfl, rfl, rfl⟩ := h
    exact ⟨rfl, rfl, hq⟩

theorem nextPc_not_app {reg : List Nat} {u n : Nat} (h : ∀ q' n', nextPc reg u n ≠ .app u q' n') :
    reg.length ≤ n := by
  unfold nextPc at h
  split at h
  · rename_i hq; exact List.getElem?_eq_none_iff.mp hq
  · rename_i q hq; exact absurd rfl (h q (n + 1))

/-! ### list facts -/

theorem notMem_take_of_getElem? {l : List Nat} (hn : l.Nodup) {i q : Nat} (h : l[i]? = some q) :
    q ∉ l.take i := by
  induction l generalizing i with
  | nil => simp
  | cons a r ih =>
    cases i with
    | zero => simp
    | succ i =>
      simp only [List.getElem?_cons_succ] at h
      rw [List.nodup_cons] at hn
      simp only [List.take_succ_cons, List.mem_cons, not_or]
      refine ⟨?_, ih hn.2 h⟩
      rintro rfl
      exact hn.1 (List.mem_of_getElem? h)

theorem take_succ_of_getElem? {l : List Nat} {i q : Nat} (h : l[i]? = some q) :
    l.take (i + 1) = l.take i ++ [q] := by
  rw [List.take_add_one, h]; rfl

theorem lt_length_of_getElem? {l : List Nat} {i q : Nat} (h : l[i]? = some q) : i < l.length := by
  rcases Nat.lt_or_ge i l.length with h' | h'
  · exact h'
  · rw [List.getElem?_eq_none_iff.mpr h'] at h; cases h

/-! ### `InvLt` : nothing is invented (any tag) -/

structure InvLt (s : State) : Prop where
  fq_lt : ∀ u ∈ s.fq, u < s.nextUid
  items_lt : ∀ q u, u ∈ lookup s.items q → u < s.nextUid
  app_lt : ∀ u q n, s.d = .app u q n → u < s.nextUid

theorem InvLt.init : InvLt init := by
  constructor <;> simp [FabFine.init, lookup]

theorem InvLt.step {t : Tags} {s s' : State} {x : Step} (h : InvLt s) (hs : step t s x = some s') :
    InvLt s' := by
  cases x with
  | subscribe q =>
    simp only [FabFine.step, Option.some.injEq] at hs; subst hs
    exact ⟨h.fq_lt, h.items_lt, h.app_lt⟩
  | publish =>
    simp only [FabFine.step, Option.some.injEq] at hs; subst hs
    refine ⟨?_, ?_, ?_⟩
    · intro u hu
      simp only [List.mem_append, List.mem_singleton] at hu
      rcases hu with hu | rfl
      · exact Nat.lt_succ_of_lt (h.fq_lt u hu)
      · exact Nat.lt_succ_self _
    · intro q u hu; exact Nat.lt_succ_of_lt (h.items_lt q u hu)
    · intro u q n hd; exact Nat.lt_succ_of_lt (h.app_lt u q n hd)
  | deliver =>
    simp only [FabFine.step] at hs
    cases hd : s.d with
    | idle =>
      rw [hd] at hs
      cases hf : s.fq with
      | nil => rw [hf] at hs; simp at hs
      | cons u r =>
        rw [hf] at hs
        simp only [Option.some.injEq] at hs; subst hs
        refine ⟨?_, h.items_lt, ?_⟩
        · intro v hv; exact h.fq_lt v (by rw [hf]; exact List.mem_cons_of_mem _ hv)
        · intro u' q' n' hd'
          obtain ⟨rfl, -, -⟩ := nextPc_eq_app hd'
          exact h.fq_lt u' (by rw [hf]; exact List.mem_cons_self)
    | app u q n =>
      rw [hd] at hs
      simp only [Option.some.injEq] at hs; subst hs
      have hu := h.app_lt u q n hd
      refine ⟨h.fq_lt, ?_, ?_⟩
      · intro q' u' hu'
        simp only [lookup_update] at hu'
        split at hu'
        · simp only [List.mem_append, List.mem_singleton] at hu'
          rcases hu' with hu' | rfl
          · exact h.items_lt q u' hu'
          · exact hu
        · exact h.items_lt q' u' hu'
      · intro u' q' n' hd'
        obtain ⟨rfl, -, -⟩ := nextPc_eq_app hd'
        exact hu
    | done =>
      rw [hd] at hs
      simp only [Option.some.injEq] at hs; subst hs
      refine ⟨h.fq_lt, h.items_lt, ?_⟩
      intro u q n hd'; simp at hd'

theorem InvLt.run {t : Tags} (sch : List Step) : ∀ {s : State}, InvLt s → InvLt (run t s sch) := by
  induction sch with
  | nil => intro s h; exact h
  | cons x xs ih =>
    intro s h
    unfold FabFine.run
    cases hs : FabFine.step t s x with
    | none => exact ih h
    | some s' => exact ih (h.step hs)

/-! ### `Inv` : the delivery-loop invariant (tag `subscribeKeepsOthers = true`) -/

structure Inv (s : State) : Prop where
  reg_nodup : s.reg.Nodup
  fq_sorted : s.fq.Pairwise (· < ·)
  items_lt_fq : ∀ q u, u ∈ lookup s.items q → ∀ v ∈ s.fq, u < v
  items_sorted : ∀ q, (lookup s.items q).Pairwise (· < ·)
  items_reg : ∀ q, lookup s.items q ≠ [] → q ∈ s.reg
  app_inv : ∀ u q n, s.d = .app u q n →
    ∃ m, n = m + 1 ∧ s.reg[m]? = some q ∧ (∀ v ∈ s.fq, u < v) ∧
      (∀ q' u', u' ∈ lookup s.items q' → u' ≤ u) ∧
      (∀ q', cnt s q' u = if q' ∈ s.reg.take m then 1 else 0)
  log_inv : ∀ u r, (u, r) ∈ s.pubLog →
    r <+: s.reg ∧ (u ∉ s.fq → (∀ q n, s.d ≠ .app u q n) → ∀ q ∈ r, cnt s q u = 1)

theorem Inv.init : Inv init := by
  constructor <;> simp [FabFine.init, lookup]

/-- the registry grows at the end and stays duplicate-free -/
theorem Inv.grow {s : State} (h : Inv s) (tl : List Nat) (hn : (s.reg ++ tl).Nodup) :
    Inv { s with reg := s.reg ++ tl } := by
  refine ⟨hn, h.fq_sorted, h.items_lt_fq, h.items_sorted, ?_, ?_, ?_⟩
  · intro q hq; exact List.mem_append_left _ (h.items_reg q hq)
  · intro u q n hd
    obtain ⟨m, hn', hm, hfq, hle, hc⟩ := h.app_inv u q n hd
    have hlt := lt_length_of_getElem? hm
    refine ⟨m, hn', ?_, hfq, hle, ?_⟩
    · show (s.reg ++ tl)[m]? = some q
      rw [List.getElem?_append_left hlt]; exact hm
    · intro q'
      show cnt s q' u = if q' ∈ (s.reg ++ tl).take m then 1 else 0
      rw [List.take_append_of_le_length (Nat.le_of_lt hlt)]; exact hc q'
  · intro u r hu
    obtain ⟨hp, hc⟩ := h.log_inv u r hu
    exact ⟨hp.trans (List.prefix_append _ _), hc⟩

theorem Inv.subscribe {t : Tags} (ht : t.subscribeKeepsOthers = true) {s : State} (h : Inv s)
    (q : Nat) : Inv { s with reg := subscribeReg t s.reg q } := by
  unfold subscribeReg
  rw [ht]
  simp only [if_true]
  by_cases hq : q ∈ s.reg
  · simp only [hq, if_true]; exact h
  · simp only [hq, if_false]
    apply h.grow
    rw [List.nodup_append]
    refine ⟨h.reg_nodup, by simp, ?_⟩
    intro a ha b hb
    simp only [List.mem_singleton] at hb
    subst hb
    rintro rfl
    exact hq ha

theorem Inv.publish {s : State} (h : Inv s) (hl : InvLt s) :
    Inv { s with fq := s.fq ++ [s.nextUid], pubLog := s.pubLog ++ [(s.nextUid, s.reg)],
                 nextUid := s.nextUid + 1 } := by
  refine ⟨h.reg_nodup, ?_, ?_, h.items_sorted, h.items_reg, ?_, ?_⟩
  · show (s.fq ++ [s.nextUid]).Pairwise (· < ·)
    rw [List.pairwise_append]
    refine ⟨h.fq_sorted, by simp, ?_⟩
    intro a ha b hb
    simp only [List.mem_singleton] at hb
    subst hb
    exact hl.fq_lt a ha
  · intro q u hu v hv
    simp only [List.mem_append, List.mem_singleton] at hv
    rcases hv with hv | rfl
    · exact h.items_lt_fq q u hu v hv
    · exact hl.items_lt q u hu
  · intro u q n hd
    obtain ⟨m, hn', hm, hfq, hle, hc⟩ := h.app_inv u q n hd
    refine ⟨m, hn', hm, ?_, hle, hc⟩
    intro v hv
    simp only [List.mem_append, List.mem_singleton] at hv
    rcases hv with hv | rfl
    · exact hfq v hv
    · exact hl.app_lt u q n hd
  · intro u r hu
    simp only [List.mem_append, List.mem_singleton, Prod.mk.injEq] at hu
    rcases hu with hu | ⟨rfl, rfl⟩
    · obtain ⟨hp, hc⟩ := h.log_inv u r hu
      refine ⟨hp, ?_⟩
      intro hnf hna
      apply hc _ hna
      intro hmem
      exact hnf (List.mem_append_left _ hmem)
    · refine ⟨List.prefix_refl _, ?_⟩
      intro hnf
      exact absurd (List.mem_append_right _ (List.mem_singleton.mpr rfl)) hnf

theorem Inv.deliver_done {s : State} (h : Inv s) (hd : s.d = .done) : Inv { s with d := .idle } := by
  refine ⟨h.reg_nodup, h.fq_sorted, h.items_lt_fq, h.items_sorted, h.items_reg, ?_, ?_⟩
  · intro u q n hd'; simp at hd'
  · intro u r hu
    obtain ⟨hp, hc⟩ := h.log_inv u r hu
    refine ⟨hp, ?_⟩
    intro hnf _
    apply hc hnf
    intro q n; rw [hd]; simp

theorem Inv.deliver_idle {s : State} (h : Inv s) (hd : s.d = .idle) {u : Nat} {rest : List Nat}
    (hf : s.fq = u :: rest) : Inv { s with fq := rest, d := nextPc s.reg u 0 } := by
  have hsorted := h.fq_sorted
  rw [hf, List.pairwise_cons] at hsorted
  have hitems : ∀ q u', u' ∈ lookup s.items q → u' < u := fun q u' hu' =>
    h.items_lt_fq q u' hu' u (by rw [hf]; exact List.mem_cons_self)
  refine ⟨h.reg_nodup, hsorted.2, ?_, h.items_sorted, h.items_reg, ?_, ?_⟩
  · intro q u' hu' v hv
    exact h.items_lt_fq q u' hu' v (by rw [hf]; exact List.mem_cons_of_mem _ hv)
  · intro u' q' n' hd'
    obtain ⟨rfl, rfl, hq'⟩ := nextPc_eq_app hd'
    refine ⟨0, rfl, hq', hsorted.1, ?_, ?_⟩
    · intro q'' u'' hu''; exact Nat.le_of_lt (hitems q'' u'' hu'')
    · intro q''
      simp only [List.take_zero, List.not_mem_nil, if_false, cnt]
      rw [List.count_eq_zero]
      intro hmem
      exact Nat.lt_irrefl _ (hitems q'' u' hmem)
  · intro u0 r hu0
    obtain ⟨hp, hc⟩ := h.log_inv u0 r hu0
    refine ⟨hp, ?_⟩
    intro hnf hna
    by_cases hu : u0 = u
    · subst hu
      have hlen := nextPc_not_app hna
      have hnil : s.reg = [] := List.eq_nil_of_length_eq_zero (Nat.le_zero.mp hlen)
      rw [hnil] at hp
      have : r = [] := List.prefix_nil.mp hp
      subst this
      intro q hq; cases hq
    · apply hc
      · rw [hf]
        intro hmem
        rcases List.mem_cons.mp hmem with hmem | hmem
        · exact hu hmem
        · exact hnf hmem
      · intro q n; rw [hd]; simp

theorem Inv.deliver_app {s : State} (h : Inv s) {u q n : Nat} (hd : s.d = .app u q n) :
    Inv { s with items := update s.items q (lookup s.items q ++ [u]), d := nextPc s.reg u n } := by
  obtain ⟨m, rfl, hm, hfq, hle, hc⟩ := h.app_inv u q n hd
  have hqnot : q ∉ s.reg.take m := notMem_take_of_getElem? h.reg_nodup hm
  have hq0 : (lookup s.items q).count u = 0 := by
    have := hc q; simpa [cnt, hqnot] using this
  have hunot : u ∉ lookup s.items q := List.count_eq_zero.mp hq0
  have hold_lt : ∀ u', u' ∈ lookup s.items q → u' < u := by
    intro u' hu'
    have h1 := hle q u' hu'
    have h2 : u' ≠ u := by rintro rfl; exact hunot hu'
    omega
  -- the new counts of `u`
  have hcnt' : ∀ q', (lookup (update s.items q (lookup s.items q ++ [u])) q').count u
      = if q' ∈ s.reg.take (m + 1) then 1 else 0 := by
    intro q'
    rw [take_succ_of_getElem? hm, lookup_update]
    by_cases hq' : q' = q
    · subst hq'
      simp [List.count_append, hq0]
    · have := hc q'
      simp only [cnt] at this
      simp [hq', this]
  -- the counts of every other uid are unchanged
  have hcnt_ne : ∀ q' u0, u0 ≠ u → (lookup (update s.items q (lookup s.items q ++ [u])) q').count u0
      = (lookup s.items q').count u0 := by
    intro q' u0 hne
    rw [lookup_update]
    by_cases hq' : q' = q
    · subst hq'
      simp [List.count_append, Ne.symm hne]
    · simp [hq']
  refine ⟨h.reg_nodup, h.fq_sorted, ?_, ?_, ?_, ?_, ?_⟩
  · intro q' u' hu' v hv
    simp only [lookup_update] at hu'
    split at hu'
    · simp only [List.mem_append, List.mem_singleton] at hu'
      rcases hu' with hu' | rfl
      · exact h.items_lt_fq q u' hu' v hv
      · exact hfq v hv
    · exact h.items_lt_fq q' u' hu' v hv
  · intro q'
    simp only [lookup_update]
    split
    · rw [List.pairwise_append]
      refine ⟨h.items_sorted q, by simp, ?_⟩
      intro a ha b hb
      simp only [List.mem_singleton] at hb
      subst hb
      exact hold_lt a ha
    · exact h.items_sorted q'
  · intro q' hq'
    simp only [lookup_update] at hq'
    split at hq'
    · rename_i heq
      show q' ∈ s.reg
      rw [heq]; exact List.mem_of_getElem? hm
    · exact h.items_reg q' hq'
  · intro u2 q2 n2 hd2
    obtain ⟨rfl, rfl, hq2⟩ := nextPc_eq_app hd2
    refine ⟨m + 1, rfl, hq2, hfq, ?_, ?_⟩
    · intro q' u' hu'
      simp only [lookup_update] at hu'
      split at hu'
      · simp only [List.mem_append, List.mem_singleton] at hu'
        rcases hu' with hu' | rfl
        · exact hle q u' hu'
        · exact Nat.le_refl _
      · exact hle q' u' hu'
    · intro q'; exact hcnt' q'
  · intro u0 r hu0
    obtain ⟨hp, hc0⟩ := h.log_inv u0 r hu0
    refine ⟨hp, ?_⟩
    intro hnf hna q' hq'
    show (lookup (update s.items q (lookup s.items q ++ [u])) q').count u0 = 1
    by_cases hu : u0 = u
    · subst hu
      have hlen := nextPc_not_app hna
      rw [hcnt', List.take_of_length_le hlen]
      simp [hp.subset hq']
    · rw [hcnt_ne q' u0 hu]
      apply hc0 hnf _ q' hq'
      intro q2 n2; rw [hd]
      intro heq
      simp only [DPc.app.injEq] at heq
      exact hu heq.1.symm

theorem Inv.step {t : Tags} (ht : t.subscribeKeepsOthers = true) {s s' : State} {x : Step}
    (h : Inv s) (hl : InvLt s) (hs : step t s x = some s') : Inv s' := by
  cases x with
  | subscribe q =>
    simp only [FabFine.step, Option.some.injEq] at hs; subst hs
    exact h.subscribe ht q
  | publish =>
    simp only [FabFine.step, Option.some.injEq] at hs; subst hs
    exact h.publish hl
  | deliver =>
    simp only [FabFine.step] at hs
    cases hd : s.d with
    | idle =>
      rw [hd] at hs
      cases hf : s.fq with
      | nil => rw [hf] at hs; simp at hs
      | cons u r =>
        rw [hf] at hs
        simp only [Option.some.injEq] at hs; subst hs
        exact h.deliver_idle hd hf
    | app u q n =>
      rw [hd] at hs
      simp only [Option.some.injEq] at hs; subst hs
      exact h.deliver_app hd
    | done =>
      rw [hd] at hs
      simp only [Option.some.injEq] at hs; subst hs
      exact h.deliver_done hd

theorem Inv.run {t : Tags} (ht : t.subscribeKeepsOthers = true) (sch : List Step) :
    ∀ {s : State}, Inv s → InvLt s → Inv (run t s sch) := by
  induction sch with
  | nil => intro s h _; exact h
  | cons x xs ih =>
    intro s h hl
    unfold FabFine.run
    cases hs : FabFine.step t s x with
    | none => exact ih h hl
    | some s' => exact ih (h.step ht hl hs) (hl.step hs)

/-- `run` agrees with the generic interleaving semantics of `Sys.lean` -/
theorem run_eq_sys_run (t : Tags) (sch : List Step) : ∀ s, run t s sch = (sys t).run s sch := by
  induction sch with
  | nil => intro s; rfl
  | cons x xs ih =>
    intro s
    unfold FabFine.run System.run
    show (match step t s x with | some s' => run t s' xs | none => run t s xs) = _
    cases hs : step t s x with
    | none => simp only [sys, hs]; exact ih s
    | some s' => simp only [sys, hs]; exact ih s'

/-- a strictly increasing list holds every element at most once -/
theorem count_le_one_of_sorted {l : List Nat} (h : l.Pairwise (· < ·)) (u : Nat) : l.count u ≤ 1 := by
  have hn : l.Nodup := h.imp (fun hab => Nat.ne_of_lt hab)
  exact List.nodup_iff_count.mp hn u

end Miros.Conc.FabFine
