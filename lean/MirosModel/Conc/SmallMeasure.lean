import MirosModel.Conc.Small
import MirosModel.Conc.SysLemmas
/-!
# Termination measures for the small protocols

Each thread's remaining work is a natural number that every step of that thread decreases; the
other threads are untouched, so the sum over the thread list decreases (`sum_map_set_lt`).
-/
namespace Miros.Conc

/-- replacing one element of a list by one of smaller weight decreases the total weight -/
theorem sum_map_set_lt {α : Type} (f : α → Nat) : ∀ (l : List α) (i : Nat) (a b : α),
    l[i]? = some a → f b < f a → ((l.set i b).map f).sum < (l.map f).sum
  | [], i, a, b, h, _ => by simp at h
  | x :: l, 0, a, b, h, hlt => by
    simp only [List.getElem?_cons_zero, Option.some.injEq] at h
    subst h
    simp only [List.set_cons_zero, List.map_cons, List.sum_cons]
    omega
  | x :: l, i + 1, a, b, h, hlt => by
    simp only [List.getElem?_cons_succ] at h
    have := sum_map_set_lt f l i a b h hlt
    simp only [List.set_cons_succ, List.map_cons, List.sum_cons]
    omega

namespace Single

def rank (t : Thread) : Nat :=
  match t.pc with
  | .check => 7 | .acquire => 6 | .check2 => 5 | .construct => 4
  | .store => 3 | .release => 2 | .read => 1 | .done => 0

def measure (s : State) : Nat := (s.threads.map rank).sum

theorem step_measure {locked : Bool} {s s' : State} {i : Nat} (h : step locked s i = some s') :
    measure s' < measure s := by
  unfold step at h
  split at h
  · cases h
  · rename_i t ht
    unfold measure
    cases locked <;> split at h <;> (try split at h) <;> (try cases h) <;>
      (refine sum_map_set_lt rank _ i t _ ht ?_) <;> simp_all [rank] <;> (try split) <;> simp

theorem measure_init (n : Nat) : measure (init n) = 7 * n := by
  simp [measure, init, rank, Nat.mul_comm]

end Single

namespace Registry

def pcRank : Pc → Nat
  | .acquire => 5 | .contains => 4 | .len => 3 | .setitem => 2 | .release => 1 | .done => 1

def rank (t : Thread) : Nat :=
  match t.names with
  | [] => 0
  | _ :: r => 5 * r.length + pcRank t.pc

def measure (s : State) : Nat := (s.threads.map rank).sum

theorem rank_nextName_lt (t : Thread) (name : Nat) (rest : List Nat) (hn : t.names = name :: rest) :
    rank (nextName true t) < rank t := by
  unfold nextName
  simp only [hn, List.tail_cons]
  cases rest with
  | nil => simp [rank, hn, pcRank]; cases t.pc <;> simp
  | cons a r => simp [rank, hn, firstPc, pcRank]; cases t.pc <;> simp <;> omega

theorem step_measure {s s' : State} {i : Nat} (h : step true s i = some s') :
    measure s' < measure s := by
  unfold step at h
  split at h
  · cases h
  · rename_i t ht
    unfold measure
    split at h
    · cases h
    · rename_i name rest hn
      have hnn := rank_nextName_lt t name rest hn
      split at h <;> (try simp only [if_true] at h) <;> (try split at h) <;> (try cases h) <;>
        (refine sum_map_set_lt rank _ i t _ ht ?_) <;> (try exact hnn) <;>
        simp_all [rank, pcRank]

theorem measure_init (d0 : Dict) (progs : List (List Nat)) :
    measure (init true d0 progs) = 5 * (progs.map List.length).sum := by
  unfold measure init
  simp only [List.map_map]
  induction progs with
  | nil => rfl
  | cons p ps ih =>
    simp only [List.map_cons, List.sum_cons, ih, Function.comp]
    cases p with
    | nil => simp [rank]
    | cons a l => simp [rank, firstPc, pcRank]; omega

end Registry

namespace Tsa

def pcRank : Pc → Nat
  | .getAcquire => 6 | .getClassify => 5 | .setTestFlag => 4 | .setAcquire => 3
  | .setWrite => 2 | .setRelease => 1

def rank (t : Thread) : Nat :=
  match t.stmts with
  | [] => 0
  | _ :: r => 6 * r.length + pcRank t.pc

def measure (s : State) : Nat := (s.threads.map rank).sum

theorem pcRank_pos (pc : Pc) : 1 ≤ pcRank pc := by cases pc <;> simp [pcRank]
theorem pcRank_le (pc : Pc) : pcRank pc ≤ 6 := by cases pc <;> simp [pcRank]

theorem rank_nextStmt_lt (t : Thread) (st : Stmt) (rest : List Stmt) (hn : t.stmts = st :: rest) :
    rank (nextStmt t) < rank t := by
  unfold nextStmt
  simp only [hn, List.tail_cons]
  have := pcRank_pos t.pc
  cases rest with
  | nil => simp [rank, hn]; omega
  | cons a r =>
    have := pcRank_le (startPc a)
    simp [rank, hn]; omega

theorem rank_pc_lt (t : Thread) (st : Stmt) (rest : List Stmt) (hn : t.stmts = st :: rest) (pc : Pc)
    (tmp : Int) (flag : Bool) (h : pcRank pc < pcRank t.pc) :
    rank { stmts := t.stmts, pc := pc, tmp := tmp, flag := flag } < rank t := by
  simp [rank, hn]; exact h

theorem rel_threads' (s : State) (i : Nat) : (rel s i).threads = s.threads := by
  unfold rel; split <;> (try split) <;> rfl

theorem step_measure {s s' : State} {i : Nat} (h : step true s i = some s') :
    measure s' < measure s := by
  unfold step at h
  split at h
  · cases h
  · rename_i t ht
    unfold measure
    split at h
    · cases h
    · rename_i st rest hn
      have hnn := rank_nextStmt_lt t st rest hn
      have hnf : ∀ b, rank (nextStmt { stmts := t.stmts, pc := t.pc, tmp := t.tmp, flag := b }) < rank t :=
        fun b => rank_nextStmt_lt { stmts := t.stmts, pc := t.pc, tmp := t.tmp, flag := b } st rest hn
      simp only [setFlag, getFlag, if_true] at h
      split at h <;> (try split at h) <;> (try cases h) <;> simp only [rel_threads'] <;>
        (refine sum_map_set_lt rank _ i t _ ht ?_) <;> (try exact hnn) <;> (try exact hnf _) <;>
        (apply rank_pc_lt t _ _ (by assumption)) <;> simp_all [pcRank]

theorem measure_init (v0 : Int) (progs : List (List Stmt)) :
    measure (init v0 progs) ≤ 6 * (progs.map List.length).sum := by
  unfold measure init
  simp only [List.map_map]
  induction progs with
  | nil => simp
  | cons p ps ih =>
    simp only [List.map_cons, List.sum_cons, Function.comp] at ih ⊢
    cases p with
    | nil => simp [rank]; exact ih
    | cons a l =>
      have := pcRank_le (startPc a)
      simp [rank]; omega

end Tsa
end Miros.Conc
