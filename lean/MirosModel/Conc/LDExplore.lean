import MirosModel.Conc.LDMeasure
import Std.Data.HashMap
/-!
# Exhaustive exploration of small `LockingDeque` instances (validation, not part of the proofs)

Depth-first search over `stepL` with a visited table keyed by the behaviour-relevant projection
of the state.  Checks: no reachable cycle, `mu` strictly decreases on every transition, `Inv`
holds in every reachable state, every quiescent state is "done".
-/
namespace Miros.Conc.LD.Explore
open Miros.Conc Miros.Conc.LD Miros.Queue

instance : BEq CPc := ⟨fun a b => decide (a = b)⟩
instance : BEq Alg := ⟨fun a b => decide (a = b)⟩

def pcN : PPc → Nat
  | .a0 => 0 | .a1 => 1 | .b1 => 2 | .b2 => 3 | .l1 => 4 | .s0 => 5 | .s1 => 6 | .s2 => 7 | .s3 => 8
  | .f0 => 9 | .f1 => 10 | .c0 => 11 | .c1 => 12

def cpcN : CPc → Nat
  | .t => 0 | .w => 1 | .f => 2 | .n => 3 | .p => 4 | .r0 => 5 | .r1 => 6 | .h => 7 | .q1 => 8 | .q2 => 9
  | .d => 10 | .fin => 11

def kP (p : Poster) : String :=
  let q := if p.pc = .s2 ∨ p.pc = .c1 then p.q else 0
  s!"{p.posts.map fun x => ((if x.1 = .fifo then 0 else 1 : Nat), x.2.sig)};{pcN p.pc};{q}"

def key (s : State) : String :=
  s!"{s.dq.map (·.sig)}|{s.tok}|{s.posters.map kP}|{cpcN s.cpc}|{kP s.inline}|{s.runFlag}|{s.fabFlag}"

structure Res where
  states : Nat := 0
  trans : Nat := 0
  quiescent : Nat := 0
  mu0 : Nat := 0
  cycle : Option String := none
  invFail : Option String := none
  decFail : Option String := none
  quiFail : Option String := none
deriving Repr

def doneB (s : State) : Bool :=
  s.posters.all (fun p => p.posts.isEmpty) && s.inline.posts.isEmpty && s.cpc == .w && s.tok == 0 &&
    s.dq.isEmpty

def explore (c : Config) (wt : Nat → Nat) (checkMu : Bool) (s0 : State) (fuel : Nat := 100000000) :
    Res := Id.run do
  let n := s0.posters.length
  let tids := List.range (n + 1)
  let mut color : Std.HashMap String Nat := {}
  let mut stack : Array (State × String × List Nat × List Nat) := #[(s0, key s0, tids, [])]
  color := color.insert (key s0) 1
  let mut res : Res := { states := 1, mu0 := mu c wt s0 }
  if !invB c s0 then res := { res with invFail := some (key s0) }
  let mut fuel := fuel
  while !stack.isEmpty && fuel > 0 do
    fuel := fuel - 1
    let some (s, k, todo, path) := stack.back? | break
    match todo with
    | [] =>
      color := color.insert k 2
      stack := stack.pop
    | t :: rest =>
      stack := stack.pop.push (s, k, rest, path)
      match stepL c s t with
      | none => pure ()
      | some (s', _) =>
        res := { res with trans := res.trans + 1 }
        if checkMu && !(mu c wt s' < mu c wt s) && res.decFail.isNone then
          res := { res with decFail := some s!"{k} --{t}--> {key s'}  mu {mu c wt s} -> {mu c wt s'} (U {muU wt s}->{muU wt s'} R {muR s}->{muR s'} Lam {muLam s}->{muLam s'} T {muT s}->{muT s'})" }
        let k' := key s'
        match color[k']? with
        | some 1 =>
          if res.cycle.isNone then
            res := { res with cycle := some s!"cycle back to {k'} via schedule {(t :: path).reverse}" }
        | some _ => pure ()
        | none =>
          color := color.insert k' 1
          res := { res with states := res.states + 1 }
          if !invB c s' && res.invFail.isNone then
            res := { res with invFail := some s!"{k'} via {(t :: path).reverse}" }
          if tids.all (fun t => (stepL c s' t).isNone) then
            res := { res with quiescent := res.quiescent + 1 }
            if !doneB s' && res.quiFail.isNone then
              res := { res with quiFail := some s!"{k'} via {(t :: path).reverse}" }
          stack := stack.push (s', k', tids, t :: path)
  if fuel = 0 then res := { res with cycle := some "OUT OF FUEL" }
  return res

def mkProg (base : Nat) (l : List (Kind × Nat)) : List (Kind × Ev) :=
  (List.range l.length).zip l |>.map fun (i, (k, sg)) => (k, ⟨sg, base + i⟩)

def cfg (alg : Alg) (cap : Nat) (refl : Bool) (sp : Nat → List (Kind × Nat)) : Config :=
  { alg := alg, cap := cap, refl := refl, selfPosts := sp, stopSig := 99 }

def noSelf : Nat → List (Kind × Nat) := fun _ => []

def summary (name : String) (r : Res) : String :=
  let bad := r.cycle.isSome || r.invFail.isSome || r.decFail.isSome || r.quiFail.isSome
  s!"{name}: states={r.states} trans={r.trans} quiescent={r.quiescent} mu0={r.mu0} " ++
    (if bad then s!"FAIL cycle={r.cycle} inv={r.invFail} dec={r.decFail} qui={r.quiFail}" else "ok")

def runCase (alg : Alg) (cap : Nat) (refl : Bool) (sp : Nat → List (Kind × Nat)) (depth : Nat)
    (progs : List (List (Kind × Nat))) : String :=
  let c := cfg alg cap refl sp
  let ps := (List.range progs.length).zip progs |>.map fun (i, l) => mkProg (100 * (i + 1)) l
  let r := explore c (wtF sp depth) (alg == .tokenAfter) (init c ps)
  summary s!"alg={repr alg} cap={cap} refl={refl} progs={progs.map fun l => l.map fun x => ((if x.1 = .fifo then "F" else "L"), x.2)}" r

end Miros.Conc.LD.Explore
