import MirosModel.Conc.Small
import MirosModel.Conc.SysLemmas
/-!
# Thread-safe attributes with the per-thread `_is_atomic` flag: inductive invariant
-/
namespace Miros.Conc.Tsa

/-- no program contains a `misread` statement -/
def NoMisread (progs : List (List Stmt)) : Prop := ∀ p ∈ progs, Stmt.misread ∉ p

def Stmt.isAug : Stmt → Bool
  | .aug _ => true
  | _ => false

/-- thread `t` is inside a section that runs under the lock -/
def Holding (t : Thread) : Prop :=
  t.stmts ≠ [] ∧ (t.pc = .getClassify ∨ t.pc = .setWrite ∨ t.pc = .setRelease ∨
    (t.pc = .setTestFlag ∧ t.flag = false))

def Stmt.isRead : Stmt → Bool
  | .read => true
  | _ => false

def Stmt.isAssign : Stmt → Bool
  | .assign _ => true
  | _ => false

/-- the program counters a statement passes through -/
def PcOK (st : Stmt) (pc : Pc) : Prop :=
  st ≠ .misread ∧
  (st.isRead = true → pc = .getAcquire ∨ pc = .getClassify) ∧
  (st.isAssign = true → pc = .setTestFlag ∨ pc = .setAcquire ∨ pc = .setWrite ∨ pc = .setRelease) ∧
  (st.isAug = true → pc ≠ .setAcquire)

theorem startPc_eq (st : Stmt) : startPc st = if st.isAssign = true then .setTestFlag else .getAcquire := by
  cases st <;> rfl

theorem Stmt.kinds (st : Stmt) :
    (st.isRead = true → st.isAssign = false ∧ st.isAug = false) ∧
    (st.isAssign = true → st.isAug = false) := by
  cases st <;> simp [Stmt.isRead, Stmt.isAssign, Stmt.isAug]

theorem nextStmt_stmts (t : Thread) : (nextStmt t).stmts = t.stmts.tail := by
  unfold nextStmt; split <;> simp_all

theorem nextStmt_flag (t : Thread) : (nextStmt t).flag = t.flag := by
  unfold nextStmt; split <;> rfl

theorem nextStmt_tmp (t : Thread) : (nextStmt t).tmp = t.tmp := by
  unfold nextStmt; split <;> rfl

theorem nextStmt_pc (t : Thread) :
    (nextStmt t).pc = match t.stmts.tail with | [] => t.pc | st :: _ => startPc st := by
  unfold nextStmt; split <;> simp_all

theorem rel_owned {s : State} {i : Nat} (ho : s.owner = some i) (hc : s.count = 1) :
    rel s i = { s with owner := none, count := 0 } := by
  simp [rel, ho, hc]

/-- what holds of thread `i` in state `s` -/
def ThreadOK (s : State) (i : Nat) (t : Thread) : Prop :=
  (Holding t → s.owner = some i) ∧
  (∀ st rest, t.stmts = st :: rest → PcOK st t.pc ∧
     (t.flag = false ↔ st.isAug = true ∧ (t.pc = .setTestFlag ∨ t.pc = .setWrite)) ∧
     (st.isAug = true → t.pc = .setTestFlag ∨ t.pc = .setWrite → t.tmp = s.value)) ∧
  (∀ st ∈ t.stmts, st ≠ .misread)

/-- the inductive invariant (per-thread flag, no `misread`) -/
structure Inv (s : State) : Prop where
  noErr : s.err = false
  cnt0 : s.owner = none → s.count = 0
  cnt1 : s.owner ≠ none → s.count = 1
  own : ∀ j, s.owner = some j → ∃ t, s.threads[j]? = some t ∧ Holding t
  thr : ∀ (i : Nat) (t : Thread), s.threads[i]? = some t → ThreadOK s i t

theorem Inv.init (v0 : Int) (progs : List (List Stmt)) (hp : NoMisread progs) :
    Inv (init v0 progs) := by
  refine ⟨rfl, fun _ => rfl, by simp [Tsa.init], by simp [Tsa.init], ?_⟩
  intro i t ht
  simp only [Tsa.init, List.getElem?_map, Option.map_eq_some_iff] at ht
  obtain ⟨p, hpi, rfl⟩ := ht
  have hm := hp p (List.mem_of_getElem? hpi)
  cases p with
  | nil => simp [ThreadOK, Holding]
  | cons st r =>
    cases st <;> simp_all [ThreadOK, Holding, startPc, PcOK, Stmt.isAug, Stmt.isRead, Stmt.isAssign] <;>
      (intro a ha h; exact hm (h ▸ ha))

/-- the end of a statement: the owner releases the lock and moves to its next statement -/
theorem Inv.finish {s : State} {i : Nat} {t0 : Thread} {st : Stmt} {rest : List Stmt} (hI : Inv s)
    (hlt : i < s.threads.length) (hown : s.owner = some i) (hflag : t0.flag = true)
    (hst : t0.stmts = st :: rest) (hm : ∀ st ∈ rest, st ≠ .misread) :
    Inv { value := s.value, owner := none, count := 0, sharedFlag := s.sharedFlag,
          threads := s.threads.set i (nextStmt t0), err := s.err } := by
  obtain ⟨h1, h2, h3, h4, h5⟩ := hI
  generalize hn : nextStmt t0 = t'
  have n1 := nextStmt_stmts t0
  have n2 := nextStmt_flag t0
  have n4 := nextStmt_pc t0
  rw [hn] at n1 n2 n4
  simp only [hst, List.tail_cons] at n1 n4
  refine ⟨h1, by simp, by simp, by simp, ?_⟩
  intro k tk hk
  simp only [List.getElem?_set] at hk
  split at hk
  · simp only [Option.some.injEq] at hk
    subst hk
    subst k
    cases rest with
    | nil => simp [ThreadOK, Holding, n1]
    | cons st' r' =>
      simp only at n4
      have hm' : st' ≠ .misread := hm st' (by simp)
      have hk := Stmt.kinds st'
      refine ⟨?_, ?_, ?_⟩
      · grind [Holding, startPc_eq]
      · grind [PcOK, startPc_eq]
      · intro st hs
        rw [n1] at hs
        exact hm st hs
  · have := h5 k tk hk
    grind [ThreadOK, Holding]

theorem Inv.step {s s' : State} {i : Nat} (hI : Inv s) (h : step true s i = some s') : Inv s' := by
  unfold Tsa.step at h
  split at h
  · cases h
  · rename_i t ht
    have hlt : i < s.threads.length := (List.getElem?_eq_some_iff.mp ht).1
    have hT := hI.thr i t ht
    obtain ⟨h1, h2, h3, h4, h5⟩ := hI
    split at h
    · cases h
    · rename_i st rest hst
      simp only [setFlag, getFlag, if_true] at h
      split at h
      · -- getAcquire
        split at h
        · cases h
        · cases h
          rename_i hpc hen
          have hown : s.owner = none := by
            cases ho : s.owner with
            | none => rfl
            | some j =>
              exfalso
              have : j = i := by
                apply Classical.byContradiction
                intro hne
                exact hen ⟨by simp [ho], by simp [ho, hne]⟩
              subst this
              obtain ⟨tj, htj, hh⟩ := h4 j ho
              rw [ht] at htj; cases htj
              simp [Holding, hpc] at hh
          have hc := h2 hown
          refine ⟨h1, by simp, by simp [hc], ?_, ?_⟩
          · grind [ThreadOK, Holding, PcOK, Stmt.isAug]
          · grind [ThreadOK, Holding, PcOK, Stmt.isAug]
      · -- getClassify
        rename_i hpc
        have hown : s.owner = some i := hT.1 ⟨by simp [hst], Or.inl hpc⟩
        have hc : s.count = 1 := h3 (by simp [hown])
        split at h
        · -- read
          cases h
          rw [rel_owned hown hc]
          exact Inv.finish (s := s) ⟨h1, h2, h3, h4, h5⟩ hlt hown (t0 := { stmts := t.stmts, pc := t.pc, tmp := t.tmp, flag := true })
            rfl hst (fun st hs => hT.2.2 st (by rw [hst]; exact List.mem_cons_of_mem _ hs))
        · -- aug
          cases h
          refine ⟨h1, by simp [hown], by simp [hc], ?_, ?_⟩
          · grind [Holding]
          · grind [ThreadOK, Holding, PcOK, Stmt.isAug, Stmt.isRead, Stmt.isAssign]
        · -- misread
          exact absurd rfl (hT.2.1 _ _ hst).1.1
        · -- assign
          have := (hT.2.1 _ _ hst).1.2.2.1 rfl
          simp [hpc] at this
      · -- setTestFlag
        rename_i hpc
        have hk := Stmt.kinds st
        split at h
        · cases h
          refine ⟨h1, h2, h3, ?_, ?_⟩
          · grind [ThreadOK, Holding, PcOK]
          · grind [ThreadOK, Holding, PcOK]
        · cases h
          refine ⟨h1, h2, h3, ?_, ?_⟩
          · grind [ThreadOK, Holding, PcOK]
          · grind [ThreadOK, Holding, PcOK]
      · -- setAcquire
        split at h
        · cases h
        · cases h
          rename_i hpc hen
          have hk := Stmt.kinds st
          have hown : s.owner = none := by
            cases ho : s.owner with
            | none => rfl
            | some j =>
              exfalso
              have : j = i := by
                apply Classical.byContradiction
                intro hne
                exact hen ⟨by simp [ho], by simp [ho, hne]⟩
              subst this
              obtain ⟨tj, htj, hh⟩ := h4 j ho
              rw [ht] at htj; cases htj
              simp [Holding, hpc] at hh
          have hc := h2 hown
          refine ⟨h1, by simp, by simp [hc], ?_, ?_⟩
          · grind [ThreadOK, Holding, PcOK]
          · grind [ThreadOK, Holding, PcOK]
      · -- setWrite
        rename_i hpc
        have hk := Stmt.kinds st
        have hown : s.owner = some i := hT.1 ⟨by simp [hst], Or.inr (Or.inl hpc)⟩
        cases h
        refine ⟨h1, by simp [hown], by simpa using h3, ?_, ?_⟩
        · grind [ThreadOK, Holding, PcOK]
        · grind [ThreadOK, Holding, PcOK]
      · -- setRelease
        rename_i hpc
        have hown : s.owner = some i := hT.1 ⟨by simp [hst], Or.inr (Or.inr (Or.inl hpc))⟩
        have hc : s.count = 1 := h3 (by simp [hown])
        cases h
        rw [rel_owned hown hc]
        have hf : t.flag = true := by
          have := (hT.2.1 _ _ hst).2.1
          cases hfl : t.flag with
          | true => rfl
          | false => have := this.mp hfl; simp [hpc] at this
        exact Inv.finish (s := s) ⟨h1, h2, h3, h4, h5⟩ hlt hown hf hst
          (fun st hs => hT.2.2 st (by rw [hst]; exact List.mem_cons_of_mem _ hs))

theorem Inv.run (v0 : Int) (progs : List (List Stmt)) (hp : NoMisread progs) (sched : List Nat) :
    Inv ((sys true).run (Tsa.init v0 progs) sched) :=
  (sys true).inv_run Inv (fun _ _ _ hI h => hI.step h) sched _ (Inv.init v0 progs hp)

/-- a thread with statements left that is not waiting for a lock held by another thread can move -/
theorem enabled {s : State} {i : Nat} {t : Thread} (ht : s.threads[i]? = some t)
    (hn : t.stmts ≠ [])
    (ha : t.pc = .getAcquire ∨ t.pc = .setAcquire → s.owner = none ∨ s.owner = some i) :
    step true s i ≠ none := by
  unfold Tsa.step
  simp only [ht]
  cases hst : t.stmts with
  | nil => exact absurd hst hn
  | cons st rest =>
    cases hp : t.pc
    · rcases ha (Or.inl hp) with h | h <;> simp [h]
    · cases st <;> simp [setFlag]
    · simp only [getFlag, if_true]; split <;> simp
    · rcases ha (Or.inr hp) with h | h <;> simp [h]
    · simp [setFlag]
    · simp

/-- no deadlock: in a quiescent state satisfying the invariant every thread has run all its
statements and the lock is free -/
theorem quiescent_done {s : State} (hI : Inv s) (hq : (sys true).Quiescent s) :
    (∀ (i : Nat) (t : Thread), s.threads[i]? = some t → t.stmts = []) ∧ s.owner = none ∧ s.count = 0 := by
  have hown : s.owner = none := by
    cases ho : s.owner with
    | none => rfl
    | some j =>
      exfalso
      obtain ⟨tj, htj, hh⟩ := hI.own j ho
      exact enabled htj hh.1 (fun _ => Or.inr ho) (hq j)
  refine ⟨?_, hown, hI.cnt0 hown⟩
  intro i t ht
  apply Classical.byContradiction
  intro hn
  exact enabled ht hn (fun _ => Or.inl hown) (hq i)

end Miros.Conc.Tsa
