import MirosModel.Conc.AOArm
/-!
# `stop()` called from one of the object's own handlers

A sibling of `Miros.Conc.AOArm` (one step = one critical section; `Src`, `newSrc`, `trackedCount`,
`trackedIdx`, `cancelSrc`, `fire` are reused from there).

* the **consumer** thread (`run_event`): `while run_flag.is_set(): queue.wait(); if head is not STOP:
  next_rtc() else: run_flag.clear()`.  The handler of `arm` arms the next timed source exactly as in
  `AOArm` (capacity test, `newSrc`, tracked).  The handler of `halt` calls `self.stop()` **on the consumer
  thread itself**: `run_flag.clear()` (`hClear`) ; `queue.append(STOP)` (`hAppend`) ; `self.thread.join()`
  raises `RuntimeError` (the current thread cannot be joined), which `stop()` catches ; `snapshot =
  list(posted_events_queue)` ; for each record of the snapshot `cancel_events(record)` (`hCancel`, one step
  per record, by signal name) ; the handler returns, the run-to-completion step ends, the loop test finds
  the flag cleared and the thread ends (`fin`).
  `queue.wait()` can also return on a surplus wake-up token while the deque is empty (step `w`);
* a **timer** thread per source, as in `AOArm` (`fire`);
* the **client** `K`: posts `nPosts` `arm` events, then one `halt` event, then `nMore` further `arm`
  events (which stay in the queue for ever), and is done.  It never calls `stop()`.

Tags (two plausible bad variants): `clearsFlag = false` — `stop()` does not clear the run flag itself and
relies on the STOP event it appends; `ownJoinSkipped = false` — the `RuntimeError` of joining the own thread
is not caught: it propagates out of the handler and kills the consumer thread (`dead`) before the cancel
loop.

Ghost fields: `posts`, `postsAfterStop` (per source; the latter counts the posts made after `haltDone`),
`haltDone`, `stepsAfterHalt`.
-/
namespace Miros.Conc.AOOwn
open Miros.Conc.AOArm (Src newSrc trackedCount trackedIdx cancelSrc fire)

structure Tags where
  clearsFlag : Bool
  ownJoinSkipped : Bool
deriving DecidableEq, Repr

inductive Ev
  | arm
  | halt
  | stop
  | tick (src : Nat)
deriving DecidableEq, Repr

/-- consumer: about to test the run flag / blocked in `queue.wait()` then one RTC step / inside the HALT
handler's `stop()`: before `run_flag.clear()`, before `queue.append(STOP)`, in the cancel loop / ended /
killed by the uncaught `RuntimeError` -/
inductive CPc
  | check
  | wait
  | hClear
  | hAppend
  | hCancel (snap : List Nat)
  | fin
  | dead
deriving DecidableEq, Repr

inductive KPc
  | post (n : Nat)
  | halt
  | more (n : Nat)
  | done
deriving DecidableEq, Repr

structure State where
  q : List Ev
  runFlag : Bool
  c : CPc
  k : KPc
  nMore : Nat
  srcs : List Src
  arms : List (Nat × Nat)  -- (`times`, signal name) of the sources still to be armed by ARM handlers
  cap : Nat
  haltDone : Bool          -- ghost: the stop() call made by the HALT handler is over
  stepsAfterHalt : Nat     -- ghost: run-to-completion steps begun after `haltDone`
deriving DecidableEq, Repr

/-- client K / consumer / timer thread of source `i` / surplus wake-up of the consumer -/
inductive Step
  | k
  | c
  | t (i : Nat)
  | w
deriving DecidableEq, Repr

def kStep (s : State) : Option State :=
  match s.k with
  | .post (n + 1) => some { s with q := s.q ++ [.arm], k := .post n }
  | .post 0 => some { s with k := .halt }
  | .halt => some { s with q := s.q ++ [.halt], k := .more s.nMore }
  | .more (n + 1) => some { s with q := s.q ++ [.arm], k := .more n }
  | .more 0 => some { s with k := .done }
  | .done => none

/-- the run-to-completion step counter after a pop -/
def bump (s : State) : Nat := if s.haltDone then s.stepsAfterHalt + 1 else s.stepsAfterHalt

def cStep (g : Tags) (s : State) : Option State :=
  match s.c with
  | .check => if s.runFlag then some { s with c := .wait } else some { s with c := .fin }
  | .wait =>
    match s.q with
    | [] => none
    | .stop :: _ => some { s with runFlag := false, c := .check }
    | .arm :: rest =>
      match s.arms with
      | [] => some { s with q := rest, c := .check, stepsAfterHalt := bump s }
      | a :: as =>
        if trackedCount s.srcs < s.cap then
          some { s with q := rest, srcs := s.srcs ++ [newSrc a], arms := as, c := .check,
                        stepsAfterHalt := bump s }
        else
          some { s with q := rest, arms := as, c := .check, stepsAfterHalt := bump s }
    | .tick _ :: rest => some { s with q := rest, c := .check, stepsAfterHalt := bump s }
    | .halt :: rest => some { s with q := rest, c := .hClear, stepsAfterHalt := bump s }
  | .hClear => some { s with runFlag := if g.clearsFlag then false else s.runFlag, c := .hAppend }
  | .hAppend =>
    if g.ownJoinSkipped then
      some { s with q := s.q ++ [.stop], c := .hCancel (trackedIdx s.srcs) }
    else
      some { s with q := s.q ++ [.stop], haltDone := true, c := .dead }
  | .hCancel (i :: r) => some { s with srcs := cancelSrc s.srcs i, c := .hCancel r }
  | .hCancel [] => some { s with haltDone := true, c := .check }
  | .fin => none
  | .dead => none

def tStep (s : State) (i : Nat) : Option State :=
  match s.srcs[i]? with
  | none => none
  | some x =>
    if x.flag then
      some { s with q := s.q ++ [.tick i], srcs := s.srcs.set i (fire s.haltDone x) }
    else none

/-- surplus wake-up: enabled iff the consumer is waiting and the queue is empty; it does nothing and goes
back to its loop test -/
def wStep (s : State) : Option State :=
  match s.c, s.q with
  | .wait, [] => some { s with c := .check }
  | _, _ => none

def step (g : Tags) (s : State) : Step → Option State
  | .k => kStep s
  | .c => cStep g s
  | .t i => tStep s i
  | .w => wStep s

def sys (g : Tags) : System State Step where
  step := step g

def init (cap : Nat) (arms : List (Nat × Nat)) (nPosts nMore : Nat) : State :=
  { q := [], runFlag := true, c := .check, k := .post nPosts, nMore := nMore, srcs := [], arms := arms,
    cap := cap, haltDone := false, stepsAfterHalt := 0 }

/-- number of schedule entries that were skipped because the chosen thread was blocked -/
def blockedCount (g : Tags) : State → List Step → Nat
  | _, [] => 0
  | s, t :: ts =>
    match step g s t with
    | some s' => blockedCount g s' ts
    | none => blockedCount g s ts + 1

/-! ### the schedule that completes the HALT handler and ends the thread -/

/-- the client has posted HALT -/
def KPc.pastHalt : KPc → Bool
  | .more _ => true
  | .done => true
  | _ => false

/-- the consumer is inside the HALT handler's `stop()` -/
def CPc.inHandler : CPc → Bool
  | .hClear => true
  | .hAppend => true
  | .hCancel _ => true
  | _ => false

/-- the consumer is in the cancel loop of the HALT handler's `stop()` (STOP has been appended) -/
def CPc.inCancel : CPc → Bool
  | .hCancel _ => true
  | _ => false

/-- client steps needed to get HALT posted -/
def kLead : KPc → Nat
  | .post n => n + 2
  | .halt => 1
  | _ => 0

def snapLen : CPc → Nat
  | .hCancel snap => snap.length
  | _ => 0

/-- number of events in front of the first HALT (the whole length if there is none) -/
def pre : List Ev → Nat
  | [] => 0
  | .halt :: _ => 0
  | _ :: rest => pre rest + 1

/-- an upper bound on the number of consumer steps needed to reach `fin` once HALT has been posted: two
steps per event in front of HALT (plus one source each may arm), the HALT pop, `run_flag.clear()`,
`queue.append(STOP)`, one step per snapshot record, the return, the loop test.  No step of any thread
increases it; every consumer step decreases it. -/
def rank (s : State) : Nat :=
  match s.c with
  | .check => if s.runFlag then 3 * pre s.q + s.srcs.length + 6 else 1
  | .wait => 3 * pre s.q + s.srcs.length + 5
  | .hClear => s.srcs.length + 4
  | .hAppend => s.srcs.length + 3
  | .hCancel snap => snap.length + 2
  | .fin => 0
  | .dead => 0

/-- a closed-form bound on `rank` after the client's `kLead` steps -/
def cBound (s : State) : Nat := 3 * (s.q.length + kLead s.k) + s.srcs.length + 6 + snapLen s.c

/-- let the client post HALT, then let the consumer run alone: the events in front of HALT, the HALT
handler with its `stop()`, the loop test (timer threads and the surplus wake-up are not scheduled at all;
consumer entries that find the thread ended are skipped by `run`) -/
def haltSched (s : State) : List Step :=
  List.replicate (kLead s.k) .k ++ List.replicate (cBound s) .c

/-- length of `haltSched` -/
def haltMeasure (s : State) : Nat := kLead s.k + cBound s

end Miros.Conc.AOOwn
