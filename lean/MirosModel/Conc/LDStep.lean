import MirosModel.Conc.LDMeasure
/-!
# `tokenAfter`: the poster primitives as a relation, facts about the bounded-deque operations
-/
namespace Miros.Conc.LD
open Miros.Queue

/-! ### the bounded deque -/

theorem dropLast_concat_of_getLast? {l : List Ev} {x : Ev} (h : l.getLast? = some x) :
    l.dropLast ++ [x] = l := by
  obtain ⟨ys, rfl⟩ := List.getLast?_eq_some_iff.mp h
  simp

theorem dqAppend_length (cap : Nat) (l : List Ev) (x : Ev) :
    (dqAppend cap l x).1.length = if l.length < cap then l.length + 1 else l.length := by
  unfold dqAppend; split <;> simp

theorem dqAppendLeft_length (cap : Nat) (l : List Ev) (x : Ev) (h : l.length ≤ cap) :
    (dqAppendLeft cap l x).1.length = if l.length < cap then l.length + 1 else l.length := by
  unfold dqAppendLeft; split <;> simp <;> omega

theorem dqRotate_length (l : List Ev) : (dqRotate l).length = l.length := by
  unfold dqRotate
  cases h : l.getLast? with
  | none => simp [List.getLast?_eq_none_iff] at h; simp [h]
  | some x =>
    have := dropLast_concat_of_getLast? h
    have h2 : (l.dropLast ++ [x]).length = l.length := by rw [this]
    simp at h2 ⊢; omega

theorem mem_dqAppend {cap : Nat} {l : List Ev} {x e : Ev} (h : e ∈ (dqAppend cap l x).1) :
    e ∈ l ∨ e = x := by
  unfold dqAppend at h; split at h
  · simpa using h
  · have := List.mem_of_mem_drop h; simpa using this

theorem mem_dqAppendLeft {cap : Nat} {l : List Ev} {x e : Ev} (h : e ∈ (dqAppendLeft cap l x).1) :
    e ∈ l ∨ e = x := by
  unfold dqAppendLeft at h; split at h
  · simp at h; rcases h with h | h <;> simp [h]
  · have := List.mem_of_mem_take h; simp at this; rcases this with h | h <;> simp [h]

theorem mem_dqRotate {l : List Ev} {e : Ev} (h : e ∈ dqRotate l) : e ∈ l := by
  unfold dqRotate at h
  cases hl : l.getLast? with
  | none => rw [hl] at h; simp at h
  | some x =>
    rw [hl] at h
    have := dropLast_concat_of_getLast? hl
    rw [← this]
    simp at h ⊢; rcases h with h | h <;> simp [h]

theorem dqW_append (wt : Nat → Nat) (l m : List Ev) : dqW wt (l ++ m) = dqW wt l + dqW wt m := by
  simp [dqW]

theorem dqW_drop_le (wt : Nat → Nat) (n : Nat) (l : List Ev) : dqW wt (l.drop n) ≤ dqW wt l := by
  have := dqW_append wt (l.take n) (l.drop n)
  rw [List.take_append_drop] at this; omega

theorem dqW_take_le (wt : Nat → Nat) (n : Nat) (l : List Ev) : dqW wt (l.take n) ≤ dqW wt l := by
  have := dqW_append wt (l.take n) (l.drop n)
  rw [List.take_append_drop] at this; omega

theorem dqW_dqAppend (wt : Nat → Nat) (cap : Nat) (l : List Ev) (x : Ev) :
    dqW wt (dqAppend cap l x).1 ≤ dqW wt l + wt x.sig := by
  unfold dqAppend; split
  · simp [dqW]
  · have := dqW_drop_le wt 1 (l ++ [x]); simp [dqW] at this ⊢; omega

theorem dqW_dqAppendLeft (wt : Nat → Nat) (cap : Nat) (l : List Ev) (x : Ev) :
    dqW wt (dqAppendLeft cap l x).1 ≤ dqW wt l + wt x.sig := by
  unfold dqAppendLeft; split
  · simp [dqW]; omega
  · have := dqW_take_le wt cap (x :: l); simp [dqW] at this ⊢; omega

theorem dqW_dqRotate (wt : Nat → Nat) (l : List Ev) : dqW wt (dqRotate l) = dqW wt l := by
  unfold dqRotate
  cases hl : l.getLast? with
  | none => simp [List.getLast?_eq_none_iff] at hl; simp [hl]
  | some x =>
    have := dropLast_concat_of_getLast? hl
    have h2 := dqW_append wt l.dropLast [x]
    rw [this] at h2
    simp [dqW] at h2 ⊢; omega

/-! ### poster primitives of `tokenAfter` -/

/-- one primitive of a `tokenAfter` posting program, without the label -/
inductive PStep (c : Config) (sh : Shared) (p : Poster) : Shared → Poster → Prop
  | adv (x rest pc') : p.posts = x :: rest → p.pc = .a0 →
      (pc' = .a1 ∧ sh.dq.length < c.cap ∨ pc' = .b1 ∧ c.cap ≤ sh.dq.length) →
      PStep c sh p sh { p with pc := pc' }
  | rot (x rest) : p.posts = x :: rest → p.pc = .b1 →
      PStep c sh p { sh with dq := dqRotate sh.dq } { p with pc := .b2 }
  | place (x rest r) : p.posts = x :: rest →
      ((p.pc = .a1 ∨ p.pc = .b2) ∧ r = dqAppend c.cap sh.dq x.2 ∨
        p.pc = .l1 ∧ r = dqAppendLeft c.cap sh.dq x.2) →
      PStep c sh p { sh with dq := r.1, displaced := sh.displaced ++ r.2 } { p with pc := .s0 }
  | put (x rest) : p.posts = x :: rest → (p.pc = .s0 ∨ p.pc = .s3) → sh.tok < c.cap →
      PStep c sh p { sh with tok := sh.tok + 1, unfinished := sh.unfinished + 1 } { p with pc := .s1 }
  | exit (x rest) : p.posts = x :: rest →
      (p.pc = .s0 ∧ c.cap ≤ sh.tok ∨ p.pc = .s2 ∧ sh.dq.length ≤ p.q ∨ p.pc = .s3 ∧ c.cap ≤ sh.tok) →
      PStep c sh p sh (nextPost c.alg p)
  | read (x rest) : p.posts = x :: rest → p.pc = .s1 →
      PStep c sh p sh { p with pc := .s2, q := sh.tok }
  | again (x rest) : p.posts = x :: rest → p.pc = .s2 → p.q < sh.dq.length →
      PStep c sh p sh { p with pc := .s3 }

theorem posterStep_PStep {c : Config} (halg : c.alg = .tokenAfter) {sh sh' : Shared} {p p' : Poster}
    {lbl : String} (hpc : taPc p.pc = true) (h : posterStep c sh p = some (sh', p', lbl)) :
    PStep c sh p sh' p' := by
  unfold posterStep at h
  split at h
  · cases h
  · rename_i k e rest hposts
    split at h
    · split at h <;> cases h
      · exact .adv _ _ _ hposts ‹_› (.inl ⟨rfl, ‹_›⟩)
      · exact .adv _ _ _ hposts ‹_› (.inr ⟨rfl, by omega⟩)
    · simp only [halg] at h; cases h
      exact .place (k, e) rest _ hposts (.inl ⟨.inl ‹_›, rfl⟩)
    · cases h; exact .rot _ _ hposts ‹_›
    · simp only [halg] at h; cases h
      exact .place (k, e) rest _ hposts (.inl ⟨.inr ‹_›, rfl⟩)
    · simp only [halg] at h; cases h
      exact .place (k, e) rest _ hposts (.inr ⟨‹_›, rfl⟩)
    · split at h <;> cases h
      · exact .put _ _ hposts (.inl ‹_›) ‹_›
      · exact .exit _ _ hposts (.inl ⟨‹_›, by omega⟩)
    · cases h; exact .read _ _ hposts ‹_›
    · simp only [halg] at h
      split at h <;> cases h
      · rename_i hq; exact .again _ _ hposts ‹_› (by simpa using hq)
      · rename_i hq
        have h1 := PStep.exit (c := c) (sh := sh) (p := p) _ _ hposts (.inr (.inl ⟨‹_›, by simpa using hq⟩))
        rwa [halg] at h1
    · simp only [halg] at h
      split at h <;> cases h
      · exact .put _ _ hposts (.inr ‹_›) ‹_›
      · have h1 := PStep.exit (c := c) (sh := sh) (p := p) _ _ hposts (.inr (.inr ⟨‹_›, by omega⟩))
        rwa [halg] at h1
    all_goals (rename_i hp; rw [hp] at hpc; simp [taPc] at hpc)

/-- a `tokenAfter` post in progress can always take its next step -/
theorem posterStep_isSome {c : Config} (halg : c.alg = .tokenAfter) (sh : Shared) {p : Poster}
    (hne : p.posts ≠ []) (hpc : p.pc ≠ .f1) : posterStep c sh p ≠ none := by
  cases hp : p.posts with
  | nil => contradiction
  | cons x rest =>
    obtain ⟨k, e⟩ := x
    unfold posterStep; rw [hp]; simp only
    cases hpc' : p.pc <;> simp [halg] <;> (try split) <;> (try cases k) <;> simp_all

end Miros.Conc.LD
