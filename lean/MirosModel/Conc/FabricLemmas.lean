import MirosModel.Conc.Fabric
/-!
# Sequential lemmas about the active-fabric model

Registry (`subscribe` / `get`), `deliver`, `minFE`, `drain`.
-/
namespace Miros.Conc.Fab

theorem eq_of_nodup_map {α β : Type} {f : α → β} {l : List α} (h : (l.map f).Nodup) {x y : α}
    (hx : x ∈ l) (hy : y ∈ l) (e : f x = f y) : x = y := by
  induction l with
  | nil => simp at hx
  | cons z l ih =>
    simp only [List.map_cons, List.nodup_cons, List.mem_map] at h
    simp only [List.mem_cons] at hx hy
    rcases hx with rfl | hx <;> rcases hy with rfl | hy
    · rfl
    · exact absurd ⟨y, hy, e.symm⟩ h.1
    · exact absurd ⟨x, hx, e⟩ h.1
    · exact ih h.2 hx hy

theorem nodup_of_nodup_map {α β : Type} {f : α → β} {l : List α} (h : (l.map f).Nodup) : l.Nodup :=
  List.Pairwise.of_map f (fun _ _ hne e => hne (congrArg f e)) h

/-! ### registry -/

/-- keys are distinct and no subscriber list contains a queue twice -/
def Registry.WF (r : Registry) : Prop := (r.map (·.1)).Nodup ∧ ∀ x ∈ r, x.2.Nodup

theorem Registry.WF_nil : Registry.WF [] := by simp [Registry.WF]

theorem Registry.get_nil (sig : Nat) : Registry.get [] sig = none := rfl

theorem Registry.get_cons (x : Nat × List Nat) (r : Registry) (sig : Nat) :
    Registry.get (x :: r) sig = if x.1 = sig then some x.2 else Registry.get r sig := by
  unfold Registry.get
  by_cases h : x.1 = sig <;> simp [h]

theorem Registry.get_eq_none {r : Registry} {sig : Nat} :
    r.get sig = none ↔ ∀ x ∈ r, x.1 ≠ sig := by
  induction r with
  | nil => simp [Registry.get_nil]
  | cons x r ih =>
    rw [Registry.get_cons]
    by_cases h : x.1 = sig <;> simp [h, ih]

theorem Registry.get_some_mem {r : Registry} {sig : Nat} {qs : List Nat}
    (h : r.get sig = some qs) : (sig, qs) ∈ r := by
  induction r with
  | nil => simp [Registry.get_nil] at h
  | cons x r ih =>
    rw [Registry.get_cons] at h
    by_cases hx : x.1 = sig
    · simp [hx] at h
      have : x = (sig, qs) := by cases x; simp_all
      simp [this]
    · simp [hx] at h
      exact List.mem_cons_of_mem _ (ih h)

theorem Registry.get_append (r r2 : Registry) (sig : Nat) :
    Registry.get (r ++ r2) sig = (r.get sig).or (r2.get sig) := by
  induction r with
  | nil => simp [Registry.get_nil]
  | cons x r ih =>
    simp only [List.cons_append, Registry.get_cons]
    by_cases h : x.1 = sig <;> simp [h, ih]

/-- `get` after adding `q` to the entries for `sig` -/
theorem Registry.get_map_add (r : Registry) (sig q sig' : Nat) :
    Registry.get (r.map (fun x => if x.1 = sig then (x.1, x.2 ++ [q]) else x)) sig' =
      (r.get sig').map (fun qs => if sig' = sig then qs ++ [q] else qs) := by
  induction r with
  | nil => simp [Registry.get_nil]
  | cons x r ih =>
    simp only [List.map_cons, Registry.get_cons]
    by_cases hs : x.1 = sig
    · by_cases h : x.1 = sig'
      · have h1 : sig' = sig := by omega
        have h2 : sig = sig' := by omega
        simp [hs, h1]
      · have h2 : ¬ sig = sig' := by omega
        simp [hs, h2, ih]
    · by_cases h : x.1 = sig'
      · have h1 : ¬ sig' = sig := by omega
        simp [h, h1]
      · simp [hs, h, ih]

/-- closed form of `get` after `subscribe` -/
theorem Registry.get_subscribe (r : Registry) (sig q sig' : Nat) :
    (r.subscribe sig q).get sig' =
      if sig' = sig then
        match r.get sig with
        | none => some [q]
        | some qs => if q ∈ qs then some qs else some (qs ++ [q])
      else r.get sig' := by
  unfold Registry.subscribe
  cases hg : r.get sig with
  | none =>
    simp only [Registry.get_append, Registry.get_cons, Registry.get_nil]
    by_cases h : sig' = sig
    · subst h; simp [hg]
    · have h' : ¬ sig = sig' := fun e => h e.symm
      simp [h, h']
  | some qs =>
    by_cases hc : q ∈ qs
    · simp only [List.contains_eq_mem, hc, decide_true, if_true]
      by_cases h : sig' = sig
      · subst h; simp [hg]
      · simp [h]
    · simp only [List.contains_eq_mem, hc, decide_false]
      rw [if_neg (by simp), Registry.get_map_add]
      by_cases h : sig' = sig
      · subst h; simp [hg]
      · simp [h]

theorem Registry.subscribe_idem (r : Registry) (sig q : Nat) :
    (r.subscribe sig q).subscribe sig q = r.subscribe sig q := by
  have hg := Registry.get_subscribe r sig q sig
  simp only [if_true] at hg
  generalize r.subscribe sig q = r' at hg ⊢
  cases h : r.get sig with
  | none => rw [h] at hg; simp [Registry.subscribe, hg]
  | some qs =>
    rw [h] at hg
    by_cases hc : q ∈ qs
    · simp [hc] at hg; simp [Registry.subscribe, hg, hc]
    · simp [hc] at hg; simp [Registry.subscribe, hg]

theorem Registry.mem_get_subscribe (r : Registry) (sig q sig' q' : Nat) :
    q' ∈ ((r.subscribe sig q).get sig').getD [] ↔
      (q' ∈ (r.get sig').getD [] ∨ (sig' = sig ∧ q' = q)) := by
  rw [Registry.get_subscribe]
  by_cases h : sig' = sig
  · subst h
    cases hg : r.get sig' with
    | none => simp
    | some qs =>
      by_cases hc : q ∈ qs
      · simp [hc]
        intro e; subst e; exact hc
      · simp [hc]
  · simp [h]

theorem Registry.nodup_get_subscribe (r : Registry) (sig q sig' : Nat)
    (h : ((r.get sig').getD []).Nodup) : (((r.subscribe sig q).get sig').getD []).Nodup := by
  rw [Registry.get_subscribe]
  by_cases hs : sig' = sig
  · subst hs
    cases hg : r.get sig' with
    | none => simp
    | some qs =>
      rw [hg] at h
      by_cases hc : q ∈ qs
      · simpa [hc] using h
      · simp only [hc, if_false, if_true, Option.getD_some]
        simp at h
        exact List.nodup_append.2 ⟨h, by simp, by simp; intro a ha e; subst e; exact hc ha⟩
  · simpa [hs] using h

theorem Registry.WF.nodup_get {r : Registry} (h : r.WF) (sig : Nat) :
    ((r.get sig).getD []).Nodup := by
  cases hg : r.get sig with
  | none => simp
  | some qs => exact h.2 _ (Registry.get_some_mem hg)

theorem Registry.keys_subscribe_of_some (r : Registry) (sig q : Nat) :
    (r.map (fun x => if x.1 = sig then (x.1, x.2 ++ [q]) else x)).map (·.1) = r.map (·.1) := by
  induction r with
  | nil => rfl
  | cons x r ih =>
    simp only [List.map_cons, ih]
    by_cases h : x.1 = sig <;> simp [h]

theorem Registry.WF.subscribe {r : Registry} (h : r.WF) (sig q : Nat) : (r.subscribe sig q).WF := by
  unfold Registry.subscribe
  cases hg : r.get sig with
  | none =>
    refine ⟨?_, ?_⟩
    · have hn := Registry.get_eq_none.1 hg
      simp only [List.map_append, List.map_cons, List.map_nil]
      refine List.nodup_append.2 ⟨h.1, by simp, ?_⟩
      simp only [List.mem_map, List.mem_singleton]
      rintro a ⟨x, hx, rfl⟩ b rfl
      exact hn x hx
    · intro x hx
      simp only [List.mem_append, List.mem_singleton] at hx
      rcases hx with hx | rfl
      · exact h.2 x hx
      · simp
  | some qs =>
    by_cases hc : q ∈ qs
    · simpa [hc] using h
    · simp only [List.contains_eq_mem, hc, decide_false]
      rw [if_neg (by simp)]
      refine ⟨by rw [Registry.keys_subscribe_of_some]; exact h.1, ?_⟩
      intro x hx
      simp only [List.mem_map] at hx
      obtain ⟨y, hy, rfl⟩ := hx
      by_cases hs : y.1 = sig
      · simp only [hs, if_true]
        -- `y` is the unique entry with key `sig`, hence `y.2 = qs`
        have hmem := Registry.get_some_mem hg
        have : y = (sig, qs) := eq_of_nodup_map h.1 hy hmem hs
        subst this
        have hq := h.2 _ hy
        exact List.nodup_append.2 ⟨hq, by simp, by simp; intro a ha e; subst e; exact hc ha⟩
      · simp only [hs, if_false]; exact h.2 y hy

/-- folding `subscribe` over a list of `(signal, queue)` pairs -/
def Registry.subscribeAll (r : Registry) (pairs : List (Nat × Nat)) : Registry :=
  pairs.foldl (fun r p => r.subscribe p.1 p.2) r

theorem Registry.WF.subscribeAll {r : Registry} (h : r.WF) (pairs : List (Nat × Nat)) :
    (r.subscribeAll pairs).WF := by
  induction pairs generalizing r with
  | nil => exact h
  | cons p ps ih => exact ih (h.subscribe p.1 p.2)

theorem Registry.mem_get_subscribeAll (r : Registry) (pairs : List (Nat × Nat)) (sig q : Nat) :
    q ∈ ((r.subscribeAll pairs).get sig).getD [] ↔ (q ∈ (r.get sig).getD [] ∨ (sig, q) ∈ pairs) := by
  induction pairs generalizing r with
  | nil => simp [Registry.subscribeAll]
  | cons p ps ih =>
    have := ih (r.subscribe p.1 p.2)
    simp only [Registry.subscribeAll, List.foldl_cons] at this ⊢
    rw [this, Registry.mem_get_subscribe]
    cases p
    simp only [List.mem_cons, Prod.mk.injEq]
    constructor
    · rintro ((h | h) | h) <;> simp [h]
    · rintro (h | h | h) <;> simp [h]

/-! ### deliver -/

@[simp] theorem deliverTo_id (t : Tags) (k : Kind) (e : PEv) (q : SubQ) : (deliverTo t k e q).id = q.id := by
  unfold deliverTo; split <;> try split
  all_goals rfl

@[simp] theorem deliverTo_isAO (t : Tags) (k : Kind) (e : PEv) (q : SubQ) :
    (deliverTo t k e q).isAO = q.isAO := by
  unfold deliverTo; split <;> try split
  all_goals rfl

/-- the event is added once, at the front or at the back -/
theorem deliverTo_items (t : Tags) (k : Kind) (e : PEv) (q : SubQ) :
    (deliverTo t k e q).items = e :: q.items ∨ (deliverTo t k e q).items = q.items ++ [e] := by
  unfold deliverTo; split <;> try split
  all_goals simp

theorem deliverTo_count (t : Tags) (k : Kind) (e : PEv) (q : SubQ) :
    List.count e (deliverTo t k e q).items = List.count e q.items + 1 := by
  rcases deliverTo_items t k e q with h | h <;> rw [h] <;> simp [List.count_append]

theorem deliverTo_count_ne (t : Tags) (k : Kind) (e e' : PEv) (q : SubQ) (h : e' ≠ e) :
    List.count e' (deliverTo t k e q).items = List.count e' q.items := by
  have h' : ¬ e = e' := fun x => h x.symm
  rcases deliverTo_items t k e q with hh | hh <;> rw [hh] <;> simp [List.count_append, h']

theorem deliver_fold_eq_map (t : Tags) (k : Kind) (e : PEv) (qs : List Nat) (hq : qs.Nodup)
    (subs : List SubQ) :
    qs.foldl (fun acc qid => acc.map (fun q => if q.id = qid then deliverTo t k e q else q)) subs =
      subs.map (fun q => if q.id ∈ qs then deliverTo t k e q else q) := by
  induction qs generalizing subs with
  | nil => simp
  | cons a qs ih =>
    simp only [List.nodup_cons] at hq
    rw [List.foldl_cons, ih hq.2, List.map_map]
    apply List.map_congr_left
    intro q _
    simp only [Function.comp]
    by_cases h : q.id = a
    · have : a ∉ qs := hq.1
      simp [h, this]
    · by_cases h2 : q.id ∈ qs <;> simp [h, h2]

/-- with a duplicate-free subscriber list, `deliver` is one `deliverTo` for exactly the registered
queues -/
theorem deliver_eq_map (t : Tags) (k : Kind) (reg : Registry) (e : PEv) (subs : List SubQ)
    (hq : ((reg.get e.sig).getD []).Nodup) :
    deliver t k reg e subs =
      subs.map (fun q => if q.id ∈ (reg.get e.sig).getD [] then deliverTo t k e q else q) := by
  unfold deliver
  cases hg : reg.get e.sig with
  | none => simp
  | some qs =>
    rw [hg] at hq
    simpa using deliver_fold_eq_map t k e qs (by simpa using hq) subs

theorem deliver_ids (t : Tags) (k : Kind) (reg : Registry) (e : PEv) (subs : List SubQ) :
    (deliver t k reg e subs).map (·.id) = subs.map (·.id) := by
  unfold deliver
  cases reg.get e.sig with
  | none => rfl
  | some qs =>
    simp only
    induction qs generalizing subs with
    | nil => rfl
    | cons a qs ih =>
      rw [List.foldl_cons, ih, List.map_map]
      apply List.map_congr_left
      intro q _
      simp only [Function.comp]
      split <;> simp

theorem deliver_length (t : Tags) (k : Kind) (reg : Registry) (e : PEv) (subs : List SubQ) :
    (deliver t k reg e subs).length = subs.length := by
  have := congrArg List.length (deliver_ids t k reg e subs)
  simpa using this

/-! ### `minFE` -/

theorem minFE_eq_none {t : Tags} {l : List FE} : minFE t l = none ↔ l = [] := by
  cases l with
  | nil => simp [minFE]
  | cons x xs =>
    simp only [minFE]
    cases minFE t xs with
    | none => simp
    | some m => by_cases h : feLt t m x <;> simp [h]

theorem minFE_mem {t : Tags} {l : List FE} {m : FE} (h : minFE t l = some m) : m ∈ l := by
  induction l generalizing m with
  | nil => simp [minFE] at h
  | cons x xs ih =>
    simp only [minFE] at h
    cases hx : minFE t xs with
    | none => rw [hx] at h; simp at h; simp [h]
    | some m' =>
      rw [hx] at h
      by_cases hl : feLt t m' x
      · simp [hl] at h; subst h; exact List.mem_cons_of_mem _ (ih hx)
      · simp [hl] at h; simp [h]

/-- lexicographic `(prio, seq) ≤` -/
def FE.le (a b : FE) : Prop := a.prio < b.prio ∨ (a.prio = b.prio ∧ a.seq ≤ b.seq)
/-- lexicographic `(prio, seq) <` -/
def FE.lt (a b : FE) : Prop := a.prio < b.prio ∨ (a.prio = b.prio ∧ a.seq < b.seq)

theorem feLt_prioSeq {t : Tags} (ht : t.feOrder = .prioSeq) (a b : FE) :
    feLt t a b = true ↔ FE.lt a b := by
  simp [feLt, ht, FE.lt]

theorem minFE_least {t : Tags} (ht : t.feOrder = .prioSeq) {l : List FE} {m : FE}
    (h : minFE t l = some m) : ∀ x ∈ l, FE.le m x := by
  induction l generalizing m with
  | nil => simp [minFE] at h
  | cons x xs ih =>
    simp only [minFE] at h
    cases hx : minFE t xs with
    | none =>
      rw [hx] at h
      have : xs = [] := minFE_eq_none.1 hx
      simp at h; subst h; subst this
      intro y hy; simp at hy; subst hy; simp [FE.le]
    | some m' =>
      rw [hx] at h
      have ih' := ih hx
      by_cases hl : feLt t m' x
      · simp [hl] at h; subst h
        intro y hy
        simp only [List.mem_cons] at hy
        rcases hy with rfl | hy
        · have := (feLt_prioSeq ht _ _).1 hl
          unfold FE.lt at this; unfold FE.le; omega
        · exact ih' y hy
      · simp [hl] at h; subst h
        have hnl : ¬ FE.lt m' x := fun c => hl ((feLt_prioSeq ht _ _).2 c)
        intro y hy
        simp only [List.mem_cons] at hy
        rcases hy with rfl | hy
        · simp [FE.le]
        · have := ih' y hy
          unfold FE.lt at hnl; unfold FE.le at this ⊢; omega

/-! ### `drain`: hand out everything that is queued, one `get` after the other -/

def drainAux (t : Tags) : Nat → List FE → List FE
  | 0, _ => []
  | n + 1, l =>
    match minFE t l with
    | none => []
    | some m => m :: drainAux t n (l.erase m)

/-- the sequence of `FE`s successive `get`s return when nothing is put in between -/
def drain (t : Tags) (l : List FE) : List FE := drainAux t l.length l

theorem drainAux_perm (t : Tags) (n : Nat) (l : List FE) (hn : l.length = n) :
    (drainAux t n l).Perm l := by
  induction n generalizing l with
  | zero =>
    have : l = [] := List.eq_nil_of_length_eq_zero hn
    subst this; simp [drainAux]
  | succ n ih =>
    simp only [drainAux]
    cases hm : minFE t l with
    | none => have := minFE_eq_none.1 hm; subst this; simp at hn
    | some m =>
      have hmem := minFE_mem hm
      have hlen : (l.erase m).length = n := by rw [List.length_erase_of_mem hmem]; omega
      exact ((ih _ hlen).cons m).trans (List.perm_cons_erase hmem).symm

theorem drain_perm (t : Tags) (l : List FE) : (drain t l).Perm l := drainAux_perm t _ l rfl

theorem drainAux_sorted {t : Tags} (ht : t.feOrder = .prioSeq) (n : Nat) (l : List FE)
    (hn : l.length = n) (hd : (l.map (·.seq)).Nodup) :
    List.Pairwise FE.lt (drainAux t n l) := by
  induction n generalizing l with
  | zero => simp [drainAux]
  | succ n ih =>
    simp only [drainAux]
    cases hm : minFE t l with
    | none => simp
    | some m =>
      have hmem := minFE_mem hm
      have hlen : (l.erase m).length = n := by rw [List.length_erase_of_mem hmem]; omega
      have hl : l.Nodup := by
        exact nodup_of_nodup_map hd
      have hd' : ((l.erase m).map (·.seq)).Nodup :=
        List.Nodup.sublist (List.Sublist.map _ List.erase_sublist) hd
      simp only [List.pairwise_cons]
      refine ⟨?_, ih _ hlen hd'⟩
      intro x hx
      have hx' : x ∈ l.erase m := (drainAux_perm t n _ hlen).mem_iff.1 hx
      have hxm : x ≠ m ∧ x ∈ l := (List.Nodup.mem_erase_iff hl).1 hx'
      have hle := minFE_least ht hm x hxm.2
      have hs : m.seq ≠ x.seq := fun e => hxm.1 (eq_of_nodup_map hd hxm.2 hmem e.symm)
      unfold FE.le at hle; unfold FE.lt; omega

theorem drain_sorted {t : Tags} (ht : t.feOrder = .prioSeq) (l : List FE)
    (hd : (l.map (·.seq)).Nodup) : List.Pairwise FE.lt (drain t l) :=
  drainAux_sorted ht _ l rfl hd

end Miros.Conc.Fab
