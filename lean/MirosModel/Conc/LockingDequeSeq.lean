import MirosModel.Conc.LockingDeque
/-!
# `LockingDeque` used by one thread at a time (the C16 half about active objects)

Each client operation is the corresponding program of `LockingDeque` (activeobject.py) run to
completion by a single thread, built from the same `posterStep` primitives as the concurrent
model; `pop`, `popleft`, `len` touch only the deque; `clear` drains the tokens and acknowledges
each one (tag `clearAcksEach`, generated: the repaired `clear`) or calls `task_done` once after
draining (the earlier code).
-/
namespace Miros.Conc.LD
open Miros.Queue

structure Seq where
  dq : List Ev
  tok : Nat
  unfinished : Nat
  err : Bool          -- an operation raised
deriving Repr, DecidableEq

/-- run one post to completion (fuel bounds the top-up loop) -/
def runPost (c : Config) : Nat → Shared → Poster → Option Shared
  | 0, _, _ => none
  | fuel + 1, sh, p =>
    match p.posts with
    | [] => some sh
    | _ :: _ =>
      match posterStep c sh p with
      | none => none            -- would block for ever (single thread)
      | some (sh', p', _) => if p'.posts = [] then some sh' else runPost c fuel sh' p'

inductive SOp
  | append (e : Ev) | appendleft (e : Ev) | pop | popleft | clear | len
deriving Repr, DecidableEq

def fuelFor (c : Config) : Nat := 3 * c.cap + 12

/-- result of an operation: new state and the value returned (for pop/popleft/len) -/
def seqStep (c : Config) (clearAcksEach : Bool) (s : Seq) : SOp → Seq × String
  | .append e =>
    match runPost c (fuelFor c) ⟨s.dq, s.tok, s.unfinished, []⟩ ⟨[(.fifo, e)], startPc c.alg .fifo, 0⟩ with
    | some sh => ({ s with dq := sh.dq, tok := sh.tok, unfinished := sh.unfinished }, "None")
    | none => ({ s with err := true }, "BLOCKED")
  | .appendleft e =>
    match runPost c (fuelFor c) ⟨s.dq, s.tok, s.unfinished, []⟩ ⟨[(.lifo, e)], startPc c.alg .lifo, 0⟩ with
    | some sh => ({ s with dq := sh.dq, tok := sh.tok, unfinished := sh.unfinished }, "None")
    | none => ({ s with err := true }, "BLOCKED")
  | .pop =>
    match s.dq.getLast? with
    | none => ({ s with err := true }, "IndexError")
    | some e => ({ s with dq := s.dq.dropLast }, s!"{e.sig}.{e.uid}")
  | .popleft =>
    match s.dq with
    | [] => ({ s with err := true }, "IndexError")
    | e :: rest => ({ s with dq := rest }, s!"{e.sig}.{e.uid}")
  | .len => (s, toString s.dq.length)
  | .clear =>
    if clearAcksEach then
      -- get_nowait + task_done per token; unfinished ≥ tok is needed for no error
      if s.unfinished < s.tok then ({ s with dq := [], tok := 0, unfinished := 0, err := true }, "ValueError")
      else ({ s with dq := [], tok := 0, unfinished := s.unfinished - s.tok }, "None")
    else
      -- drain, then a single task_done
      if s.unfinished = 0 then ({ s with dq := [], tok := 0, err := true }, "ValueError")
      else ({ s with dq := [], tok := 0, unfinished := s.unfinished - 1 }, "None")

def seqRun (c : Config) (clearAcksEach : Bool) : Seq → List SOp → Seq
  | s, [] => s
  | s, o :: rest => seqRun c clearAcksEach (seqStep c clearAcksEach s o).1 rest

def seqInit : Seq := ⟨[], 0, 0, false⟩

end Miros.Conc.LD
