import MirosModel.Conc.LockingDeque
import MirosModel.Gen.Constants
/-!
# Lemmas on the `LockingDeque` / consumer model (algorithm `tokenAfter`)

The inductive invariant `Inv` behind C04: bounds, the credit invariant (no lost wake-up), the
`unfinished_tasks` accounting (no `task_done` error), non-emptiness at `peek`/`popleft`.
-/
namespace Miros.Conc.LD
open Miros.Queue

/-! ### standing hypotheses -/

/-- the hypotheses of C04: current algorithm, capacity ≥ 1, no STOP event is ever posted,
external event objects are distinct (and distinct from the consumer's own, numbered from 900000) -/
structure Good (c : Config) (progs : List (List (Kind × Ev))) : Prop where
  alg : c.alg = Miros.Gen.ldAlg
  cap : 0 < c.cap
  noStop : ∀ p ∈ progs, ∀ x ∈ p, x.2.sig ≠ c.stopSig
  noStopSelf : ∀ sg, ∀ x ∈ c.selfPosts sg, x.2 ≠ c.stopSig
  uidsNodup : (progs.flatten.map (fun x => x.2.uid)).Nodup
  uidsSmall : ∀ p ∈ progs, ∀ x ∈ p, x.2.uid < 900000

theorem Good.tokenAfter {c : Config} {progs : List (List (Kind × Ev))} (g : Good c progs) :
    c.alg = .tokenAfter := by
  have h : Miros.Gen.ldAlg = .tokenAfter := by decide
  rw [g.alg, h]

/-! ### credit -/

/-- the consumer holds a token it has not yet used to look at the deque -/
def consCredit (pc : CPc) : Nat :=
  if pc = .f ∨ pc = .n ∨ pc = .p ∨ pc = .r0 ∨ pc = .r1 then 1 else 0

/-- the consumer is between `get` and `task_done` -/
def busy (pc : CPc) : Nat :=
  if pc = .t ∨ pc = .w ∨ pc = .fin then 0 else 1

/-- a poster that has placed its event and is about to put the token -/
def crP (p : Poster) : Nat := if p.pc = .s0 ∧ p.posts ≠ [] then 1 else 0

/-- tokens that are certain to arrive (or to be made unnecessary) -/
def credit (s : State) : Nat :=
  consCredit s.cpc + s.posters.countP (fun p => p.pc = .s0 ∧ p.posts ≠ []) +
    (if s.cpc = .h ∧ s.inline.pc = .s0 then 1 else 0)

/-- pcs of the `tokenAfter` algorithm -/
def pcOk (p : Poster) : Prop := p.pc ≠ .f0 ∧ p.pc ≠ .f1 ∧ p.pc ≠ .c0 ∧ p.pc ≠ .c1

/-! ### list lemmas -/

theorem countP_set {α : Type} (q : α → Bool) (l : List α) (i : Nat) (a b : α) (h : l[i]? = some a) :
    (l.set i b).countP q + (if q a then 1 else 0) = l.countP q + (if q b then 1 else 0) := by
  induction l generalizing i with
  | nil => simp at h
  | cons x xs ih =>
    cases i with
    | zero =>
      simp at h; subst h
      simp [List.countP_cons]; omega
    | succ j =>
      simp at h
      have := ih j h
      simp [List.countP_cons]; omega

theorem mem_of_mem_set {α : Type} {l : List α} {i : Nat} {b x : α} (h : x ∈ l.set i b) :
    x = b ∨ x ∈ l := by
  rcases List.mem_or_eq_of_mem_set h with h | h
  · exact Or.inr h
  · exact Or.inl h

theorem dqRotate_length (l : List Ev) : (dqRotate l).length = l.length := by
  unfold dqRotate
  cases h : l.getLast? with
  | none => simp at h; simp [h]
  | some x =>
    have : l ≠ [] := by intro h'; simp [h'] at h
    have := List.length_pos_iff.mpr this; simp; omega

theorem dqRotate_mem (l : List Ev) (e : Ev) (h : e ∈ dqRotate l) : e ∈ l := by
  unfold dqRotate at h
  cases h' : l.getLast? with
  | none => simp [h'] at h
  | some x =>
    simp [h'] at h
    rcases h with h | h
    · subst h; exact List.mem_of_getLast? h'
    · exact List.dropLast_subset l h

theorem dqRotate_perm (l : List Ev) : (dqRotate l).Perm l := by
  unfold dqRotate
  cases h : l.getLast? with
  | none => simp at h; simp [h]
  | some x =>
    have hne : l ≠ [] := by intro h'; simp [h'] at h
    have hx : l.getLast hne = x := by
      rw [List.getLast?_eq_some_getLast hne] at h; simpa using h
    have : l = l.dropLast ++ [x] := by rw [← hx]; exact (List.dropLast_concat_getLast hne).symm
    simp only []
    conv => rhs; rw [this]
    exact (List.perm_append_comm (l₁ := l.dropLast) (l₂ := [x])).symm

/-! ### one primitive of a poster program -/

theorem dqAppend_length (cap : Nat) (l : List Ev) (x : Ev) (_hc : 0 < cap) :
    l.length ≤ (dqAppend cap l x).1.length ∧ (l.length ≤ cap → (dqAppend cap l x).1.length ≤ cap) ∧
    (dqAppend cap l x).1.length ≤ l.length + 1 ∧
    (l.length < cap → (dqAppend cap l x).1.length = l.length + 1) := by
  unfold dqAppend
  split <;> simp <;> omega

theorem dqAppendLeft_length (cap : Nat) (l : List Ev) (x : Ev) :
    (l.length ≤ cap → l.length ≤ (dqAppendLeft cap l x).1.length) ∧
    (l.length ≤ cap → (dqAppendLeft cap l x).1.length ≤ cap) ∧
    (dqAppendLeft cap l x).1.length ≤ l.length + 1 ∧
    (l.length < cap → (dqAppendLeft cap l x).1.length = l.length + 1) := by
  unfold dqAppendLeft
  split <;> simp <;> omega

theorem dqAppend_mem (cap : Nat) (l : List Ev) (x e : Ev) (h : e ∈ (dqAppend cap l x).1) :
    e ∈ l ∨ e = x := by
  unfold dqAppend at h
  split at h
  · simpa using h
  · have := List.mem_of_mem_drop h; simpa using this

theorem dqAppendLeft_mem (cap : Nat) (l : List Ev) (x e : Ev) (h : e ∈ (dqAppendLeft cap l x).1) :
    e ∈ l ∨ e = x := by
  unfold dqAppendLeft at h
  split at h
  · simp at h; rcases h with h | h
    · exact Or.inr h
    · exact Or.inl h
  · have := List.mem_of_mem_take h; simp at this; rcases this with h | h
    · exact Or.inr h
    · exact Or.inl h

/-- what one primitive of a poster does to the shared queue, in the terms the invariant needs -/
structure PFacts (c : Config) (sh : Shared) (p : Poster) (sh' : Shared) (p' : Poster) : Prop where
  nonempty : p.posts ≠ []
  dqGe : sh.dq.length ≤ c.cap → sh.dq.length ≤ sh'.dq.length
  dqCap : sh.dq.length ≤ c.cap → sh'.dq.length ≤ c.cap
  tokCap : sh.tok ≤ c.cap → sh'.tok ≤ c.cap
  tokGe : sh.tok ≤ sh'.tok
  unf : sh'.unfinished + sh.tok = sh.unfinished + sh'.tok
  credit : sh.dq.length ≤ c.cap → sh.tok ≤ c.cap →
    (sh'.dq.length + sh.tok + crP p ≤ sh.dq.length + sh'.tok + crP p' ∨ sh'.dq.length ≤ sh'.tok)
  pcok : pcOk p'
  s0posts : p'.pc = .s0 → p'.posts ≠ []
  posts : ∀ x ∈ p'.posts, x ∈ p.posts
  dqMem : ∀ e ∈ sh'.dq, e ∈ sh.dq ∨ ∃ x ∈ p.posts, x.2 = e

theorem nextPost_posts (alg : Alg) (p : Poster) : ∀ x ∈ (nextPost alg p).posts, x ∈ p.posts := by
  obtain ⟨posts, pc, q⟩ := p
  cases posts with
  | nil => simp [nextPost]
  | cons a rest =>
    cases rest with
    | nil => simp [nextPost]
    | cons b r => intro x hx; simp [nextPost] at hx ⊢; exact Or.inr hx

theorem nextPost_pc (p : Poster) :
    (nextPost .tokenAfter p).pc = p.pc ∧ (nextPost .tokenAfter p).posts = p.posts ∨
    (nextPost .tokenAfter p).pc = .a0 ∨ (nextPost .tokenAfter p).pc = .l1 := by
  obtain ⟨posts, pc, q⟩ := p
  cases posts with
  | nil => simp [nextPost]
  | cons a rest =>
    cases rest with
    | nil => simp [nextPost]
    | cons b r =>
      obtain ⟨k, e⟩ := b
      cases k <;> simp [nextPost, startPc]

theorem posterStep_facts (c : Config) (sh sh' : Shared) (p p' : Poster) (lbl : String)
    (halg : c.alg = .tokenAfter) (hcap : 0 < c.cap) (hpc : pcOk p)
    (h : posterStep c sh p = some (sh', p', lbl)) : PFacts c sh p sh' p' := by
  obtain ⟨posts, pc, q⟩ := p
  obtain ⟨h1, h2, h3, h4⟩ := hpc
  simp only at h1 h2 h3 h4
  cases posts with
  | nil => simp [posterStep] at h
  | cons x rest =>
    obtain ⟨k, e⟩ := x
    have np := nextPost_pc ⟨(k, e) :: rest, pc, q⟩
    have npp := nextPost_posts .tokenAfter ⟨(k, e) :: rest, pc, q⟩
    cases pc <;> simp only [posterStep, halg] at h <;> try contradiction
    all_goals (try split at h)
    all_goals (simp only [Option.some.injEq, Prod.mk.injEq] at h; obtain ⟨rfl, rfl, -⟩ := h)
    all_goals constructor
    all_goals first
      | (simp [crP, pcOk]; done)
      | (intros; (try simp only []); omega)
      | exact npp
      | (intro e' he; exact Or.inl he)
      | (intro e' he; exact Or.inl (dqRotate_mem _ _ he))
      | (intro e' he; rcases dqAppend_mem _ _ _ _ he with h | h
         · exact Or.inl h
         · exact Or.inr ⟨(k, e), by simp, h.symm⟩)
      | (intro e' he; rcases dqAppendLeft_mem _ _ _ _ he with h | h
         · exact Or.inl h
         · exact Or.inr ⟨(k, e), by simp, h.symm⟩)
      | (obtain ⟨a1, a2, a3, a4⟩ := dqAppend_length c.cap sh.dq e hcap; simp [crP]; omega)
      | (obtain ⟨a1, a2, a3, a4⟩ := dqAppendLeft_length c.cap sh.dq e; simp [crP]; omega)
      | (simp [dqRotate_length, crP]; done)
      | (simp only [pcOk]; rcases np with ⟨h, _⟩ | h | h <;> simp_all <;> done)
      | (intro hh; rcases np with ⟨_, h⟩ | h | h <;> simp_all <;> done)
      | skip

/-! ### the invariant -/

structure Inv (c : Config) (s : State) : Prop where
  dqCap : s.dq.length ≤ c.cap
  tokCap : s.tok ≤ c.cap
  run : s.runFlag = true
  fab : s.fabFlag = true
  noErr : s.err = false
  credit : s.dq.length ≤ s.tok + credit s
  unf : s.unfinished = s.tok + busy s.cpc
  nonempty : (s.cpc = .p ∨ s.cpc = .r0 ∨ s.cpc = .r1) → 1 ≤ s.dq.length
  notFin : s.cpc ≠ .fin
  ppc : ∀ p ∈ s.posters, pcOk p
  ipc : pcOk s.inline
  inlH : s.cpc = .h → s.inline.posts ≠ []
  inlN : s.cpc ≠ .h → s.inline.posts = []
  nsDq : ∀ e ∈ s.dq, e.sig ≠ c.stopSig
  nsPosts : ∀ p ∈ s.posters, ∀ x ∈ p.posts, x.2.sig ≠ c.stopSig
  nsInl : ∀ x ∈ s.inline.posts, x.2.sig ≠ c.stopSig

theorem stepL_poster {c : Config} {s s' : State} {i : Nat} {lbl : String}
    (h : stepL c s (i + 1) = some (s', lbl)) :
    ∃ p sh p', s.posters[i]? = some p ∧ posterStep c (shared s) p = some (sh, p', lbl) ∧
      s' = { (s.withShared sh) with posters := s.posters.set i p' } := by
  simp only [stepL] at h
  cases hp : s.posters[i]? with
  | none => simp [hp] at h
  | some p =>
    simp only [hp] at h
    cases hs : posterStep c (shared s) p with
    | none => simp [hs] at h
    | some r =>
      obtain ⟨sh, p', l⟩ := r
      simp only [hs, Option.some.injEq, Prod.mk.injEq] at h
      obtain ⟨h1, h2⟩ := h
      subst h2
      exact ⟨p, sh, p', rfl, hs, h1.symm⟩

theorem Inv.posterStep {c : Config} {s s' : State} {i : Nat} {lbl : String}
    (halg : c.alg = .tokenAfter) (hcap : 0 < c.cap) (hi : Inv c s)
    (h : stepL c s (i + 1) = some (s', lbl)) : Inv c s' := by
  obtain ⟨p, sh, p', hp, hs, rfl⟩ := stepL_poster h
  have hmem : p ∈ s.posters := List.mem_of_getElem? hp
  have F := posterStep_facts c (shared s) sh p p' lbl halg hcap (hi.ppc p hmem) hs
  have hcnt := countP_set (fun p => decide (p.pc = .s0 ∧ p.posts ≠ [])) s.posters i p p' hp
  have hc := F.credit hi.dqCap hi.tokCap
  have hcr := hi.credit
  have hu := F.unf
  have htg := F.tokGe
  have e1 : ∀ p : Poster, (if (decide (p.pc = .s0 ∧ p.posts ≠ [])) = true then 1 else 0) = crP p := by
    intro p; simp [crP]
  simp only [e1] at hcnt
  simp only [shared] at hc hu htg
  simp only [LD.credit] at hcr
  have hunf := hi.unf
  constructor
  case dqCap => exact F.dqCap hi.dqCap
  case tokCap => exact F.tokCap hi.tokCap
  case run => exact hi.run
  case fab => exact hi.fab
  case noErr => exact hi.noErr
  case credit =>
    show sh.dq.length ≤ sh.tok + (consCredit s.cpc + (s.posters.set i p').countP _ +
      (if s.cpc = .h ∧ s.inline.pc = .s0 then 1 else 0))
    omega
  case unf =>
    show sh.unfinished = sh.tok + busy s.cpc
    omega
  case nonempty =>
    intro hh
    have := hi.nonempty hh
    have := F.dqGe hi.dqCap
    show 1 ≤ sh.dq.length
    simp only [shared] at this
    omega
  case notFin => exact hi.notFin
  case ppc =>
    intro x hx
    rcases mem_of_mem_set hx with rfl | hx
    · exact F.pcok
    · exact hi.ppc x hx
  case ipc => exact hi.ipc
  case inlH => exact hi.inlH
  case inlN => exact hi.inlN
  case nsDq =>
    intro e he
    rcases F.dqMem e he with h1 | ⟨x, hx, rfl⟩
    · exact hi.nsDq e h1
    · exact hi.nsPosts p hmem x hx
  case nsPosts =>
    intro x hx y hy
    rcases mem_of_mem_set hx with rfl | hx
    · exact hi.nsPosts p hmem y (F.posts y hy)
    · exact hi.nsPosts x hx y hy
  case nsInl => exact hi.nsInl

/-! ### the consumer's own posts -/

def inlPosts (first : Nat) (l : List (Kind × Nat)) : List (Kind × Ev) :=
  ((List.range l.length).zip l).map fun (i, (k, sg)) => (k, (⟨sg, first + i⟩ : Ev))

theorem mkInline_posts (c : Config) (n : Nat) (l : List (Kind × Nat)) :
    (mkInline c n l).posts = inlPosts n l := by
  unfold mkInline inlPosts
  simp only []
  split
  · rename_i h; simp [h]
  · rename_i h; simp [h]

theorem inlPosts_aux (n s : Nat) (l : List (Kind × Nat)) :
    (((List.range' s l.length).zip l).map fun (i, (k, sg)) => (k, (⟨sg, n + i⟩ : Ev))).map
        (fun x => (x.1, x.2.sig)) = l ∧
    (((List.range' s l.length).zip l).map fun (i, (k, sg)) => (k, (⟨sg, n + i⟩ : Ev))).map
        (fun x => x.2.uid) = (List.range' s l.length).map (n + ·) := by
  induction l generalizing s with
  | nil => simp
  | cons a t ih =>
    obtain ⟨h1, h2⟩ := ih (s + 1)
    simp only [List.length_cons, List.range'_succ, List.zip_cons_cons, List.map_cons]
    exact ⟨by rw [h1], by rw [h2]⟩

theorem inlPosts_sig (n : Nat) (l : List (Kind × Nat)) :
    (inlPosts n l).map (fun x => (x.1, x.2.sig)) = l := by
  have := (inlPosts_aux n 0 l).1
  rwa [← List.range_eq_range'] at this

theorem inlPosts_uid (n : Nat) (l : List (Kind × Nat)) :
    (inlPosts n l).map (fun x => x.2.uid) = (List.range' n l.length) := by
  have := (inlPosts_aux n 0 l).2
  rw [← List.range_eq_range'] at this
  rw [inlPosts, this, List.range_eq_range']
  simp [List.map_add_range']

theorem inlPosts_length (n : Nat) (l : List (Kind × Nat)) : (inlPosts n l).length = l.length := by
  simp [inlPosts]

theorem mkInline_pcOk (c : Config) (n : Nat) (l : List (Kind × Nat)) (halg : c.alg = .tokenAfter) :
    pcOk (mkInline c n l) := by
  unfold mkInline
  simp only []
  split
  · simp [pcOk]
  · rename_i k _ _ _
    cases k <;> simp [pcOk, startPc, halg]

theorem mkInline_noStop (c : Config) (n : Nat) (l : List (Kind × Nat)) (hl : ∀ x ∈ l, x.2 ≠ c.stopSig) :
    ∀ x ∈ (mkInline c n l).posts, x.2.sig ≠ c.stopSig := by
  intro x hx
  rw [mkInline_posts] at hx
  have : (x.1, x.2.sig) ∈ (inlPosts n l).map (fun x => (x.1, x.2.sig)) := List.mem_map_of_mem hx
  rw [inlPosts_sig] at this
  exact hl _ this

set_option linter.unusedSimpArgs false

set_option hygiene false in
/-- close the fields of `Inv` for a consumer step that only moves the consumer's pc / counters -/
local macro "cons_fin" : tactic => `(tactic| (
    constructor
    all_goals first
      | exact hi.dqCap | exact hi.tokCap | exact hi.run | exact hi.fab | exact hi.noErr
      | exact hi.ppc | exact hi.ipc | exact hi.nsDq | exact hi.nsPosts | exact hi.nsInl
      | (simp [LD.credit, consCredit, busy, hpc, afterDispatch] at hcr hunf hne hinlN hinlH ⊢; omega)
      | (simp [LD.credit, consCredit, busy, hpc, afterDispatch] at hcr hunf hne hinlN hinlH ⊢; done)
      | (simp [LD.credit, consCredit, busy, hpc, afterDispatch] at hcr hunf hne hinlN hinlH ⊢; split <;> simp <;> omega)
      | fail "cons_fin: open field"))

theorem Inv.consumerStep {c : Config} {s s' : State} {lbl : String}
    (halg : c.alg = .tokenAfter) (hcap : 0 < c.cap)
    (hself : ∀ sg, ∀ x ∈ c.selfPosts sg, x.2 ≠ c.stopSig) (hi : Inv c s)
    (h : consumerStep c s = some (s', lbl)) : Inv c s' := by
  have hcr := hi.credit
  simp only [LD.credit] at hcr
  have hunf := hi.unf
  have hne := hi.nonempty
  have hrun := hi.run
  have hfab := hi.fab
  have hinlN := hi.inlN
  have hinlH := hi.inlH
  cases hpc : s.cpc <;> simp only [LD.consumerStep, hpc] at h
  case t =>
    simp only [hrun, if_true, Option.some.injEq, Prod.mk.injEq] at h
    obtain ⟨rfl, -⟩ := h
    cons_fin
  case w =>
    split at h
    · contradiction
    · simp only [Option.some.injEq, Prod.mk.injEq] at h
      obtain ⟨rfl, -⟩ := h
      have := hi.tokCap
      cons_fin
  case f =>
    simp only [hfab, if_true, Option.some.injEq, Prod.mk.injEq] at h
    obtain ⟨rfl, -⟩ := h
    cons_fin
  case n =>
    split at h <;>
    · simp only [Option.some.injEq, Prod.mk.injEq] at h
      obtain ⟨rfl, -⟩ := h
      cons_fin
  case r0 =>
    split at h <;>
    · simp only [Option.some.injEq, Prod.mk.injEq] at h
      obtain ⟨rfl, -⟩ := h
      cons_fin
  case q1 =>
    simp only [Option.some.injEq, Prod.mk.injEq] at h
    obtain ⟨rfl, -⟩ := h
    cons_fin
  case q2 =>
    simp only [Option.some.injEq, Prod.mk.injEq] at h
    obtain ⟨rfl, -⟩ := h
    cons_fin
  case d =>
    split at h <;>
    · simp only [Option.some.injEq, Prod.mk.injEq] at h
      obtain ⟨rfl, -⟩ := h
      cons_fin
  case p =>
    cases hdq : s.dq with
    | nil => simp [hpc, hdq] at hne
    | cons e rest =>
      have hns := hi.nsDq e (by simp [hdq])
      simp only [hdq, hns, if_false, Option.some.injEq, Prod.mk.injEq] at h
      obtain ⟨rfl, -⟩ := h
      simp only [← hdq]
      cons_fin
  case r1 =>
    cases hdq : s.dq with
    | nil => simp [hpc, hdq] at hne
    | cons e rest =>
      have hcapd := hi.dqCap
      have hnsd := hi.nsDq
      simp only [hdq] at h hcr hcapd hnsd
      have hpk := mkInline_pcOk c s.nextSelf (c.selfPosts e.sig) halg
      have hns := mkInline_noStop c s.nextSelf (c.selfPosts e.sig) (hself e.sig)
      split at h <;>
      · rename_i hposts
        simp only [Option.some.injEq, Prod.mk.injEq] at h
        obtain ⟨rfl, -⟩ := h
        constructor
        all_goals first
          | exact hi.tokCap | exact hi.run | exact hi.fab | exact hi.noErr
          | exact hi.ppc | exact hpk | exact hns | exact hi.nsPosts
          | (simp [LD.credit, consCredit, busy, hpc, afterDispatch] at hcr hunf hne hinlN hinlH hcapd ⊢; omega)
          | (simp [LD.credit, consCredit, busy, hpc, afterDispatch, hposts] at hcr hunf hne hinlN hinlH ⊢; done)
          | (simp [LD.credit, consCredit, busy, hpc, afterDispatch] at hcr hunf hne hinlN hinlH hcapd ⊢; split <;> simp <;> omega)
          | (intro x hx; exact hnsd x (by simp [hx]))
  case fin => simp at h
  case h =>
    cases hps : LD.posterStep c (shared s) s.inline with
    | none => simp [hps] at h
    | some r =>
      obtain ⟨sh, p, l⟩ := r
      have F := posterStep_facts c (shared s) sh s.inline p l halg hcap hi.ipc hps
      have hc := F.credit hi.dqCap hi.tokCap
      have hu := F.unf
      have htg := F.tokGe
      have hdg := F.dqGe hi.dqCap
      have hdc := F.dqCap hi.dqCap
      have htc := F.tokCap hi.tokCap
      simp only [shared] at hc hu htg hdg hdc htc
      have hne' := hinlH hpc
      have hcr' : s.dq.length ≤ s.tok +
          (List.countP (fun p => decide (p.pc = PPc.s0 ∧ p.posts ≠ [])) s.posters + crP s.inline) := by
        simpa [consCredit, hpc, crP, hne'] using hcr
      have had : consCredit (afterDispatch c) = 0 ∧ busy (afterDispatch c) = 1 ∧ afterDispatch c ≠ .h ∧
          afterDispatch c ≠ .fin ∧ afterDispatch c ≠ .p ∧ afterDispatch c ≠ .r0 ∧ afterDispatch c ≠ .r1 := by
        unfold afterDispatch; split <;> simp [consCredit, busy]
      obtain ⟨ad1, ad2, ad3, ad4, ad5, ad6, ad7⟩ := had
      have hnsd : ∀ e ∈ sh.dq, e.sig ≠ c.stopSig := by
        intro e he
        rcases F.dqMem e he with h1 | ⟨x, hx, rfl⟩
        · exact hi.nsDq e h1
        · exact hi.nsInl x hx
      have hnsi : ∀ x ∈ p.posts, x.2.sig ≠ c.stopSig := fun x hx => hi.nsInl x (F.posts x hx)
      simp only [hps] at h
      split at h
      · rename_i hposts
        simp only [Option.some.injEq, Prod.mk.injEq] at h
        obtain ⟨rfl, -⟩ := h
        have e2 : crP p = 0 := by simp [crP, hposts]
        constructor
        case credit =>
          show sh.dq.length ≤ sh.tok + (consCredit (afterDispatch c) +
            List.countP (fun p => decide (p.pc = PPc.s0 ∧ p.posts ≠ [])) s.posters +
            (if afterDispatch c = .h ∧ p.pc = .s0 then 1 else 0))
          simp only [ad1, ad3, false_and, if_false]
          omega
        case unf =>
          show sh.unfinished = sh.tok + busy (afterDispatch c)
          simp only [hpc, busy] at hunf; simp at hunf
          omega
        case nonempty =>
          show (afterDispatch c = .p ∨ afterDispatch c = .r0 ∨ afterDispatch c = .r1) → _
          simp [ad5, ad6, ad7]
        all_goals first
          | exact hdc | exact htc | exact hi.run | exact hi.fab | exact hi.noErr
          | exact hi.ppc | exact F.pcok | exact hnsd | exact hi.nsPosts | exact hnsi
          | exact ad4
          | (intro hh; exact absurd hh ad3)
          | (intro _; exact hposts)
      · rename_i hposts
        simp only [Option.some.injEq, Prod.mk.injEq] at h
        obtain ⟨rfl, -⟩ := h
        have e2 : (if s.cpc = .h ∧ p.pc = .s0 then 1 else 0) = crP p := by simp [crP, hposts, hpc]
        constructor
        case credit =>
          show sh.dq.length ≤ sh.tok + (consCredit s.cpc +
            List.countP (fun p => decide (p.pc = PPc.s0 ∧ p.posts ≠ [])) s.posters +
            (if s.cpc = .h ∧ p.pc = .s0 then 1 else 0))
          rw [e2]
          omega
        case unf =>
          show sh.unfinished = sh.tok + busy s.cpc
          omega
        case nonempty =>
          show (s.cpc = .p ∨ s.cpc = .r0 ∨ s.cpc = .r1) → _
          simp [hpc]
        all_goals first
          | exact hdc | exact htc | exact hi.run | exact hi.fab | exact hi.noErr
          | exact hi.ppc | exact F.pcok | exact hnsd | exact hi.nsPosts | exact hnsi
          | exact hi.notFin
          | (intro _; exact hposts)
          | (intro hh; exact absurd hpc hh)

/-! ### the invariant holds along every schedule -/

theorem Inv.init {c : Config} {progs : List (List (Kind × Ev))} (g : Good c progs) :
    Inv c (init c progs) := by
  have halg := g.tokenAfter
  constructor
  case ppc =>
    intro p hp
    simp only [LD.init, List.mem_map] at hp
    obtain ⟨pr, _, rfl⟩ := hp
    cases pr with
    | nil => simp [pcOk]
    | cons x r => obtain ⟨k, e⟩ := x; cases k <;> simp [pcOk, startPc, halg]
  case nsPosts =>
    intro p hp x hx
    simp only [LD.init, List.mem_map] at hp
    obtain ⟨pr, hpr, rfl⟩ := hp
    cases pr with
    | nil => simp at hx
    | cons y r => exact g.noStop _ hpr x hx
  all_goals simp [LD.init, LD.credit, busy, pcOk]

theorem Inv.step {c : Config} {progs : List (List (Kind × Ev))} (g : Good c progs) {s s' : State} {t : Nat}
    (hi : Inv c s) (h : (sys c).step s t = some s') : Inv c s' := by
  simp only [sys, Option.map_eq_some_iff] at h
  obtain ⟨⟨s1, lbl⟩, h, rfl⟩ := h
  cases t with
  | zero => exact hi.consumerStep g.tokenAfter g.cap g.noStopSelf h
  | succ i => exact hi.posterStep g.tokenAfter g.cap h

theorem Inv.ofRun {c : Config} {progs : List (List (Kind × Ev))} (g : Good c progs) (sched : List Nat) :
    Inv c ((sys c).run (LD.init c progs) sched) :=
  (sys c).inv_run (Inv c) (fun _ _ _ hi h => hi.step g h) sched _ (Inv.init g)

/-! ### enabledness and quiescence -/

theorem posterStep_enabled (c : Config) (sh : Shared) (p : Poster) (halg : c.alg = .tokenAfter)
    (hpc : pcOk p) (hne : p.posts ≠ []) : (posterStep c sh p).isSome = true := by
  obtain ⟨posts, pc, q⟩ := p
  obtain ⟨h1, h2, h3, h4⟩ := hpc
  simp only at h1 h2 h3 h4 hne
  cases posts with
  | nil => contradiction
  | cons x rest =>
    obtain ⟨k, e⟩ := x
    cases pc <;> simp only [posterStep, halg] <;> try contradiction
    all_goals (try split) <;> rfl

/-- under `tokenAfter` a poster with work left is always enabled (no blocking put) -/
theorem poster_always_enabled {c : Config} {s : State} (halg : c.alg = .tokenAfter) (hi : Inv c s)
    (i : Nat) (p : Poster) (hp : s.posters[i]? = some p) (hne : p.posts ≠ []) :
    (stepL c s (i + 1)).isSome = true := by
  have h := posterStep_enabled c (shared s) p halg (hi.ppc p (List.mem_of_getElem? hp)) hne
  simp only [stepL, hp]
  cases hs : posterStep c (shared s) p with
  | none => simp [hs] at h
  | some r => simp

theorem consumer_enabled {c : Config} {s : State} (halg : c.alg = .tokenAfter) (hi : Inv c s)
    (h : consumerStep c s = none) : s.cpc = .w ∧ s.tok = 0 := by
  have hfin := hi.notFin
  cases hpc : s.cpc <;> simp only [consumerStep, hpc] at h
  case fin => exact absurd hpc hfin
  case w =>
    split at h
    · rename_i h0; exact ⟨rfl, h0⟩
    · simp at h
  case h =>
    have := posterStep_enabled c (shared s) s.inline halg hi.ipc (hi.inlH hpc)
    cases hs : posterStep c (shared s) s.inline with
    | none => simp [hs] at this
    | some r =>
      simp only [hs] at h
      split at h <;> simp at h
  all_goals (first | (simp at h; done) | (split at h <;> simp at h <;> done) | (split at h <;> (try split at h) <;> simp at h <;> done))

theorem quiescent_facts {c : Config} {s : State} (halg : c.alg = .tokenAfter) (hi : Inv c s)
    (hq : (sys c).Quiescent s) : s.dq = [] ∧ postersDone s ∧ s.cpc = .w ∧ s.tok = 0 := by
  have hstep : ∀ t, stepL c s t = none := by
    intro t
    have := hq t
    simpa [sys] using this
  obtain ⟨hw, ht⟩ := consumer_enabled halg hi (hstep 0)
  have hdone : ∀ p ∈ s.posters, p.posts = [] := by
    intro p hp
    obtain ⟨i, hi', hget⟩ := List.getElem_of_mem hp
    have hget' : s.posters[i]? = some p := by simp [List.getElem?_eq_getElem hi', hget]
    apply Classical.byContradiction
    intro hne
    have := poster_always_enabled halg hi i p hget' hne
    simp [hstep (i + 1)] at this
  have hcnt : s.posters.countP (fun p => decide (p.pc = .s0 ∧ p.posts ≠ [])) = 0 := by
    rw [List.countP_eq_zero]
    intro p hp
    simp [hdone p hp]
  have hcr := hi.credit
  simp only [LD.credit, hcnt, hw, consCredit, ht] at hcr
  simp at hcr
  exact ⟨hcr, ⟨hdone, hi.inlN (by simp [hw])⟩, hw, ht⟩

end Miros.Conc.LD
