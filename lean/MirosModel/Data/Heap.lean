import MirosModel.Conc.Fabric
/-!
# The binary heap under the fabric's `PriorityQueue` (CPython `heapq`, pure-Python version)

`queue.PriorityQueue._put` is `heapq.heappush`, `_get` is `heapq.heappop`; the heap is a Python list.
The algorithms below are literal transcriptions of `heappush`, `heappop`, `_siftdown`, `_siftup`:

```
heappush(h, x): h.append(x); _siftdown(h, 0, len(h)-1)
heappop(h):     last = h.pop(); if h: ret = h[0]; h[0] = last; _siftup(h, 0); return ret  else return last
_siftdown(h, startpos, pos): newitem = h[pos]
                 while pos > startpos: parentpos = (pos-1)>>1; parent = h[parentpos]
                                       if newitem < parent: h[pos] = parent; pos = parentpos; continue
                                       break
                 h[pos] = newitem
_siftup(h, pos): endpos = len(h); startpos = pos; newitem = h[pos]; childpos = 2*pos+1
                 while childpos < endpos: rightpos = childpos+1
                                          if rightpos < endpos and not h[childpos] < h[rightpos]: childpos = rightpos
                                          h[pos] = h[childpos]; pos = childpos; childpos = 2*pos+1
                 h[pos] = newitem; _siftdown(h, startpos, pos)
```

The two `while` loops are recursions on a fuel argument; the fuel handed in by `siftdown` (`pos`) and by
`siftup` (`len h`) is never exhausted before the loop condition fails (`pos` strictly decreases / increases),
so the executable behaviour is that of the loops.  `<` is `Miros.Conc.Fab.feLt t`.
-/
namespace Miros.Data.Heap
open Miros.Conc.Fab

/-- the heap array, index 0 first -/
abbrev Heap := List FE

/-- value read for an index outside the list (never happens in the algorithms) -/
def dflt : FE := ⟨0, 0, none⟩

/-- `h[i]` -/
def el (h : Heap) (i : Nat) : FE := h[i]?.getD dflt

/-- the `while pos > startpos` loop of `_siftdown` followed by `h[pos] = newitem` -/
def siftdownAux (t : Tags) (newitem : FE) (startpos : Nat) : Nat → Heap → Nat → Heap
  | 0, h, pos => h.set pos newitem
  | fuel + 1, h, pos =>
    if pos > startpos then
      let parentpos := (pos - 1) / 2
      let parent := el h parentpos
      if feLt t newitem parent then
        siftdownAux t newitem startpos fuel (h.set pos parent) parentpos
      else h.set pos newitem
    else h.set pos newitem

/-- `_siftdown(h, startpos, pos)` -/
def siftdown (t : Tags) (h : Heap) (startpos pos : Nat) : Heap :=
  siftdownAux t (el h pos) startpos pos h pos

/-- the `while childpos < endpos` loop of `_siftup`: returns the array and the final `pos` (a leaf) -/
def siftupAux (t : Tags) : Nat → Heap → Nat → Heap × Nat
  | 0, h, pos => (h, pos)
  | fuel + 1, h, pos =>
    let endpos := h.length
    let childpos := 2 * pos + 1
    if childpos < endpos then
      let rightpos := childpos + 1
      let childpos' :=
        if rightpos < endpos && !(feLt t (el h childpos) (el h rightpos)) then rightpos else childpos
      siftupAux t fuel (h.set pos (el h childpos')) childpos'
    else (h, pos)

/-- `_siftup(h, pos)` -/
def siftup (t : Tags) (h : Heap) (pos : Nat) : Heap :=
  let newitem := el h pos
  let r := siftupAux t h.length h pos
  siftdown t (r.1.set r.2 newitem) pos r.2

/-- `heappush(h, x)` -/
def push (t : Tags) (h : Heap) (x : FE) : Heap :=
  let h1 := h ++ [x]
  siftdown t h1 0 (h1.length - 1)

/-- `heappop(h)`; `none` on the empty heap (`IndexError`, `PriorityQueue.get` blocks instead) -/
def pop (t : Tags) (h : Heap) : Option (FE × Heap) :=
  match h.getLast? with
  | none => none
  | some last =>
    let h1 := h.dropLast
    if h1.isEmpty then some (last, h1)
    else
      let ret := el h1 0
      some (ret, siftup t (h1.set 0 last) 0)

/-- `IsHeap`: no element is smaller than its parent -/
def IsHeap (t : Tags) (h : Heap) : Prop :=
  ∀ i, i < h.length → 0 < i → feLt t (el h i) (el h ((i - 1) / 2)) = false

instance (t : Tags) (h : Heap) : Decidable (IsHeap t h) := by
  unfold IsHeap; infer_instance

def isHeapB (t : Tags) (h : Heap) : Bool := decide (IsHeap t h)

/-! ### operation sequences -/

inductive Op
  | push (x : FE)
  | pop
deriving DecidableEq, Repr

/-- one operation; a `pop` also yields what it returned (`none` on the empty heap) -/
def step (t : Tags) (h : Heap) : Op → Heap × List (Option FE)
  | .push x => (push t h x, [])
  | .pop =>
    match pop t h with
    | none => (h, [none])
    | some (r, h') => (h', [some r])

/-- run a list of operations: final array and what the pops returned, in order -/
def run (t : Tags) : Heap → List Op → Heap × List (Option FE)
  | h, [] => (h, [])
  | h, op :: ops =>
    let r := step t h op
    let r' := run t r.1 ops
    (r'.1, r.2 ++ r'.2)

/-- the array after a list of operations on the empty heap -/
def ofOps (t : Tags) (ops : List Op) : Heap := (run t [] ops).1

/-- what the pops of an operation list return, starting from the empty heap -/
def outs (t : Tags) (ops : List Op) : List (Option FE) := (run t [] ops).2

/-- pop until empty (at most `n` times) -/
def popAll (t : Tags) : Nat → Heap → List FE
  | 0, _ => []
  | n + 1, h =>
    match pop t h with
    | none => []
    | some (r, h') => r :: popAll t n h'

/-- everything the heap hands out when it is emptied by successive `heappop`s -/
def drainHeap (t : Tags) (h : Heap) : List FE := popAll t h.length h

/-! ### the list model of the same interface (what `Miros.Conc.Fab` uses) -/

/-- `put` appends, `get` removes `minFE` -/
def lstep (t : Tags) (l : List FE) : Op → List FE × List (Option FE)
  | .push x => (l ++ [x], [])
  | .pop =>
    match minFE t l with
    | none => (l, [none])
    | some m => (l.erase m, [some m])

def lrun (t : Tags) : List FE → List Op → List FE × List (Option FE)
  | l, [] => (l, [])
  | l, op :: ops =>
    let r := lstep t l op
    let r' := lrun t r.1 ops
    (r'.1, r.2 ++ r'.2)

/-- the elements pushed by an operation list, in order -/
def pushed : List Op → List FE
  | [] => []
  | .push x :: ops => x :: pushed ops
  | .pop :: ops => pushed ops

end Miros.Data.Heap
