import MirosModel.Data.Heap
import MirosModel.Conc.FabricLemmas
/-!
# Lemmas about the `heapq` model: the sift loops keep the heap shape, permutations, the root is least
-/
namespace Miros.Data.Heap
open Miros.Conc.Fab

/-! ### the comparison: `le t a b` is "not `b < a`"; it is a total preorder for both comparators -/

/-- `a ≤ b` for the modelled `__lt__`: `b < a` is false -/
def le (t : Tags) (a b : FE) : Prop := feLt t b a = false

theorem le_refl (t : Tags) (a : FE) : le t a a := by
  cases h : t.feOrder <;> simp [le, feLt, h]

theorem le_trans {t : Tags} {a b c : FE} (h1 : le t a b) (h2 : le t b c) : le t a c := by
  cases h : t.feOrder <;> simp [le, feLt, h] at * <;> omega

theorem le_of_lt {t : Tags} {a b : FE} (h1 : feLt t a b = true) : le t a b := by
  cases h : t.feOrder <;> simp [le, feLt, h] at * <;> omega

theorem le_of_not_lt {t : Tags} {a b : FE} (h1 : feLt t a b = false) : le t b a := h1

theorem le_of_lt_of_le {t : Tags} {a b c : FE} (h1 : feLt t a b = true) (h2 : le t b c) : le t a c :=
  le_trans (le_of_lt h1) h2

theorem le_prioSeq {t : Tags} (ht : t.feOrder = .prioSeq) {a b : FE} : le t a b ↔ FE.le a b := by
  simp [le, feLt, ht, FE.le]; omega

/-! ### `el` -/

theorem el_eq_getElem {h : Heap} {i : Nat} (hi : i < h.length) : el h i = h[i] := by
  simp [el, hi]

theorem el_mem {h : Heap} {i : Nat} (hi : i < h.length) : el h i ∈ h := by
  rw [el_eq_getElem hi]; exact List.getElem_mem hi

theorem el_set_ne {h : Heap} {i j : Nat} (x : FE) (hij : j ≠ i) : el (h.set j x) i = el h i := by
  simp [el, hij]

theorem el_set_self {h : Heap} {j : Nat} (x : FE) (hj : j < h.length) : el (h.set j x) j = x := by
  simp [el, hj]

theorem el_append_left {h l : Heap} {i : Nat} (hi : i < h.length) : el (h ++ l) i = el h i := by
  simp [el, List.getElem?_append, hi]

theorem el_append_length (h : Heap) (x : FE) : el (h ++ [x]) h.length = x := by
  simp [el]

theorem set_el_self (h : Heap) (i : Nat) (hi : i < h.length) : h.set i (el h i) = h := by
  rw [el_eq_getElem hi]; exact List.set_getElem_self hi

/-! ### the heap property in terms of `le` -/

theorem isHeap_iff {t : Tags} {h : Heap} :
    IsHeap t h ↔ ∀ i, 0 < i → i < h.length → le t (el h ((i - 1) / 2)) (el h i) :=
  ⟨fun H i h0 hi => H i hi h0, fun H i hi h0 => H i h0 hi⟩

theorem isHeap_nil (t : Tags) : IsHeap t [] := by
  intro i hi; simp at hi

/-- "a heap with a hole at `pos`": every parent/child edge not touching `pos` is in order, and the
parent of `pos` is below the children of `pos` (so any value between them may be put into the hole);
the value stored at `pos` itself is irrelevant -/
structure Hole (t : Tags) (h : Heap) (pos : Nat) : Prop where
  edge : ∀ i, 0 < i → i < h.length → i ≠ pos → (i - 1) / 2 ≠ pos → le t (el h ((i - 1) / 2)) (el h i)
  skip : ∀ i, 0 < i → i < h.length → (i - 1) / 2 = pos → 0 < pos → le t (el h ((pos - 1) / 2)) (el h i)

/-- `x` is below the children of `pos` -/
def Below (t : Tags) (h : Heap) (pos : Nat) (x : FE) : Prop :=
  ∀ i, 0 < i → i < h.length → (i - 1) / 2 = pos → le t x (el h i)

/-- the value at the hole is irrelevant -/
theorem Hole.set {t : Tags} {h : Heap} {pos : Nat} (H : Hole t h pos) (y : FE) : Hole t (h.set pos y) pos := by
  constructor
  · intro i h0 hi h1 h2
    rw [el_set_ne _ (Ne.symm h1), el_set_ne _ (Ne.symm h2)]
    exact H.edge i h0 (by simpa using hi) h1 h2
  · intro i h0 hi h1 h2
    have : i ≠ pos := by omega
    have : (pos - 1) / 2 ≠ pos := by omega
    rw [el_set_ne _ (by omega), el_set_ne _ (by omega)]
    exact H.skip i h0 (by simpa using hi) h1 h2

theorem Below.set {t : Tags} {h : Heap} {pos : Nat} {x : FE} (B : Below t h pos x) (y : FE) :
    Below t (h.set pos y) pos x := by
  intro i h0 hi h1
  rw [el_set_ne _ (by omega)]
  exact B i h0 (by simpa using hi) h1

/-- a heap is a heap with a hole anywhere -/
theorem IsHeap.hole {t : Tags} {h : Heap} (H : IsHeap t h) (pos : Nat) : Hole t h pos := by
  rw [isHeap_iff] at H
  constructor
  · intro i h0 hi _ _; exact H i h0 hi
  · intro i h0 hi h1 h2
    have := H i h0 hi
    rw [h1] at this
    exact le_trans (H pos h2 (by omega)) this

/-- filling the hole with a value that fits gives a heap -/
theorem Hole.fill {t : Tags} {h : Heap} {pos : Nat} {x : FE} (H : Hole t h pos) (hp : pos < h.length)
    (B : Below t h pos x) (hx : 0 < pos → le t (el h ((pos - 1) / 2)) x) : IsHeap t (h.set pos x) := by
  rw [isHeap_iff]
  intro i h0 hi
  have hi' : i < h.length := by simpa using hi
  by_cases h1 : i = pos
  · subst h1
    rw [el_set_self _ hp, el_set_ne _ (by omega)]
    exact hx h0
  · by_cases h2 : (i - 1) / 2 = pos
    · rw [h2, el_set_self _ hp, el_set_ne _ (Ne.symm h1)]
      exact B i h0 hi' h2
    · rw [el_set_ne _ (Ne.symm h1), el_set_ne _ (Ne.symm h2)]
      exact H.edge i h0 hi' h1 h2

/-! ### `_siftdown` -/

theorem siftdownAux_length (t : Tags) (x : FE) (sp : Nat) :
    ∀ (fuel : Nat) (h : Heap) (pos : Nat), (siftdownAux t x sp fuel h pos).length = h.length := by
  intro fuel
  induction fuel with
  | zero => intro h pos; simp [siftdownAux]
  | succ n ih =>
    intro h pos
    simp only [siftdownAux]
    split
    · split
      · rw [ih]; simp
      · simp
    · simp

/-- one iteration of the `_siftdown` loop: the parent moves into the hole, the hole moves up -/
theorem Hole.up {t : Tags} {h : Heap} {pos : Nat} {x : FE} (H : Hole t h pos) (hp : pos < h.length)
    (h0 : 0 < pos) (hlt : feLt t x (el h ((pos - 1) / 2)) = true) :
    Hole t (h.set pos (el h ((pos - 1) / 2))) ((pos - 1) / 2) ∧
    Below t (h.set pos (el h ((pos - 1) / 2))) ((pos - 1) / 2) x := by
  have hpp : (pos - 1) / 2 < pos := by omega
  refine ⟨⟨?_, ?_⟩, ?_⟩
  · intro i hi0 hi h1 h2
    have hi' : i < h.length := by simpa using hi
    by_cases h3 : i = pos
    · exact absurd (by rw [h3]) h2
    · rw [el_set_ne _ (Ne.symm h3)]
      by_cases h4 : (i - 1) / 2 = pos
      · rw [h4, el_set_self _ hp]
        exact H.skip i hi0 hi' h4 h0
      · rw [el_set_ne _ (Ne.symm h4)]
        exact H.edge i hi0 hi' h3 h4
  · intro i hi0 hi h1 h2
    have hi' : i < h.length := by simpa using hi
    rw [el_set_ne _ (by omega)]
    have e1 := H.edge ((pos - 1) / 2) h2 (by omega) (by omega) (by omega)
    by_cases h3 : i = pos
    · rw [h3, el_set_self _ hp]; exact e1
    · rw [el_set_ne _ (Ne.symm h3)]
      have e2 := H.edge i hi0 hi' h3 (by omega)
      rw [h1] at e2
      exact le_trans e1 e2
  · intro i hi0 hi h1
    have hi' : i < h.length := by simpa using hi
    by_cases h3 : i = pos
    · rw [h3, el_set_self _ hp]; exact le_of_lt hlt
    · rw [el_set_ne _ (Ne.symm h3)]
      have e2 := H.edge i hi0 hi' h3 (by omega)
      rw [h1] at e2
      exact le_of_lt_of_le hlt e2

/-- `_siftdown(h, 0, pos)` started on a heap with a hole at `pos` whose children are above the new
item ends with a heap -/
theorem siftdownAux_heap (t : Tags) (x : FE) :
    ∀ (fuel : Nat) (h : Heap) (pos : Nat), pos ≤ fuel → pos < h.length → Hole t h pos → Below t h pos x →
      IsHeap t (siftdownAux t x 0 fuel h pos) := by
  intro fuel
  induction fuel with
  | zero =>
    intro h pos hf hp H B
    simp only [siftdownAux]
    exact H.fill hp B (by omega)
  | succ n ih =>
    intro h pos hf hp H B
    simp only [siftdownAux]
    split
    · rename_i h0
      split
      · rename_i hlt
        obtain ⟨H', B'⟩ := H.up hp h0 hlt
        exact ih _ _ (by omega) (by simp; omega) H' B'
      · rename_i hlt
        exact H.fill hp B (fun _ => le_of_not_lt (by simpa using hlt))
    · exact H.fill hp B (by omega)

/-- **`heappush` keeps the heap property** (both comparators) -/
theorem push_heap (t : Tags) (h : Heap) (x : FE) (H : IsHeap t h) : IsHeap t (push t h x) := by
  rw [isHeap_iff] at H
  simp only [push, siftdown, List.length_append, List.length_singleton, Nat.add_sub_cancel]
  apply siftdownAux_heap t _ _ _ _ (Nat.le_refl _) (by simp)
  · constructor
    · intro i h0 hi h1 _
      have hi' : i < h.length := by simp at hi; omega
      rw [el_append_left hi', el_append_left (by omega)]
      exact H i h0 hi'
    · intro i h0 hi h1 _
      simp at hi; omega
  · intro i h0 hi h1
    simp at hi; omega

theorem push_length (t : Tags) (h : Heap) (x : FE) : (push t h x).length = h.length + 1 := by
  simp [push, siftdown, siftdownAux_length]

/-! ### the `_siftup` loop -/

/-- the child `_siftup` moves up: the right one if it exists and the left one is not smaller -/
def child (t : Tags) (h : Heap) (pos : Nat) : Nat :=
  if 2 * pos + 1 + 1 < h.length && !(feLt t (el h (2 * pos + 1)) (el h (2 * pos + 1 + 1))) then 2 * pos + 1 + 1
  else 2 * pos + 1

theorem siftupAux_succ (t : Tags) (fuel : Nat) (h : Heap) (pos : Nat) :
    siftupAux t (fuel + 1) h pos =
      if 2 * pos + 1 < h.length then siftupAux t fuel (h.set pos (el h (child t h pos))) (child t h pos)
      else (h, pos) := rfl

theorem child_spec {t : Tags} {h : Heap} {pos : Nat} (hc : 2 * pos + 1 < h.length) :
    (child t h pos = 2 * pos + 1 ∨ child t h pos = 2 * pos + 2) ∧ child t h pos < h.length ∧
    ∀ i, 0 < i → i < h.length → (i - 1) / 2 = pos → le t (el h (child t h pos)) (el h i) := by
  unfold child
  split
  · rename_i hr
    simp only [Bool.and_eq_true, decide_eq_true_eq, Bool.not_eq_eq_eq_not, Bool.not_true] at hr
    refine ⟨Or.inr rfl, hr.1, ?_⟩
    intro i h0 hi h1
    have : i = 2 * pos + 1 ∨ i = 2 * pos + 1 + 1 := by omega
    rcases this with rfl | rfl
    · exact le_of_not_lt hr.2
    · exact le_refl _ _
  · rename_i hr
    simp only [Bool.and_eq_true, decide_eq_true_eq, Bool.not_eq_eq_eq_not, Bool.not_true, not_and,
      Bool.not_eq_false] at hr
    refine ⟨Or.inl rfl, hc, ?_⟩
    intro i h0 hi h1
    have : i = 2 * pos + 1 ∨ i = 2 * pos + 1 + 1 := by omega
    rcases this with rfl | rfl
    · exact le_refl _ _
    · exact le_of_lt (hr hi)

/-- one iteration of the `_siftup` loop: the smaller child moves into the hole, the hole moves down -/
theorem Hole.down {t : Tags} {h : Heap} {pos c : Nat} (H : Hole t h pos) (hp : pos < h.length)
    (hc : c < h.length) (hc0 : 0 < c) (hcp : (c - 1) / 2 = pos)
    (hmin : ∀ i, 0 < i → i < h.length → (i - 1) / 2 = pos → le t (el h c) (el h i)) :
    Hole t (h.set pos (el h c)) c := by
  constructor
  · intro i h0 hi h1 h2
    have hi' : i < h.length := by simpa using hi
    by_cases h3 : i = pos
    · rw [h3, el_set_self _ hp, el_set_ne _ (by omega)]
      exact H.skip c hc0 hc hcp (by omega)
    · rw [el_set_ne _ (Ne.symm h3)]
      by_cases h4 : (i - 1) / 2 = pos
      · rw [h4, el_set_self _ hp]
        exact hmin i h0 hi' h4
      · rw [el_set_ne _ (Ne.symm h4)]
        exact H.edge i h0 hi' h3 h4
  · intro i h0 hi h1 _
    have hi' : i < h.length := by simpa using hi
    rw [hcp, el_set_self _ hp, el_set_ne _ (by omega)]
    have := H.edge i h0 hi' (by omega) (by omega)
    rw [h1] at this
    exact this

theorem siftupAux_bounds (t : Tags) :
    ∀ (fuel : Nat) (h : Heap) (pos : Nat), pos < h.length →
      (siftupAux t fuel h pos).1.length = h.length ∧ (siftupAux t fuel h pos).2 < h.length := by
  intro fuel
  induction fuel with
  | zero => intro h pos hp; exact ⟨rfl, hp⟩
  | succ n ih =>
    intro h pos hp
    rw [siftupAux_succ]
    split
    · rename_i hc
      have := ih (h.set pos (el h (child t h pos))) (child t h pos) (by simpa using (child_spec hc).2.1)
      simpa using this
    · exact ⟨rfl, hp⟩

/-- with enough fuel the loop ends at a leaf -/
theorem siftupAux_leaf (t : Tags) :
    ∀ (fuel : Nat) (h : Heap) (pos : Nat), h.length ≤ pos + fuel → pos < h.length →
      h.length ≤ 2 * (siftupAux t fuel h pos).2 + 1 := by
  intro fuel
  induction fuel with
  | zero => intro h pos hf hp; omega
  | succ n ih =>
    intro h pos hf hp
    rw [siftupAux_succ]
    split
    · rename_i hc
      obtain ⟨h1, h2, _⟩ := child_spec (t := t) hc
      have := ih (h.set pos (el h (child t h pos))) (child t h pos) (by simp; omega) (by simpa using h2)
      simpa using this
    · simp only; omega

theorem siftupAux_hole (t : Tags) :
    ∀ (fuel : Nat) (h : Heap) (pos : Nat), pos < h.length → Hole t h pos →
      Hole t (siftupAux t fuel h pos).1 (siftupAux t fuel h pos).2 := by
  intro fuel
  induction fuel with
  | zero => intro h pos hp H; exact H
  | succ n ih =>
    intro h pos hp H
    rw [siftupAux_succ]
    split
    · rename_i hc
      obtain ⟨h1, h2, h3⟩ := child_spec (t := t) hc
      exact ih _ _ (by simpa using h2) (H.down hp h2 (by omega) (by omega) h3)
    · exact H

/-- `_siftup(h, 0)` on a heap with a hole at the root gives a heap -/
theorem siftup_heap (t : Tags) (h : Heap) (hp : 0 < h.length) (H : Hole t h 0) : IsHeap t (siftup t h 0) := by
  obtain ⟨hl, hr⟩ := siftupAux_bounds t h.length h 0 hp
  have hleaf := siftupAux_leaf t h.length h 0 (by omega) hp
  have hh := siftupAux_hole t h.length h 0 hp H
  simp only [siftup, siftdown]
  rw [el_set_self _ (by omega)]
  apply siftdownAux_heap t _ _ _ _ (Nat.le_refl _) (by simp; omega) (hh.set _)
  intro i h0 hi h1
  simp at hi; omega

theorem siftup_length (t : Tags) (h : Heap) (pos : Nat) (hp : pos < h.length) :
    (siftup t h pos).length = h.length := by
  simp [siftup, siftdown, siftdownAux_length, (siftupAux_bounds t h.length h pos hp).1]

/-! ### `heappop` -/

theorem pop_concat (t : Tags) (init : Heap) (last : FE) :
    pop t (init ++ [last]) =
      if init.isEmpty then some (last, init) else some (el init 0, siftup t (init.set 0 last) 0) := by
  simp [pop]

theorem pop_nil (t : Tags) : pop t [] = none := by simp [pop]

theorem eq_nil_or_concat (h : Heap) : h = [] ∨ ∃ init last, h = init ++ [last] := by
  rcases List.eq_nil_or_concat h with h | ⟨i, l, h⟩
  · exact Or.inl h
  · exact Or.inr ⟨i, l, by simpa using h⟩

theorem pop_eq_none {t : Tags} {h : Heap} : pop t h = none ↔ h = [] := by
  rcases eq_nil_or_concat h with rfl | ⟨init, last, rfl⟩
  · simp [pop_nil]
  · rw [pop_concat]; split <;> simp

/-- a prefix of a heap is a heap -/
theorem IsHeap.prefix {t : Tags} {h l : Heap} (H : IsHeap t (h ++ l)) : IsHeap t h := by
  intro i hi h0
  have := H i (by simp; omega) h0
  rwa [el_append_left hi, el_append_left (by omega)] at this

/-- **`heappop` keeps the heap property** (both comparators) -/
theorem pop_heap (t : Tags) (h h' : Heap) (r : FE) (H : IsHeap t h) (hp : pop t h = some (r, h')) :
    IsHeap t h' := by
  rcases eq_nil_or_concat h with rfl | ⟨init, last, rfl⟩
  · simp [pop_nil] at hp
  · rw [pop_concat] at hp
    split at hp
    · rename_i he
      simp only [Option.some.injEq, Prod.mk.injEq] at hp
      rw [← hp.2, List.isEmpty_iff.1 he]
      exact isHeap_nil t
    · rename_i he
      simp only [Option.some.injEq, Prod.mk.injEq] at hp
      rw [← hp.2]
      have hlen : 0 < init.length := by
        cases init with
        | nil => simp at he
        | cons _ _ => simp
      exact siftup_heap t _ (by simpa using hlen) ((H.prefix.hole 0).set last)

/-! ### permutations -/

theorem swap_perm (h : Heap) (i j : Nat) (x : FE) (hi : i < h.length) (hj : j < h.length) (hij : i ≠ j) :
    ((h.set i (el h j)).set j x).Perm (h.set i x) := by
  have := List.set_set_perm (as := h.set i x) (i := i) (j := j) (by simpa using hi) (by simpa using hj)
  simp only [List.getElem_set, hij, if_false, if_true, List.set_set] at this
  rw [el_eq_getElem hj]
  exact this

theorem siftdownAux_perm (t : Tags) (x : FE) (sp : Nat) :
    ∀ (fuel : Nat) (h : Heap) (pos : Nat), pos < h.length →
      (siftdownAux t x sp fuel h pos).Perm (h.set pos x) := by
  intro fuel
  induction fuel with
  | zero => intro h pos _; exact List.Perm.refl _
  | succ n ih =>
    intro h pos hp
    simp only [siftdownAux]
    split
    · rename_i h0
      split
      · exact (ih _ _ (by simp; omega)).trans (swap_perm h pos ((pos - 1) / 2) x hp (by omega) (by omega))
      · exact List.Perm.refl _
    · exact List.Perm.refl _

theorem siftupAux_perm (t : Tags) (x : FE) :
    ∀ (fuel : Nat) (h : Heap) (pos : Nat), pos < h.length →
      ((siftupAux t fuel h pos).1.set (siftupAux t fuel h pos).2 x).Perm (h.set pos x) := by
  intro fuel
  induction fuel with
  | zero => intro h pos _; exact List.Perm.refl _
  | succ n ih =>
    intro h pos hp
    rw [siftupAux_succ]
    split
    · rename_i hc
      obtain ⟨h1, h2, _⟩ := child_spec (t := t) hc
      exact (ih _ _ (by simpa using h2)).trans (swap_perm h pos _ x hp h2 (by omega))
    · exact List.Perm.refl _

theorem siftup_perm (t : Tags) (h : Heap) (pos : Nat) (hp : pos < h.length) : (siftup t h pos).Perm h := by
  obtain ⟨hl, hr⟩ := siftupAux_bounds t h.length h pos hp
  simp only [siftup, siftdown]
  rw [el_set_self _ (by omega)]
  refine (siftdownAux_perm t _ _ _ _ _ (by simp; omega)).trans ?_
  rw [List.set_set]
  have := siftupAux_perm t (el h pos) h.length h pos hp
  rwa [set_el_self h pos hp] at this

/-- **`heappush` adds exactly the new element** -/
theorem push_perm (t : Tags) (h : Heap) (x : FE) : (push t h x).Perm (x :: h) := by
  simp only [push, siftdown, List.length_append, List.length_singleton, Nat.add_sub_cancel]
  refine (siftdownAux_perm t _ _ _ _ _ (by simp)).trans ?_
  rw [set_el_self _ _ (by simp)]
  exact List.perm_append_singleton x h

/-- **`heappop` removes exactly the element it returns** -/
theorem pop_perm (t : Tags) (h h' : Heap) (r : FE) (hp : pop t h = some (r, h')) : (r :: h').Perm h := by
  rcases eq_nil_or_concat h with rfl | ⟨init, last, rfl⟩
  · simp [pop_nil] at hp
  · rw [pop_concat] at hp
    split at hp
    · rename_i he
      simp only [Option.some.injEq, Prod.mk.injEq] at hp
      rw [← hp.1, ← hp.2, List.isEmpty_iff.1 he]
      exact List.Perm.refl _
    · simp only [Option.some.injEq, Prod.mk.injEq] at hp
      rw [← hp.1, ← hp.2]
      cases init with
      | nil => simp at *
      | cons a tl =>
        have h1 := siftup_perm t ((a :: tl).set 0 last) 0 (by simp)
        simp only [List.set_cons_zero] at h1 ⊢
        have : el (a :: tl) 0 = a := by simp [el]
        rw [this]
        refine (h1.cons a).trans ?_
        exact (List.Perm.swap last a tl).trans ((List.perm_append_singleton last (a :: tl)).symm)

/-- the root of a heap is in it -/
theorem pop_root (t : Tags) (h h' : Heap) (r : FE) (hp : pop t h = some (r, h')) : r = el h 0 := by
  rcases eq_nil_or_concat h with rfl | ⟨init, last, rfl⟩
  · simp [pop_nil] at hp
  · rw [pop_concat] at hp
    split at hp
    · rename_i he
      simp only [Option.some.injEq, Prod.mk.injEq] at hp
      rw [← hp.1, List.isEmpty_iff.1 he]; simp [el]
    · rename_i he
      simp only [Option.some.injEq, Prod.mk.injEq] at hp
      rw [← hp.1]
      cases init with
      | nil => simp at he
      | cons a tl => simp [el]

/-! ### the root of a heap is least -/

theorem root_le {t : Tags} {h : Heap} (H : IsHeap t h) : ∀ i, i < h.length → le t (el h 0) (el h i) := by
  rw [isHeap_iff] at H
  intro i
  induction i using Nat.strongRecOn with
  | _ i ih =>
    intro hi
    by_cases h0 : i = 0
    · subst h0; exact le_refl _ _
    · exact le_trans (ih ((i - 1) / 2) (by omega) (by omega)) (H i (by omega) hi)

theorem root_le_mem {t : Tags} {h : Heap} (H : IsHeap t h) {x : FE} (hx : x ∈ h) : le t (el h 0) x := by
  obtain ⟨i, hi, rfl⟩ := List.mem_iff_getElem.1 hx
  rw [← el_eq_getElem hi]
  exact root_le H i hi

/-- **`heappop` returns what `minFE` returns** on a heap with pairwise distinct sequence numbers,
whatever the order in which the list model holds the same elements -/
theorem pop_is_min {t : Tags} (ht : t.feOrder = .prioSeq) {h h' : Heap} {r : FE} (H : IsHeap t h)
    (hd : (h.map (·.seq)).Nodup) (hp : pop t h = some (r, h')) {l : List FE} (hl : l.Perm h) :
    minFE t l = some r := by
  have hrh : r ∈ h := (pop_perm t h h' r hp).mem_iff.1 (List.mem_cons_self)
  cases hm : minFE t l with
  | none =>
    have := minFE_eq_none.1 hm
    subst this
    have := hl.symm.eq_nil
    subst this
    simp at hrh
  | some m =>
    have hmh : m ∈ h := hl.mem_iff.1 (minFE_mem hm)
    have h1 : FE.le m r := minFE_least ht hm r (hl.mem_iff.2 hrh)
    have h2 : FE.le r m := by
      have := root_le_mem H hmh
      rw [← pop_root t h h' r hp] at this
      exact (le_prioSeq ht).1 this
    have hs : m.seq = r.seq := by unfold FE.le at h1 h2; omega
    rw [eq_of_nodup_map hd hmh hrh hs]

/-! ### operation sequences: reachable arrays are heaps; refinement of the list model -/

theorem step_heap (t : Tags) (h : Heap) (op : Op) (H : IsHeap t h) : IsHeap t (step t h op).1 := by
  cases op with
  | push x => exact push_heap t h x H
  | pop =>
    simp only [step]
    cases hp : pop t h with
    | none => exact H
    | some r => exact pop_heap t h r.2 r.1 H hp

theorem run_heap (t : Tags) : ∀ (ops : List Op) (h : Heap), IsHeap t h → IsHeap t (run t h ops).1 := by
  intro ops
  induction ops with
  | nil => intro h H; exact H
  | cons op ops ih => intro h H; exact ih _ (step_heap t h op H)

theorem nodup_seq_perm {l l' : List FE} (p : l.Perm l') (h : (l.map (·.seq)).Nodup) : (l'.map (·.seq)).Nodup :=
  (p.map _).nodup_iff.1 h

/-- one operation on the heap and on the list model: same answer, same contents -/
theorem step_refines {t : Tags} (ht : t.feOrder = .prioSeq) (op : Op) (h : Heap) (l : List FE) (rest : List FE)
    (H : IsHeap t h) (hl : h.Perm l) (hd : ((h ++ pushed (op :: rest.map .push)).map (·.seq)).Nodup) :
    (step t h op).2 = (lstep t l op).2 ∧ (step t h op).1.Perm (lstep t l op).1 ∧
    (((step t h op).1 ++ rest).map (·.seq)).Nodup := by
  have pushed_map : ∀ r : List FE, pushed (r.map .push) = r := by
    intro r; induction r with
    | nil => rfl
    | cons a r ih => simp [pushed, ih]
  cases op with
  | push x =>
    simp only [pushed, pushed_map] at hd
    refine ⟨rfl, ?_, ?_⟩
    · exact (push_perm t h x).trans ((hl.cons x).trans (List.perm_append_singleton x l).symm)
    · refine nodup_seq_perm ?_ hd
      exact List.perm_middle.trans (((push_perm t h x).symm).append_right rest)
  | pop =>
    simp only [pushed, pushed_map] at hd
    simp only [step, lstep]
    cases hp : pop t h with
    | none =>
      have := pop_eq_none.1 hp
      subst this
      have := hl.nil_eq
      subst this
      simpa [minFE] using hd
    | some r =>
      obtain ⟨r, h'⟩ := r
      have hdh : (h.map (·.seq)).Nodup := by
        rw [List.map_append] at hd
        exact (List.nodup_append.1 hd).1
      rw [pop_is_min ht H hdh hp hl.symm]
      refine ⟨rfl, ?_, ?_⟩
      · have := ((pop_perm t h h' r hp).trans hl).erase r
        rwa [List.erase_cons_head] at this
      · have : ((r :: h' ++ rest).map (·.seq)).Nodup :=
          nodup_seq_perm ((pop_perm t h h' r hp).symm.append_right rest) hd
        simp only [List.cons_append, List.map_cons, List.nodup_cons] at this
        exact this.2

theorem pushed_append_push (ops : List Op) : ∀ (rest : List FE),
    pushed (ops ++ rest.map .push) = pushed ops ++ rest := by
  induction ops with
  | nil =>
    intro rest
    induction rest with
    | nil => rfl
    | cons a r ih => simp at ih; simp [pushed, ih]
  | cons op ops ih =>
    intro rest
    cases op <;> simp [pushed, ih]

/-- **refinement**: any operation sequence run on the heap and on the list model (`put` appends, `get`
takes `minFE` and erases it) from related states (same contents) returns the same elements, ends in
related states, the array is a heap and the sequence numbers stay distinct — provided all sequence
numbers present and pushed are pairwise distinct -/
theorem run_refines {t : Tags} (ht : t.feOrder = .prioSeq) :
    ∀ (ops : List Op) (h : Heap) (l : List FE), IsHeap t h → h.Perm l →
      ((h ++ pushed ops).map (·.seq)).Nodup →
      (run t h ops).2 = (lrun t l ops).2 ∧ (run t h ops).1.Perm (lrun t l ops).1 ∧
      IsHeap t (run t h ops).1 ∧ ((run t h ops).1.map (·.seq)).Nodup := by
  intro ops
  induction ops with
  | nil =>
    intro h l H hl hd
    exact ⟨rfl, hl, H, by simpa [pushed, run] using hd⟩
  | cons op ops ih =>
    intro h l H hl hd
    have hd' : ((h ++ pushed (op :: (pushed ops).map .push)).map (·.seq)).Nodup := by
      have e : pushed (op :: (pushed ops).map .push) = pushed (op :: ops) := by
        have := pushed_append_push [op] (pushed ops)
        simp only [List.cons_append, List.nil_append] at this
        rw [this]
        cases op <;> simp [pushed]
      rw [e]; exact hd
    obtain ⟨e1, e2, e3⟩ := step_refines ht op h l (pushed ops) H hl hd'
    obtain ⟨i1, i2, i3, i4⟩ := ih (step t h op).1 (lstep t l op).1 (step_heap t h op H) e2 e3
    simp only [run, lrun]
    exact ⟨by rw [e1, i1], i2, i3, i4⟩

/-- emptying a heap with distinct sequence numbers by successive `heappop`s hands out what successive
`minFE`s hand out of any list with the same contents -/
theorem popAll_eq_drainAux {t : Tags} (ht : t.feOrder = .prioSeq) :
    ∀ (n : Nat) (h : Heap) (l : List FE), IsHeap t h → h.Perm l → (h.map (·.seq)).Nodup →
      popAll t n h = drainAux t n l := by
  intro n
  induction n with
  | zero => intro h l _ _ _; rfl
  | succ n ih =>
    intro h l H hl hd
    simp only [popAll, drainAux]
    cases hp : pop t h with
    | none =>
      have := pop_eq_none.1 hp
      subst this
      have := hl.nil_eq
      subst this
      simp [minFE]
    | some r =>
      obtain ⟨r, h'⟩ := r
      rw [pop_is_min ht H hd hp hl.symm]
      simp only [List.cons.injEq, true_and]
      have hpp := pop_perm t h h' r hp
      apply ih h' (l.erase r) (pop_heap t h h' r H hp)
      · have := (hpp.trans hl).erase r
        rwa [List.erase_cons_head] at this
      · have := nodup_seq_perm hpp.symm hd
        simp only [List.map_cons, List.nodup_cons] at this
        exact this.2

theorem drainHeap_eq_drain {t : Tags} (ht : t.feOrder = .prioSeq) (h : Heap) (H : IsHeap t h)
    (hd : (h.map (·.seq)).Nodup) : drainHeap t h = drain t h :=
  popAll_eq_drainAux ht h.length h h H (List.Perm.refl _) hd

/-! ### the fuel of the two loops is never exhausted: any sufficient amount gives the same result -/

theorem siftdownAux_fuel (t : Tags) (x : FE) (sp : Nat) :
    ∀ (f1 f2 : Nat) (h : Heap) (pos : Nat), pos ≤ f1 → pos ≤ f2 →
      siftdownAux t x sp f1 h pos = siftdownAux t x sp f2 h pos := by
  intro f1
  induction f1 with
  | zero =>
    intro f2 h pos h1 _
    have : pos = 0 := by omega
    subst this
    cases f2 <;> simp [siftdownAux]
  | succ n ih =>
    intro f2 h pos h1 h2
    cases f2 with
    | zero =>
      have : pos = 0 := by omega
      subst this
      simp [siftdownAux]
    | succ m =>
      simp only [siftdownAux]
      split
      · split
        · exact ih m _ _ (by omega) (by omega)
        · rfl
      · rfl

theorem siftupAux_fuel (t : Tags) :
    ∀ (f1 f2 : Nat) (h : Heap) (pos : Nat), h.length ≤ pos + f1 → h.length ≤ pos + f2 →
      siftupAux t f1 h pos = siftupAux t f2 h pos := by
  intro f1
  induction f1 with
  | zero =>
    intro f2 h pos h1 _
    cases f2 with
    | zero => rfl
    | succ m => rw [siftupAux_succ, if_neg (by omega)]; rfl
  | succ n ih =>
    intro f2 h pos h1 h2
    cases f2 with
    | zero => rw [siftupAux_succ, if_neg (by omega)]; rfl
    | succ m =>
      rw [siftupAux_succ, siftupAux_succ]
      split
      · rename_i hc
        have := (child_spec (t := t) hc).1
        exact ih m _ _ (by simp; omega) (by simp; omega)
      · rfl

/-- the abstraction relation between the heap array and the list model's pending list: same
contents (the array is a permutation of the list) -/
def Abs (h : Heap) (l : List FE) : Prop := h.Perm l

end Miros.Data.Heap
