import MirosModel.Drive.All
/-! stdin line protocol: `<family> <numeric tokens…>` → one canonical line. -/
open Miros.Drive

def answer (line : String) : String :=
  match line.trimAscii.toString.splitOn " " with
  | fam :: rest =>
    let toks := rest.filterMap String.toNat?
    match fam with
    | "hsm" => hsmLine toks
    | "hsmspec" => hsmSpecLine toks
    | "hsmf" => hsmfLine toks
    | "q" => qLineS rest
    | "qx" => qLineX toks
    | "ld" => ldLine toks
    | "lds" => ldsLine toks
    | "fab" => fabLine toks
    | "fabfine" => fabFineLine toks
    | "fabfault" => fabFaultLine toks
    | "ldfab" => ldfabLine toks
    | "aoarm" => aoarmLine toks
    | "aoown" => aoownLine toks
    | "heap" => heapLine toks
    | "track" => trackLine toks
    | "jsonc" => jsoncLine (rest.headD "") toks
    | "ao" => aoLine toks
    | "ps" => psLine toks
    | "qspy" => qspyLine toks
    | "tocode" => tocodeLine toks
    | "single" => singleLine toks
    | "singleinit" => singleInitLine toks
    | "eager" => eagerLine toks
    | "subfine" => subFineLine toks
    | "handover" => handoverLine toks
    | "singlenested" => singleNestedLine toks
    | "reg" => regLine toks
    | "tsa" => tsaLine toks
    | "strip" => stripLine toks
    | "natom" => natomLine toks
    | "leak" => leakLine toks
    | _ => "bad-family"
  | [] => "bad-line"

partial def loop (h : IO.FS.Stream) (out : IO.FS.Stream) : IO Unit := do
  let line ← h.getLine
  if line.isEmpty then return ()
  out.putStrLn (answer line)
  loop h out

def main : IO Unit := do
  loop (← IO.getStdin) (← IO.getStdout)
