/- validation run (not part of the library): `lake env lean validation/ExploreAll12.lean`
   every multiset of 1–2 posters over {F, L, FF, FL, LF, LL} × cap 1–3 × refl; prints only failures -/
import MirosModel.Conc.LDExplore
open Miros.Conc.LD Miros.Conc.LD.Explore

def progsAll : List (List (Kind × Nat)) :=
  [[(.fifo,1)], [(.lifo,1)], [(.fifo,1),(.fifo,2)], [(.fifo,1),(.lifo,2)], [(.lifo,1),(.fifo,2)], [(.lifo,1),(.lifo,2)]]

partial def multisets : Nat → List (List (Kind × Nat)) → List (List (List (Kind × Nat)))
  | 0, _ => [[]]
  | _, [] => []
  | n+1, x :: xs => (multisets n (x :: xs)).map (x :: ·) ++ multisets (n+1) xs

def main : IO Unit := do
  let mut total := 0
  for np in [1, 2] do
    for ps in multisets np progsAll do
      for cap in [1, 2, 3] do
        for refl in [false, true] do
          let c := cfg .tokenAfter cap refl noSelf
          let pr := (List.range ps.length).zip ps |>.map fun (i, l) => mkProg (100 * (i + 1)) l
          let r := explore c (wtF noSelf 0) true (init c pr)
          total := total + r.states
          let bad := r.cycle.isSome || r.invFail.isSome || r.decFail.isSome || r.quiFail.isSome
          if bad then IO.println (summary s!"cap={cap} refl={refl} np={np} {ps.map fun l => l.map fun x => ((if x.1 = .fifo then "F" else "L"))}" r)
    IO.println s!"np={np} done, cumulative states={total}"
#eval main
