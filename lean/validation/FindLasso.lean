/- finds the legacy lasso used in `MirosModel/Conc/LDLegacy.lean`: `lake env lean validation/FindLasso.lean` -/
import MirosModel.Conc.LDExplore
open Miros.Conc Miros.Conc.LD Miros.Conc.LD.Explore Miros.Queue

def fullKey (s : State) : String := toString (repr s)

/-- BFS over full states; returns (prefix schedule to s, loop schedule) for the first full-state cycle found by DFS -/
def findLasso (c : Config) (s0 : State) : Option (List Nat × List Nat) := Id.run do
  let n := s0.posters.length
  let tids := List.range (n + 1)
  let mut color : Std.HashMap String Nat := {}
  let mut stack : Array (State × String × List Nat × List Nat) := #[(s0, fullKey s0, tids, [])]
  color := color.insert (fullKey s0) 1
  let mut fuel := 1000000
  while fuel > 0 do
    fuel := fuel - 1
    let some (s, k, todo, path) := stack.back? | break
    match todo with
    | [] => color := color.insert k 2; stack := stack.pop
    | t :: rest =>
      stack := stack.pop.push (s, k, rest, path)
      match stepL c s t with
      | none => pure ()
      | some (s', _) =>
        let k' := fullKey s'
        match color[k']? with
        | some 1 =>
          -- find the stack entry with key k'
          let full := (t :: path).reverse
          for (_, kk, _, pp) in stack do
            if kk == k' then
              let pre := pp.reverse
              return some (pre, full.drop pre.length)
          return none
        | some _ => pure ()
        | none =>
          color := color.insert k' 1
          stack := stack.push (s', k', tids, t :: path)
  return none

def cL (cap : Nat) : Config := cfg .legacy cap false noSelf
#eval findLasso (cL 2) (init (cL 2) [[(.fifo, ⟨1, 100⟩)]])
#eval findLasso (cL 3) (init (cL 3) [[(.fifo, ⟨1, 100⟩)]])
#eval findLasso (cL 1) (init (cL 1) [[(.fifo, ⟨1, 100⟩)]])
