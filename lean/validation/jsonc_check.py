#!/venv/bin/python
"""Compare the Lean model of the JSON codec (driver family `jsonc`) with CPython's json module.

usage: jsonc_check.py [n_values] [seed]
 * enc: json.dumps(v) for random float-free values (strings with surrogates, astral code points, controls)
 * dec: json.loads(t) for (a) the dumps texts, (b) the same with random whitespace, (c) mutated /
        truncated texts, (d) a hand-written list of edge cases.  A Python result that contains a float, or
        an exception, corresponds to `none`.
"""
import json, random, subprocess, sys, os

N = int(sys.argv[1]) if len(sys.argv) > 1 else 300
SEED = int(sys.argv[2]) if len(sys.argv) > 2 else 1
rnd = random.Random(SEED)
LEAN_DIR = os.path.dirname(os.path.dirname(os.path.abspath(__file__)))

INTERESTING = [0, 8, 9, 10, 12, 13, 0x1f, 0x20, 0x22, 0x2f, 0x5c, 0x7e, 0x7f, 0x80, 0xe9, 0xff, 0x100, 0xd7ff,
               0xd800, 0xd83d, 0xdbff, 0xdc00, 0xde00, 0xdfff, 0xe000, 0xfeff, 0xffff, 0x10000, 0x1f600, 0x10ffff,
               ord('u'), ord('n'), ord('a'), ord('0')]

def rcp():
    r = rnd.random()
    if r < 0.45: return rnd.choice(INTERESTING)
    if r < 0.7: return rnd.randrange(0x20, 0x7f)
    if r < 0.8: return rnd.randrange(0xd800, 0xe000)
    if r < 0.9: return rnd.randrange(0, 0x10000)
    return rnd.randrange(0, 0x110000)

def rstr():
    return ''.join(chr(rcp()) for _ in range(rnd.choice([0, 1, 1, 2, 3, 5, 8])))

def rint():
    r = rnd.random()
    if r < 0.3: return rnd.randrange(-12, 13)
    if r < 0.6: return rnd.randrange(-10**6, 10**6)
    return rnd.choice([-1, 1]) * rnd.randrange(10**rnd.randrange(1, 60))

def rval(depth):
    r = rnd.random()
    if depth <= 0 or r < 0.45:
        k = rnd.randrange(5)
        return [None, True, False, rint(), rstr()][k] if k < 4 else rstr()
    if r < 0.75:
        return [rval(depth - 1) for _ in range(rnd.choice([0, 1, 2, 3, 4]))]
    return {rstr(): rval(depth - 1) for _ in range(rnd.choice([0, 1, 2, 3]))}

def toks(v):
    if v is None: return [0]
    if v is True: return [1, 1]
    if v is False: return [1, 0]
    if isinstance(v, int):
        ds = [int(c) for c in str(abs(v))]
        return [2, 1 if v < 0 else 0, len(ds)] + ds
    if isinstance(v, str): return [3, len(v)] + [ord(c) for c in v]
    if isinstance(v, list):
        out = [4, len(v)]
        for x in v: out += toks(x)
        return out
    if isinstance(v, dict):
        out = [5, len(v)]
        for k, x in v.items(): out += [len(k)] + [ord(c) for c in k] + toks(x)
        return out
    raise TypeError(v)

def has_float(v):
    if isinstance(v, float): return True
    if isinstance(v, list): return any(has_float(x) for x in v)
    if isinstance(v, dict): return any(has_float(x) for x in v.values())
    return False

def expected_dec(text):
    try:
        v = json.loads(text)
    except (ValueError, RecursionError):
        return 'none'
    if has_float(v): return 'none'
    return ' '.join(map(str, toks(v)))

def ws():
    return ''.join(rnd.choice(' \t\n\r') for _ in range(rnd.choice([0, 0, 1, 2])))

def respace(text):
    """insert whitespace around structural characters outside strings"""
    out, instr, esc = [], False, False
    for ch in text:
        if instr:
            out.append(ch)
            if esc: esc = False
            elif ch == '\\': esc = True
            elif ch == '"': instr = False
        elif ch == '"':
            instr = True; out.append(ch)
        elif ch in '[]{},:':
            out.append(ws() + ch + ws())
        elif ch == ' ':
            pass
        else:
            out.append(ch)
    return ws() + ''.join(out) + ws()

ALPH = list('[]{}:,"\\u/bfnrt0123456789-+.eE aAdDcCxX\t\n') + ['null', 'true', 'false', '\\ud83d', '\\ude00', '\\uD83D',
        '\\uDE00', '\\u00e9', 'NaN', 'Infinity', '\x7f', '\u00e9', '\ud83d', '\U0001f600', '\x01', '\\"', '1.5', '1e5', '-0', '01', '\u0663']

def mutate(text):
    t = list(text)
    for _ in range(rnd.choice([1, 1, 2, 3])):
        op = rnd.randrange(4)
        if op == 0 and t: del t[rnd.randrange(len(t))]
        elif op == 1: t.insert(rnd.randrange(len(t) + 1), rnd.choice(ALPH))
        elif op == 2 and t: t[rnd.randrange(len(t))] = rnd.choice(ALPH)
        elif t: t = t[:rnd.randrange(len(t) + 1)]
    return ''.join(t)

EDGE = ['"\\u+123"', '"\\u 12 "', '"\\u1_23"', '1\u0663', '"\\ud83d\\ude00"', '"\\ud83d\\ude0"', '"\\ud83d\\u00e9"',
        '"\\ud83d\\uzzzz"', '"\\ud83dx"', '1.', '1.5', '1e5', '1e', '-', '-0', '01', '[1 , 2]', ' [ ] ', '{ }',
        '{"a" : 1 , "a":2}', '"\x7f"', '"\t"', 'NaN', '-Infinity', 'Infinity', 'nul', '"\\/"', '1E+5', '1e+', '1e-', '1e-1',
        '[1,]', '[,1]', '{"a":1,}', '\ufeff1', '"\\ud83d\\ude00', '1 2', '"\\uD83D\\uDE00"', '"\\uDE00\\uD83D"', '[', '{"a"',
        '{"a":', '[1', '"\\', '"\\u12', '', ' ', '{"a":1,"b":2,"a":3,"c":{"x":1,"x":[]}}', '[[[[[[[[[[[[1]]]]]]]]]]]]',
        '{"a":{"a":{"a":{"a":{}}}}}', '-01', '-1.5', '- 1', '[1\x0b]', '\x0b1', '"\\x41"', '"\\U0001F600"', 'tru', 'truee',
        'falsE', 'false', '[true,false,null]', '"\\ud83d\\\\ude00"', '"\\udbff\\udc00"', '"\\ud800\\udfff"', '"\\udc00\\udc00"',
        '"\\ud800\\ud800\\udc00"', '"\ud83d\ude00"', '"\\ud83d\ude00"', '{"\\ud83d\\ude00":1,"\U0001f600":2}', '{1:2}', "{'a':1}",
        '[1 2]', '{"a" 1}', '{"a":1 "b":2}', '1.e5', '1.5e', '0.5', '0e0', '00', '0x10', '1_0', '+1', '.5', '"a"b', '[]]', '{}}',
        '{"a":1}{"b":2}', '"\\u00E9\\u00e9"', '"\\b\\f\\n\\r\\t\\"\\\\"', '"\\a"', '"\\u"', '"\\ud83d\\u"', '"\\ud83d\\ude"',
        '"\\ud83d\\ude00\\ude00"', '"\\ud83d\\ud83d\\ude00"']

def main():
    enc_lines, enc_expect, dec_texts = [], [], list(EDGE)
    for _ in range(N):
        v = rval(rnd.choice([0, 1, 2, 3, 4]))
        t = toks(v)
        text = json.dumps(v)
        enc_lines.append('jsonc enc %d %s' % (len(t), ' '.join(map(str, t))))
        enc_expect.append(' '.join(str(ord(c)) for c in text))
        dec_texts.append(text)
        dec_texts.append(respace(text))
        dec_texts.append(mutate(text))
        dec_texts.append(mutate(text))
    lines = enc_lines + ['jsonc dec %d %s' % (len(t), ' '.join(str(ord(c)) for c in t)) for t in dec_texts]
    expect = enc_expect + [expected_dec(t) for t in dec_texts]
    p = subprocess.run(['lake', 'env', 'lean', '--run', 'Driver.lean'], cwd=LEAN_DIR, input='\n'.join(lines) + '\n',
                       capture_output=True, text=True, timeout=3000)
    got = p.stdout.split('\n')[:len(lines)]
    if len(got) != len(lines):
        print('driver produced', len(got), 'lines for', len(lines), p.stderr[:2000]); sys.exit(2)
    bad = 0
    n_some = sum(1 for e in expect[len(enc_lines):] if e != 'none')
    for l, e, g in zip(lines, expect, got):
        if e != g.strip():
            bad += 1
            if bad <= 10: print('MISMATCH\n  line  ', l[:300], '\n  python', e[:300], '\n  model ', g[:300])
    print('enc cases %d, dec cases %d (%d decodable, %d none), mismatches %d' %
          (len(enc_lines), len(dec_texts), n_some, len(dec_texts) - n_some, bad))
    sys.exit(1 if bad else 0)

main()
