/- validation run (not part of the library): `lake env lean validation/ExploreSelf3.lean`
   self-posting handlers (1–2 posters), 3 posters × 1 post, 3 posters with 2-post programs -/
import MirosModel.Conc.LDExplore
open Miros.Conc.LD Miros.Conc.LD.Explore

def one : List (List (Kind × Nat)) := [[(.fifo,1)], [(.lifo,1)]]

partial def multisets : Nat → List (List (Kind × Nat)) → List (List (List (Kind × Nat)))
  | 0, _ => [[]]
  | _, [] => []
  | n+1, x :: xs => (multisets n (x :: xs)).map (x :: ·) ++ multisets (n+1) xs

def runOne (cap : Nat) (refl : Bool) (sp : Nat → List (Kind × Nat)) (depth : Nat) (ps : List (List (Kind × Nat))) : IO Nat := do
  let c := cfg .tokenAfter cap refl sp
  let pr := (List.range ps.length).zip ps |>.map fun (i, l) => mkProg (100 * (i + 1)) l
  let r := explore c (wtF sp depth) true (init c pr)
  IO.println (summary s!"cap={cap} refl={refl} {ps.map fun l => l.map fun x => ((if x.1 = .fifo then "F" else "L"), x.2)}" r)
  (← IO.getStdout).flush
  return r.states

-- self-post tables: sig 1 -> [F 2, L 3]; sig 2 -> [F 3]; sig 3 -> []
def sp1 : Nat → List (Kind × Nat)
  | 1 => [(.fifo, 2), (.lifo, 3)]
  | 2 => [(.fifo, 3)]
  | _ => []
def sp2 : Nat → List (Kind × Nat)
  | 1 => [(.lifo, 2), (.fifo, 2)]
  | 2 => [(.lifo, 3)]
  | _ => []

def main : IO Unit := do
  let mut total := 0
  -- self posts, 1-2 posters
  for sp in [sp1, sp2] do
    for cap in [1, 2, 3] do
      for refl in [false, true] do
        for ps in [[[(Kind.fifo,1)]], [[(.lifo,1)]], [[(.fifo,2),(.lifo,1)]], [[(.fifo,1)],[(.fifo,2)]], [[(.lifo,1)],[(.fifo,1)]]] do
          total := total + (← runOne cap refl sp 3 ps)
  IO.println s!"selfposts done, cumulative states={total}"
  for ps in multisets 3 one do
    for cap in [1, 2, 3] do
      for refl in [false, true] do
        total := total + (← runOne cap refl noSelf 0 ps)
  IO.println s!"3x1 done, cumulative states={total}"
  for ps in [[[(Kind.fifo,1),(.fifo,2)],[(.fifo,1)],[(.lifo,1)]], [[(Kind.fifo,1),(.lifo,2)],[(.lifo,1),(.fifo,2)],[(.fifo,1)]]] do
    for cap in [1, 2, 3] do
      total := total + (← runOne cap false noSelf 0 ps)
  IO.println s!"3x(2,1..) done, cumulative states={total}"
#eval main
