-- root of the MirosModel library (the property modules are built by name: see MANIFEST.setup_cmd)
import MirosModel.Drive.All
