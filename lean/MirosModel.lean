-- root of the `MirosModel` library
import MirosModel.Hsm.Model
import MirosModel.Hsm.Spec
import MirosModel.Gen.Constants
import MirosModel.Drive.All
