#!/bin/sh
# dev helper: run every registered quick (or thorough) check on the current tree and summarise
# usage: ./runall.sh [quick|thorough] [ids...]
cd "$(dirname "$0")" || exit 2
tier="${1:-quick}"; shift 2>/dev/null
ids="$*"
[ -z "$ids" ] && ids=$(python3 -c "import json;print(' '.join(c['property_id'] for c in json.load(open('MANIFEST.json'))['checks']))")
fail=0
for p in $ids; do
  out=$(./check "$p" --tier "$tier" 2>&1); rc=$?
  echo "$out" | grep -E "^(PASS|VIOLATION|KNOWN-FINDING|CHECK-BROKEN)" | head -5
  [ $rc -ne 0 ] && { fail=1; echo "  rc=$rc for $p"; echo "$out" | tail -5; }
done
exit $fail
